"""Order-type enumeration for the Location kernels (E3).

Every integer input of a kernel is a *symbol*; each weak ordering of the symbols (restricted by the class
invariants) is represented by integers (the ranks, optionally spread out); the kernel's AST is interpreted on the
representative; the outcome is compared with the position-set oracle.  Because each representative is a genuine
integer input, a mismatch is always a concrete counterexample; when the kernel additionally uses its integer
inputs only through comparisons (checked syntactically by the rules), agreement on every order type implies
agreement on all integers."""
import ast
from typing import Callable, Dict, Iterable, List

from .interp import ClassTok, Interp, Obj, Raised, std_interp, weak_orderings, EnumVal


def loc_interp(repo, **kw) -> Interp:
    empty = Obj("_EmptyLocation")

    def empty_hook(interp, selfv, args, kwargs):
        return empty

    it = std_interp(repo, {"location.location_impl:EmptyLocation": empty_hook}, **kw)
    it.empty = empty
    return it


def strands(it: Interp) -> Dict[str, EnumVal]:
    return it.enum("Strand")


def mk_single(it: Interp, s, e, strand) -> Obj:
    return it.apply(ClassTok("SingleInterval"), [s, e, strand], {}, None, 0)


def mk_compound(it: Interp, starts, ends, strand) -> Obj:
    return it.apply(ClassTok("CompoundInterval"), [list(starts), list(ends), strand], {}, None, 0)


def is_empty_obj(o) -> bool:
    return isinstance(o, Obj) and o.cls_name == "_EmptyLocation"


def blocks_of(o) -> List[tuple]:
    """[(start, end)] of an interpreted location record"""
    if is_empty_obj(o):
        return []
    if o.cls_name == "SingleInterval":
        return [(o.fields["start"], o.fields["end"])]
    if o.cls_name == "CompoundInterval":
        return list(zip(o.fields["_starts"], o.fields["_ends"]))
    raise ValueError(f"not a location record: {o!r}")


def positions(o) -> set:
    out = set()
    for s, e in blocks_of(o):
        out.update(range(s, e))
    return out


def multiset(o) -> Dict[int, int]:
    out: Dict[int, int] = {}
    for s, e in blocks_of(o):
        for p in range(s, e):
            out[p] = out.get(p, 0) + 1
    return out


def strand_of(o):
    return None if is_empty_obj(o) else o.fields.get("strand")


def well_formed(o) -> str:
    """structural invariants of a returned location record; '' if fine"""
    if is_empty_obj(o):
        return ""
    bl = blocks_of(o)
    if not bl:
        return "no blocks"
    if any(s > e for s, e in bl):
        return f"block with start > end: {bl}"
    if any(s < 0 for s, _ in bl):
        return f"negative start: {bl}"
    if [b[0] for b in bl] != sorted(b[0] for b in bl):
        return f"blocks not sorted by start: {bl}"
    if o.fields.get("length") != sum(e - s for s, e in bl):
        return f"length {o.fields.get('length')} != sum of block lengths of {bl}"
    if o.fields.get("start") != bl[0][0] or o.fields.get("end") != bl[-1][1] and o.cls_name == "SingleInterval":
        return f"start/end fields disagree with blocks {bl}"
    return ""


def orderings(symbols: List[str], constraints: Iterable[Callable[[Dict[str, int]], bool]] = (), spread=2, base=0):
    """representatives of every weak ordering satisfying the constraints; values are base + spread*rank so that
    `x + 1` style neighbours do not collide with another symbol's representative"""
    for rk in weak_orderings(symbols):
        env = {s: base + spread * r for s, r in rk.items()}
        if all(c(env) for c in constraints):
            yield env


def run(it: Interp, func, args, kwargs=None, selfv=None):
    """-> ('ok', value) | ('raise', exc_name)"""
    try:
        return "ok", it.call_func(func, list(args), dict(kwargs or {}), selfv, 0)
    except Raised as r:
        return "raise", r.exc_name
