"""fork-based parallel map (the analysed program model is inherited by the workers, nothing is pickled but the
item indices and the plain results)"""
import multiprocessing
import os

_G = {}


def _worker(i):
    r = _G["fn"](_G["items"][i])
    from . import interp
    if interp.COV is not None:
        interp.cov_flush()
    return r


def pmap(fn, items, jobs=None, min_items=24):
    items = list(items)
    jobs = jobs or int(os.environ.get("VERIF_JOBS", "0")) or min(16, os.cpu_count() or 1)
    if jobs <= 1 or len(items) < min_items:
        return [fn(x) for x in items]
    _G["fn"], _G["items"] = fn, items
    ctx = multiprocessing.get_context("fork")
    chunk = max(1, len(items) // (jobs * 24))
    with ctx.Pool(jobs) as pool:
        return pool.map(_worker, range(len(items)), chunksize=chunk)
