"""E1 - program model of /repo/inscripta built from the AST only (nothing is imported or executed)."""
import ast
import os
from typing import Dict, List, Optional


class AnchorMissing(Exception):
    """An anchored construct (module, class, function) is not present in the analysed tree."""


class AnalysisError(Exception):
    """The analyser cannot interpret a construct it needs (-> exit 2, never a violation)."""


class Func:
    def __init__(self, name, node, module, cls=None, parent=None):
        self.name = name
        self.node = node
        self.module = module
        self.cls = cls
        self.parent = parent  # enclosing Func for nested defs
        self.nested: Dict[str, "Func"] = {}
        self.decorators = [ast.unparse(d) for d in node.decorator_list]

    @property
    def qual(self):
        if self.parent is not None:
            return f"{self.parent.qual}.<{self.name}>"
        if self.cls is not None:
            return f"{self.module.name}:{self.cls.name}.{self.name}"
        return f"{self.module.name}:{self.name}"

    @property
    def params(self) -> List[str]:
        a = self.node.args
        return [x.arg for x in a.posonlyargs + a.args] + ([a.vararg.arg] if a.vararg else []) + [
            x.arg for x in a.kwonlyargs
        ] + ([a.kwarg.arg] if a.kwarg else [])

    @property
    def pos_params(self) -> List[str]:
        a = self.node.args
        return [x.arg for x in a.posonlyargs + a.args]

    def param_default(self, name):
        a = self.node.args
        pos = a.posonlyargs + a.args
        defaults = [None] * (len(pos) - len(a.defaults)) + list(a.defaults)
        for p, d in zip(pos, defaults):
            if p.arg == name:
                return d
        for p, d in zip(a.kwonlyargs, a.kw_defaults):
            if p.arg == name:
                return d
        return None

    def param_annotation(self, name):
        a = self.node.args
        for p in a.posonlyargs + a.args + a.kwonlyargs:
            if p.arg == name:
                return p.annotation
        return None

    @property
    def is_property(self):
        return any(d in ("property", "cached_property", "functools.cached_property") or d.endswith(".setter")
                   for d in self.decorators)

    @property
    def is_static(self):
        return "staticmethod" in self.decorators

    @property
    def is_classmethod(self):
        return "classmethod" in self.decorators

    @property
    def is_abstract(self):
        return any("abstractmethod" in d for d in self.decorators)

    @property
    def is_cached(self):
        return any("lru_cache" in d or "cached_property" in d or d in ("cache", "functools.cache") for d in self.decorators)

    @property
    def file(self):
        return self.module.relpath

    @property
    def line(self):
        return self.node.lineno

    def body_without_docstring(self):
        body = self.node.body
        if body and isinstance(body[0], ast.Expr) and isinstance(body[0].value, ast.Constant) and isinstance(
            body[0].value.value, str
        ):
            return body[1:]
        return body

    def __repr__(self):
        return f"<Func {self.qual}>"


class Class:
    def __init__(self, name, node, module):
        self.name = name
        self.node = node
        self.module = module
        self.bases = [ast.unparse(b) for b in node.bases]
        self.methods: Dict[str, Func] = {}
        self.attrs: Dict[str, ast.AST] = {}  # class-level assignments (value nodes)
        self.annots: Dict[str, ast.AST] = {}  # class-level annotations
        self.decorators = [ast.unparse(d) for d in node.decorator_list]
        self.order: List[str] = []  # declaration order of attrs/annots
        for st in node.body:
            if isinstance(st, (ast.FunctionDef, ast.AsyncFunctionDef)):
                # keep the getter for property setter pairs
                if st.name in self.methods and any(
                    ast.unparse(d).endswith(".setter") for d in st.decorator_list
                ):
                    continue
                self.methods[st.name] = Func(st.name, st, module, cls=self)
            elif isinstance(st, ast.Assign):
                for t in st.targets:
                    if isinstance(t, ast.Name):
                        self.attrs[t.id] = st.value
                        self.order.append(t.id)
                    elif isinstance(t, (ast.Tuple, ast.List)) and all(isinstance(e, ast.Name) for e in t.elts):
                        # A, B = x, y   /   A, B, C = range(3)  (the i-th component of the value)
                        if isinstance(st.value, (ast.Tuple, ast.List)) and len(st.value.elts) == len(t.elts):
                            pairs = list(zip(t.elts, st.value.elts))
                        else:
                            pairs = [(e, ast.copy_location(ast.fix_missing_locations(
                                ast.Subscript(value=ast.Call(func=ast.Name(id="list", ctx=ast.Load()), args=[st.value], keywords=[]),
                                              slice=ast.Constant(i), ctx=ast.Load())), st.value)) for i, e in enumerate(t.elts)]
                        for e, v in pairs:
                            self.attrs[e.id] = v
                            self.order.append(e.id)
            elif isinstance(st, ast.AnnAssign) and isinstance(st.target, ast.Name):
                self.annots[st.target.id] = st.annotation
                self.order.append(st.target.id)
                if st.value is not None:
                    self.attrs[st.target.id] = st.value

    @property
    def qual(self):
        return f"{self.module.name}:{self.name}"

    @property
    def file(self):
        return self.module.relpath

    @property
    def line(self):
        return self.node.lineno

    def __repr__(self):
        return f"<Class {self.qual}>"


class Module:
    def __init__(self, name, path, relpath, src):
        self.name = name
        self.path = path
        self.relpath = relpath
        self.src = src
        self.tree = ast.parse(src, filename=path)
        self.classes: Dict[str, Class] = {}
        self.funcs: Dict[str, Func] = {}
        self.assigns: Dict[str, ast.AST] = {}
        self.imports: Dict[str, tuple] = {}  # alias -> (module dotted, name or None)
        self._collect(self.tree.body)

    def _collect(self, body):
        for st in body:
            if isinstance(st, ast.ClassDef):
                self.classes[st.name] = Class(st.name, st, self)
            elif isinstance(st, (ast.FunctionDef, ast.AsyncFunctionDef)):
                if st.name not in self.funcs or st.name != "_":
                    self.funcs[st.name] = Func(st.name, st, self)
            elif isinstance(st, ast.Assign):
                for t in st.targets:
                    if isinstance(t, ast.Name):
                        self.assigns[t.id] = st.value
                    elif isinstance(t, (ast.Tuple, ast.List)) and all(isinstance(e, ast.Name) for e in t.elts):
                        # a, b = x, y   /   a, b = expr  (the i-th component of the value)
                        if isinstance(st.value, (ast.Tuple, ast.List)) and len(st.value.elts) == len(t.elts):
                            for e, v in zip(t.elts, st.value.elts):
                                self.assigns[e.id] = v
                        else:
                            for i, e in enumerate(t.elts):
                                sub = ast.Subscript(value=ast.Call(func=ast.Name(id="list", ctx=ast.Load()), args=[st.value], keywords=[]),
                                                    slice=ast.Constant(i), ctx=ast.Load())
                                self.assigns[e.id] = ast.copy_location(ast.fix_missing_locations(sub), st.value)
            elif isinstance(st, ast.AnnAssign) and isinstance(st.target, ast.Name) and st.value is not None:
                self.assigns[st.target.id] = st.value
            elif isinstance(st, ast.ImportFrom):
                for a in st.names:
                    self.imports[a.asname or a.name] = (st.module or "", a.name)
            elif isinstance(st, ast.Import):
                for a in st.names:
                    self.imports[a.asname or a.name.split(".")[0]] = (a.name, None)
            elif isinstance(st, (ast.If, ast.Try)):
                # TYPE_CHECKING blocks, try/except import guards
                for sub in ast.iter_child_nodes(st):
                    pass
                bodies = []
                if isinstance(st, ast.If):
                    bodies = [st.body, st.orelse]
                else:
                    bodies = [st.body, st.orelse, st.finalbody] + [h.body for h in st.handlers]
                for b in bodies:
                    self._collect(b)


def _index_nested(func: Func):
    for node in ast.walk(func.node):
        if node is func.node:
            continue
    # direct nested defs only (one level is all this repo uses)
    for st in ast.walk(func.node):
        if isinstance(st, (ast.FunctionDef, ast.AsyncFunctionDef)) and st is not func.node:
            func.nested[st.name] = Func(st.name, st, func.module, cls=func.cls, parent=func)


PKG_PREFIX = "inscripta.biocantor."


class Repo:
    def __init__(self, root: str):
        self.root = root
        self.pkg = os.path.join(root, "inscripta", "biocantor")
        if not os.path.isdir(self.pkg):
            raise AnchorMissing(f"package directory {self.pkg} not found")
        self.modules: Dict[str, Module] = {}
        for dirpath, dirnames, filenames in sorted(os.walk(self.pkg)):
            dirnames.sort()
            for fn in sorted(filenames):
                if not fn.endswith(".py"):
                    continue
                path = os.path.join(dirpath, fn)
                rel = os.path.relpath(path, root)
                modrel = os.path.relpath(path, self.pkg)[:-3].replace(os.sep, ".")
                if modrel.endswith("__init__"):
                    modrel = modrel[: -len("__init__")].rstrip(".") or "__init__"
                with open(path, encoding="utf-8") as fh:
                    src = fh.read()
                try:
                    self.modules[modrel] = Module(modrel, path, rel, src)
                except SyntaxError as e:
                    raise AnalysisError(f"cannot parse {rel}: {e}")
        self._classes_by_name: Dict[str, List[Class]] = {}
        for m in self.modules.values():
            for c in m.classes.values():
                self._classes_by_name.setdefault(c.name, []).append(c)
                for f in c.methods.values():
                    _index_nested(f)
            for f in m.funcs.values():
                _index_nested(f)

    # ---- lookup -------------------------------------------------------------------
    def module(self, name) -> Module:
        if name not in self.modules:
            raise AnchorMissing(f"module {name} not found")
        return self.modules[name]

    def cls(self, name) -> Class:
        if ":" in name:
            mod, cn = name.split(":")
            m = self.module(mod)
            if cn not in m.classes:
                raise AnchorMissing(f"class {name} not found")
            return m.classes[cn]
        cands = self._classes_by_name.get(name, [])
        if not cands:
            raise AnchorMissing(f"class {name} not found")
        if len(cands) > 1:
            raise AnalysisError(f"class name {name} is ambiguous: {[c.qual for c in cands]}")
        return cands[0]

    def has_cls(self, name) -> bool:
        cache = self.__dict__.setdefault("_has_cache", {})
        if name in cache:
            return cache[name]
        try:
            self.cls(name)
            cache[name] = True
        except (AnchorMissing, AnalysisError):
            cache[name] = False
        return cache[name]

    def fn(self, qual) -> Func:
        """'gene.cds:CDSInterval.translate' or 'util.bins:bins'; nested: 'mod:Cls.meth.<inner>'"""
        mod, rest = qual.split(":")
        m = self.module(mod)
        parts = rest.split(".")
        cur = None
        if parts[0] in m.classes and len(parts) >= 2:
            c = m.classes[parts[0]]
            if parts[1] in c.methods:
                cur = c.methods[parts[1]]
            else:
                # a method the class inherits from a repository base class (moved into a mixin / base): the anchor is where it lives now
                cur = self.lookup_method(c, parts[1])
                if cur is None:
                    raise AnchorMissing(f"function {qual} not found")
            parts = parts[2:]
        elif parts[0] in m.funcs:
            cur = m.funcs[parts[0]]
            parts = parts[1:]
        else:
            raise AnchorMissing(f"function {qual} not found")
        for p in parts:
            p = p.strip("<>")
            if p not in cur.nested:
                raise AnchorMissing(f"function {qual} not found")
            cur = cur.nested[p]
        return cur

    @staticmethod
    def is_private_helper(qual) -> bool:
        last = qual.split(":")[-1].split(".")[-1]
        return last.startswith("_") and not (last.startswith("__") and last.endswith("__"))

    def fn_opt(self, qual) -> Optional[Func]:
        """a private helper a rule would like to look at directly: None when it no longer exists under that name (private
        names are not API - renaming one is not a change of behaviour; the rule's questions through public entry points stand).
        A public name that vanishes still fails the run."""
        try:
            return self.fn(qual)
        except AnchorMissing:
            if self.is_private_helper(qual):
                self.__dict__.setdefault("renamed_private", set()).add(qual)
                return None
            raise

    def where(self, qual):
        """source object a report line is attributed to.  A private helper that no longer exists under the recorded name is
        attributed to its class (or module): the obligation was decided through the public entry points, the helper's name
        was a label."""
        try:
            return self.fn(qual)
        except AnchorMissing:
            pass
        try:
            return self.cls(qual)
        except (AnchorMissing, AnalysisError):
            pass
        if ":" in qual and "." in qual.split(":")[1]:
            # a member that is now a class-level value (`name = property(getter)`) rather than a def: attributed to its class
            mod_, rest_ = qual.split(":")
            cn_, mn_ = rest_.split(".")[:2]
            try:
                c_ = self.cls(f"{mod_}:{cn_}")
                if any(mn_ in k.attrs for k in self.mro(c_)):
                    return c_
            except (AnchorMissing, AnalysisError):
                pass
        if self.is_private_helper(qual):
            self.__dict__.setdefault("renamed_private", set()).add(qual)
            mod, rest = qual.split(":")
            parts = rest.split(".")
            if len(parts) >= 2:
                try:
                    return self.cls(f"{mod}:{parts[0]}")
                except (AnchorMissing, AnalysisError):
                    pass
            return (self.module(mod).relpath, 1)
        raise AnchorMissing(f"anchored construct vanished: {qual} not found")

    def has_fn(self, qual) -> bool:
        try:
            self.fn(qual)
            return True
        except AnchorMissing:
            return False

    def const(self, mod, name) -> ast.AST:
        m = self.module(mod)
        if name not in m.assigns:
            raise AnchorMissing(f"module-level name {mod}:{name} not found")
        return m.assigns[name]

    # ---- hierarchy ----------------------------------------------------------------
    def base_classes(self, c: Class) -> List[Class]:
        out = []
        for b in c.bases:
            bn = b.split(".")[-1].split("[")[0]
            cands = self._classes_by_name.get(bn, [])
            # prefer a class visible through the module's imports
            pick = None
            if len(cands) == 1:
                pick = cands[0]
            elif len(cands) > 1:
                imp = c.module.imports.get(bn)
                for k in cands:
                    if imp and (PKG_PREFIX + k.module.name).startswith(imp[0]):
                        pick = k
                if pick is None and bn in c.module.classes:
                    pick = c.module.classes[bn]
            if pick is not None and pick is not c:
                out.append(pick)
        return out

    def mro(self, c: Class) -> List[Class]:
        cache = self.__dict__.setdefault("_mro_cache", {})
        if id(c) in cache:
            return cache[id(c)]
        cache[id(c)] = self._mro(c)
        return cache[id(c)]

    def _mro(self, c: Class) -> List[Class]:
        seen, out = set(), []

        def visit(k):
            if id(k) in seen:
                return
            seen.add(id(k))
            out.append(k)
            for b in self.base_classes(k):
                visit(b)

        visit(c)
        return out

    def lookup_method(self, c: Class, name: str) -> Optional[Func]:
        cache = self.__dict__.setdefault("_lm_cache", {})
        key = (id(c), name)
        if key in cache:
            return cache[key]
        res = None
        for k in self.mro(c):
            if name in k.methods:
                res = k.methods[name]
                break
        cache[key] = res
        return res

    def lookup_attr(self, c: Class, name: str):
        for k in self.mro(c):
            if name in k.attrs:
                return k.attrs[name]
        return None

    def subclasses(self, c: Class) -> List[Class]:
        out = []
        for m in self.modules.values():
            for k in m.classes.values():
                if k is not c and c in self.mro(k):
                    out.append(k)
        return out

    def all_funcs(self):
        for m in self.modules.values():
            for f in m.funcs.values():
                yield f
                yield from f.nested.values()
            for c in m.classes.values():
                for f in c.methods.values():
                    yield f
                    yield from f.nested.values()

    def all_classes(self):
        for m in self.modules.values():
            yield from m.classes.values()

    def enum_members(self, c: Class):
        """ordered (name, value node) of an Enum-style class body"""
        return [(n, c.attrs[n]) for n in c.order if n in c.attrs and not n.startswith("_")]
