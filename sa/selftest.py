"""Fixture self-test of the engines (run by MANIFEST.setup_cmd): tiny positive / negative snippets, no repo needed
beyond parsing.  Exit 0 when every engine behaves as expected, 2 otherwise."""
import ast
import sys
import traceback

from .astutil import affine, Aff, Facts, atoms, enumerate_paths, terminates, src
from .interp import weak_orderings


def t_affine():
    e = ast.parse("self.end - p - 1", mode="eval").body
    f = ast.parse("-(p + 1) + self.end", mode="eval").body
    g = ast.parse("self.end - p", mode="eval").body
    assert affine(e) == affine(f)
    assert affine(e) != affine(g)
    m = ast.parse("a + 3*b + 7", mode="eval").body
    assert affine(m).mod(3) == Aff({"a": 1}, 1)


def t_orderings():
    # Fubini numbers
    assert sum(1 for _ in weak_orderings(["a", "b", "c"])) == 13
    assert sum(1 for _ in weak_orderings(["a", "b", "c", "d"])) == 75


def t_facts():
    fn = ast.parse(
        "def f(x, y):\n"
        "    if x is None:\n"
        "        raise ValueError\n"
        "    if y:\n"
        "        a = x.z\n"
        "    else:\n"
        "        b = x.w\n"
        "    return x.q\n"
    ).body[0]
    facts = Facts(fn)
    target = [n for n in ast.walk(fn) if isinstance(n, ast.Attribute) and n.attr == "q"][0]
    fs = facts.facts_at(target)
    assert any(src(t) == "x is None" and pol is False for t, pol in fs), fs
    tz = [n for n in ast.walk(fn) if isinstance(n, ast.Attribute) and n.attr == "z"][0]
    assert any(src(t) == "y" and pol is True for t, pol in facts.facts_at(tz))
    assert terminates(fn.body)


def t_paths():
    fn = ast.parse(
        "def f(s):\n"
        "    if s == 1:\n"
        "        return 1\n"
        "    elif s == 2:\n"
        "        return 2\n"
        "    raise ValueError\n"
    ).body[0]
    ps = enumerate_paths(fn.body)
    assert len(ps) == 3 and sorted(p.end[0] for p in ps) == ["raise", "return", "return"]


TESTS = [t_affine, t_orderings, t_facts, t_paths]


def main():
    bad = 0
    for t in TESTS:
        try:
            t()
            print(f"selftest {t.__name__}: ok")
        except Exception:
            bad += 1
            print(f"selftest {t.__name__}: FAILED")
            traceback.print_exc()
    try:
        from . import selftest_rules
        bad += selftest_rules.main()
    except ImportError:
        pass
    return 0 if bad == 0 else 2


if __name__ == "__main__":
    sys.exit(main())
