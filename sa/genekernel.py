"""Interpreter set-up for the gene object model (parent-less objects): external calls are hooked out."""
from .interp import ClassTok, Obj, Opaque, Raised
from .lockernel import loc_interp


def _digest(interp, selfv, args, kwargs):
    return Opaque("uuid")


def gene_interp(repo, **kw):
    it = loc_interp(repo, **kw)
    it.hooks["util.hashing:digest_object"] = _digest
    it.hooks["digest_object"] = _digest
    return it


def mk_transcript(it, exons, strand, cds=None, frames=None, **kw):
    args = dict(exon_starts=[b[0] for b in exons], exon_ends=[b[1] for b in exons], strand=strand)
    if cds is not None:
        args.update(cds_starts=[b[0] for b in cds], cds_ends=[b[1] for b in cds], cds_frames=frames)
    args.update(kw)
    return it.apply(ClassTok("TranscriptInterval"), [], args, None, 0)


def mk_feature(it, blocks, strand, **kw):
    args = dict(interval_starts=[b[0] for b in blocks], interval_ends=[b[1] for b in blocks], strand=strand)
    args.update(kw)
    return it.apply(ClassTok("FeatureInterval"), [], args, None, 0)
