"""Interpreter set-up for the gene object model (parent-less objects): external calls are hooked out."""
from .interp import ClassTok, Obj, Opaque, Raised
from .lockernel import loc_interp


def _digest(interp, selfv, args, kwargs):
    return Opaque("uuid")


def _seq(interp, selfv, args, kwargs):
    v = args[0]
    return v if isinstance(v, str) else str(v)


def _make_parent(interp, selfv, args, kwargs):
    obj = args[0]
    if isinstance(obj, str):
        return interp.apply(ClassTok("Parent"), [], {"id": obj}, None, 0)
    if isinstance(obj, Obj) and obj.cls_name == "Parent":
        return obj
    if isinstance(obj, Obj) and obj.cls_name == "Sequence":
        return interp.apply(ClassTok("Parent"), [], {"sequence": obj}, None, 0)
    if isinstance(obj, Obj) and obj.cls_name in ("SingleInterval", "CompoundInterval", "_EmptyLocation"):
        return interp.apply(ClassTok("Parent"), [], {"location": obj}, None, 0)
    from .interp import EnumVal
    if isinstance(obj, EnumVal) and obj.cls == "Strand":
        return interp.apply(ClassTok("Parent"), [], {"strand": obj}, None, 0)
    raise Raised("TypeError", "make_parent")


def gene_interp(repo, **kw):
    opaque = kw.pop("opaque_digest", False)
    it = loc_interp(repo, **kw)
    kw["opaque_digest"] = opaque
    it.hooks["Seq"] = _seq
    it.hooks["make_parent"] = _make_parent
    it.hooks["parent:make_parent"] = _make_parent
    it.hooks["inscripta.biocantor.parent.make_parent"] = _make_parent
    if kw.pop("opaque_digest", False):
        it.hooks["util.hashing:digest_object"] = _digest
        it.hooks["digest_object"] = _digest
    return it


def mk_transcript(it, exons, strand, cds=None, frames=None, **kw):
    args = dict(exon_starts=[b[0] for b in exons], exon_ends=[b[1] for b in exons], strand=strand)
    if cds is not None:
        args.update(cds_starts=[b[0] for b in cds], cds_ends=[b[1] for b in cds], cds_frames=frames)
    args.update(kw)
    return it.apply(ClassTok("TranscriptInterval"), [], args, None, 0)


def mk_feature(it, blocks, strand, **kw):
    args = dict(interval_starts=[b[0] for b in blocks], interval_ends=[b[1] for b in blocks], strand=strand)
    args.update(kw)
    return it.apply(ClassTok("FeatureInterval"), [], args, None, 0)


def mk_parent(it, **kw):
    return it.apply(ClassTok("Parent"), [], kw, None, 0)


def mk_sequence(it, data, alphabet="NT_EXTENDED_GAPPED", **kw):
    return it.apply(ClassTok("Sequence"), [data, it.enum("Alphabet")[alphabet]], kw, None, 0)


def chrom_parent(it, seq, seq_id="chr1", alphabet="NT_EXTENDED_GAPPED"):
    """the whole-chromosome parent exactly as the library's own io.parser.seq_to_parent builds it (interpreted)"""
    f = it.repo.fn("io.parser:seq_to_parent")
    return it.call_func(f, [seq], {"alphabet": it.enum("Alphabet")[alphabet], "seq_id": seq_id}, None, 0)


_IUPAC_RC = str.maketrans("ACGTURYSWKMBVDHNacgturyswkmbvdhn-", "TGCAAYRSWMKVBHDNtgcaayrswmkvbhdn-")


def chunk_parent(it, genome, start, end, seq_id="chr1", alphabet="NT_EXTENDED_GAPPED", strand="PLUS"):
    """the chunk parent exactly as io.parser.seq_chunk_to_parent builds it for genome[start:end] (interpreted); a chunk
    on the minus strand carries the reverse complement of that stretch"""
    f = it.repo.fn("io.parser:seq_chunk_to_parent")
    data = genome[start:end]
    kw = {"alphabet": it.enum("Alphabet")[alphabet]}
    if strand != "PLUS":
        data = data[::-1].translate(_IUPAC_RC)
        kw["strand"] = it.enum("Strand")[strand]
    return it.call_func(f, [data, seq_id, start, end], kw, None, 0)


def mk_gene(it, transcripts, **kw):
    return it.apply(ClassTok("GeneInterval"), [], dict(transcripts=list(transcripts), **kw), None, 0)


def mk_feature_collection(it, features, **kw):
    return it.apply(ClassTok("FeatureIntervalCollection"), [], dict(feature_intervals=list(features), **kw), None, 0)


def mk_collection(it, genes=None, feature_collections=None, **kw):
    return it.apply(ClassTok("AnnotationCollection"), [], dict(genes=genes, feature_collections=feature_collections, **kw),
                    None, 0)
