"""C10 - answers do not depend on call history; operations never change their operands.

RH  the analyser builds twins of each kind of object (locations, sequences, transcripts, CDSs, features, genes,
    feature collections, annotation collections; chromosome and chunk parents) and interprets every public
    zero-argument accessor plus a list of binary / exporting operations in several orders; every answer (value and
    type) must equal the answer of a fresh twin, and the observable state of every operand (all non-memo fields,
    recursively) must be the same before and after.  Memo fields may be filled once and must then stay stable.
R5  structural: memoisation keys.  For the lru_cache'd Parent class every field set by the constructor takes part in
    __hash__, and the classes used inside the key (Sequence, SingleInterval, CompoundInterval) hash every field
    their __eq__ compares.
R6  structural: no identity comparison (`is` / `is not`) between Parent / Location / Sequence values other than against
    None, EmptyLocation() and enum members - identity would expose cache hits vs misses."""
import ast

from ..astutil import dotted, src, walk_shallow
from ..genekernel import (chrom_parent, chunk_parent, gene_interp, mk_collection, mk_feature, mk_feature_collection,
                          mk_gene, mk_transcript)
from ..interp import ClassTok, EnumVal, Obj, Opaque, Raised, SetVal, Uninterpretable, _Gen
from ..lockernel import run, strands
from ..model import AnalysisError
from .c05 import GENOME, _report, _runner
from .c11 import build, models

EXPLANATION = (
    "RH: for every kind of object the analyser interprets all public zero-argument accessors and a list of binary / "
    "export operations (set algebra with another location, to_dict / to_gff / to_bed12 / export_qualifiers with "
    "parent qualifiers that share keys, position queries, sequence and codon accessors) in forward and reverse order "
    "on separately built twins, on chromosome and chunk parents: all answers (value and type) must coincide with a "
    "fresh twin's and the recursive non-memo state of the operand and of the arguments must be unchanged. R5/R6: "
    "structural soundness of the memoisation keys of the cached Parent constructor and absence of identity "
    "comparisons on cached objects. Not decided: eviction behaviour of functools.lru_cache itself (trusted), "
    "non-determinism from outside the repository."
)

MEMO_FIELDS = {"_sequence", "_single_interval_store", "_is_overlapping", "_strand_property", "_alternative_sequence",
               "_parent_with_alternative_sequence", "_alternative_genomic_sequence", "_chunk_relative_codon_locations_cached"}


def canon(v, depth=0, seen=None, memo=False):
    """canonical, comparable form of an interpreted value (memo fields are skipped unless memo=True)"""
    seen = seen or set()
    if depth > 9:
        return "<deep>"
    if isinstance(v, Obj):
        if id(v) in seen:
            return ("cycle", v.cls_name)
        seen = seen | {id(v)}
        items = []
        for k in sorted(v.fields):
            if k.startswith("__") or (not memo and k in MEMO_FIELDS):
                continue
            items.append((k, canon(v.fields[k], depth + 1, seen, memo)))
        return (v.cls_name, tuple(items))
    if isinstance(v, SetVal):
        return ("set", tuple(sorted(repr(canon(x, depth + 1, seen, memo)) for x in v)))
    if isinstance(v, _Gen):
        return ("iter", tuple(canon(x, depth + 1, seen, memo) for x in v.items))
    if isinstance(v, (list, tuple)):
        return (type(v).__name__, tuple(canon(x, depth + 1, seen, memo) for x in v))
    if isinstance(v, dict):
        return ("dict", tuple(sorted((repr(canon(k, depth + 1, seen, memo)), canon(x, depth + 1, seen, memo)) for k, x in v.items())))
    if isinstance(v, EnumVal):
        return ("enum", v.cls, v.name)
    if isinstance(v, Opaque):
        return "<opaque>"
    if type(v).__module__ == "uuid":
        return ("uuid", str(v))
    if isinstance(v, (bool, int, float, str)) or v is None:
        return (type(v).__name__, v)
    return ("other", type(v).__name__)


def zero_arg_accessors(repo, cls_name, skip=()):
    """public properties and methods that can be called without arguments"""
    c = repo.cls(cls_name)
    out = {}
    for k in repo.mro(c):
        for name, fn in k.methods.items():
            if name.startswith("_") or name in out or name in skip or fn.is_abstract:
                continue
            a = fn.node.args
            nreq = len(a.posonlyargs + a.args) - len(a.defaults) - (0 if fn.is_static else 1)
            kwreq = sum(1 for d in a.kw_defaults if d is None)
            if fn.is_static or fn.is_classmethod:
                continue
            if nreq == 0 and kwreq == 0:
                out[name] = fn
    return out


SKIP = {"to_vcf", "to_biopython", "to_feature_location", "to_compound_location", "scan_codon_locations", "to_fasta",
        "liftover_to_parent_or_seq_chunk_parent", "incorporate_variants", "sequence_pos_to_amino_acid"}


def ask_all(it, obj, accessors):
    ans = {}
    for name, fn in sorted(accessors.items()):
        try:
            k, v = run(it, fn, [], {}, obj)
        except Uninterpretable as ex:
            ans[name] = ("uninterpretable", str(ex)[:60])
            continue
        ans[name] = (k, canon(v) if k == "ok" else v)
    return ans


def _diff_keys(a, b):
    return [k for k in sorted(set(a) | set(b)) if a.get(k) != b.get(k)]


def _short(x):
    s = repr(x)
    return s if len(s) < 160 else s[:157] + "..."


def history_check(repo, it, make, cls_name, ops, desc, cls_qual):
    """make() -> (obj, [argument objects used by ops]); ops(obj, args) -> list of (label, callable)"""
    out = []
    n = 0
    acc = zero_arg_accessors(repo, cls_name, SKIP)
    fresh, fargs = make()
    state0 = canon(fresh)
    arg_state0 = [canon(a) for a in fargs]
    base = ask_all(it, fresh, acc)
    n += len(base)
    # asking everything must not change the object
    if canon(fresh) != state0:
        ch = _first_field_change(state0, canon(fresh))
        out.append(("accessors leave the object unchanged", f"{desc}: reading the accessors changed the object's state: {ch}", cls_qual))
    for order in ("forward", "reverse"):
        twin, targs = make()
        oplist = ops(it, repo, twin, targs)
        if order == "reverse":
            oplist = list(reversed(oplist))
        results = {}
        for label, thunk in oplist:
            n += 1
            before = canon(twin)
            abefore = [canon(a) for a in targs]
            try:
                results[label] = thunk()
            except Raised as ex:
                results[label] = ("raise", ex.exc_name)
            except Uninterpretable as ex:
                results[label] = ("uninterpretable", str(ex)[:80])
            after = canon(twin)
            if after != before:
                out.append((f"operand unchanged by {label}", f"{desc}: {label} changed its operand: {_first_field_change(before, after)}", cls_qual))
            for i, (x, y) in enumerate(zip(abefore, [canon(a) for a in targs])):
                if x != y:
                    out.append((f"argument unchanged by {label}", f"{desc}: {label} changed its argument #{i}: {_first_field_change(x, y)}", cls_qual))
        after_ops = ask_all(it, twin, acc)
        bad = _diff_keys(base, after_ops)
        if bad:
            k = bad[0]
            out.append((f"answer of {k} independent of history", f"{desc}: after the operations ({order} order) `{k}` answers {_short(after_ops.get(k))}; a fresh twin answers {_short(base.get(k))}", cls_qual))
        results_key = f"results_{order}"
        if order == "forward":
            fw = results
        else:
            for label in results:
                if label in fw and _res_canon(fw[label]) != _res_canon(results[label]):
                    out.append((f"result of {label} independent of history", f"{desc}: {label} gives {_short(_res_canon(results[label]))} when called after the other operations and {_short(_res_canon(fw[label]))} when called before them", cls_qual))
    return n, out


def _res_canon(x):
    if isinstance(x, tuple) and len(x) == 2 and x[0] in ("raise", "uninterpretable"):
        return x
    return canon(x)


def _first_field_change(a, b, path=""):
    if isinstance(a, tuple) and isinstance(b, tuple) and len(a) == 2 and len(b) == 2 and a[0] == b[0] and isinstance(a[1], tuple) and isinstance(b[1], tuple):
        da, db = dict(x for x in a[1] if isinstance(x, tuple) and len(x) == 2) if all(isinstance(x, tuple) and len(x) == 2 for x in a[1]) else None, None
        if da is not None and all(isinstance(x, tuple) and len(x) == 2 for x in b[1]):
            db = dict(b[1])
            for k in sorted(set(da) | set(db), key=str):
                if da.get(k) != db.get(k):
                    return _first_field_change(da.get(k), db.get(k), f"{path}.{k}")
    return f"{path or 'value'}: {_short(a)} -> {_short(b)}"


# ---- object kinds -----------------------------------------------------------------------------------------------

def _call(it, repo, qual, selfv, args=(), kwargs=None):
    f = repo.fn(qual)
    return lambda: it.call_func(f, list(args), dict(kwargs or {}), selfv, 0)


def _str(it, v):
    return lambda: it.py_str(v)


def kinds():
    return ["single+", "compound-", "compound-overlap", "sequence", "transcript chrom", "transcript chunk", "feature chunk",
            "gene chrom", "feature collection chrom", "annotation chrom", "annotation chunk", "cds chunk"]


def _case(repo, it, S, spec):
    kind, = spec
    LOC = "location.location_impl"
    F = it.enum("CDSFrame")

    def parent_for(which):
        if which == "chunk":
            return chunk_parent(it, GENOME, 2, 48, alphabet="NT_EXTENDED")
        return chrom_parent(it, GENOME, alphabet="NT_EXTENDED")

    if kind in ("single+", "compound-", "compound-overlap"):
        def make():
            par = parent_for("chrom")
            if kind == "single+":
                loc = it.apply(ClassTok("SingleInterval"), [5, 20, S["PLUS"]], {"parent": par}, None, 0)
            elif kind == "compound-":
                loc = it.apply(ClassTok("CompoundInterval"), [[3, 12, 25], [8, 20, 31], S["MINUS"]], {"parent": par}, None, 0)
            else:
                loc = it.apply(ClassTok("CompoundInterval"), [[0, 0, 20], [10, 5, 30], S["MINUS"]], {"parent": par}, None, 0)
            other = it.apply(ClassTok("CompoundInterval"), [[6, 18], [14, 27], S["MINUS" if "-" in kind else "PLUS"]], {"parent": par}, None, 0)
            single = it.apply(ClassTok("SingleInterval"), [7, 22, S["MINUS" if "-" in kind else "PLUS"]], {"parent": par}, None, 0)
            return loc, [other, single]
        cls = "SingleInterval" if kind == "single+" else "CompoundInterval"

        def ops(it, repo, loc, args):
            other, single = args
            q = f"{LOC}:{cls}"
            o = []
            for nm, a in (("intersection", other), ("intersection(single)", single), ("union(single)", single),
                          ("minus", other), ("has_overlap", other), ("minus(single)", single)):
                o.append((nm, _call(it, repo, f"{q}.{nm.split('(')[0]}", loc, [a])))
            o.append(("contains", _call(it, repo, "location.location:Location.contains", loc, [single])))
            o.append(("extract_sequence", _call(it, repo, f"{q}.extract_sequence", loc)))
            o.append(("merge_overlapping", _call(it, repo, f"{q}.merge_overlapping", loc)))
            o.append(("optimize_blocks", _call(it, repo, f"{q}.optimize_blocks", loc)))
            o.append(("reverse", _call(it, repo, f"{q}.reverse", loc)))
            o.append(("relative_interval", _call(it, repo, f"{q}.relative_interval_to_parent_location", loc, [1, 6, S["MINUS"]])))
            o.append(("parent_to_relative_pos", _call(it, repo, f"{q}.parent_to_relative_pos", loc, [7])))
            o.append(("scan_windows", lambda: it.iterate(it.call_func(repo.fn("location.location:Location.scan_windows"), [3, 3], {}, loc, 0))))
            o.append(("str", _str(it, loc)))
            o.append(("extract_sequence again", _call(it, repo, f"{q}.extract_sequence", loc)))
            return o
        return history_check(repo, it, make, cls, ops, kind, f"{LOC}:{cls}")

    if kind == "sequence":
        def make():
            par = parent_for("chrom")
            loc = it.apply(ClassTok("CompoundInterval"), [[3, 12], [8, 20], S["MINUS"]], {"parent": par}, None, 0)
            s = it.call_func(repo.fn(f"{LOC}:CompoundInterval.extract_sequence"), [], {}, loc, 0)
            from ..genekernel import mk_parent, mk_sequence
            seq = mk_sequence(it, s.fields["sequence"], "NT_EXTENDED", parent=mk_parent(it, location=loc))
            return seq, []

        def ops(it, repo, seq, args):
            q = "sequence.sequence:Sequence"
            return [("reverse_complement", _call(it, repo, f"{q}.reverse_complement", seq)),
                    ("slice", _call(it, repo, f"{q}.__getitem__", seq, [slice(1, 5)])),
                    ("str", _str(it, seq)),
                    ("append", lambda: it.call_func(repo.fn(f"{q}.append"), [it.call_func(repo.fn(f"{q}.__getitem__"), [slice(4, 9)], {}, seq, 0)], {},
                                                    it.call_func(repo.fn(f"{q}.__getitem__"), [slice(0, 4)], {}, seq, 0), 0))]
        return history_check(repo, it, make, "Sequence", ops, kind, "sequence.sequence:Sequence")

    ms = models()
    which = "chunk" if "chunk" in kind else "chrom"
    if kind.startswith("transcript") or kind.startswith("cds"):
        def make():
            par = parent_for(which)
            g = build(it, S, par, ms[0])
            tx = g.fields["transcripts"][0]
            pq = {"note": it._dedupe(["from parent"], 0), "product": it._dedupe(["parent product"], 0), "extra": it._dedupe(["e"], 0)}
            return (tx if kind.startswith("transcript") else tx.fields["cds"]), [pq]

        if kind.startswith("transcript"):
            def ops(it, repo, tx, args):
                q = "gene.transcript:TranscriptInterval"
                pq = args[0]
                o = [("to_dict", _call(it, repo, f"{q}.to_dict", tx)),
                     ("export_qualifiers(parent)", _call(it, repo, f"{q}.export_qualifiers", tx, [pq])),
                     ("to_gff(parent qualifiers)", lambda: [it.py_str(r) for r in it.iterate(it.call_func(repo.fn(f"{q}.to_gff"), ["pid", pq], {}, tx, 0))]),
                     ("to_bed12", lambda: it.py_str(it.call_func(repo.fn(f"{q}.to_bed12"), [], {}, tx, 0))),
                     ("get_cds_sequence", _call(it, repo, f"{q}.get_cds_sequence", tx)),
                     ("get_protein_sequence", _call(it, repo, f"{q}.get_protein_sequence", tx)),
                     ("codon locations", _call(it, repo, "gene.cds:CDSInterval.chunk_relative_codon_locations", tx.fields["cds"])),
                     ("get_5p_interval", _call(it, repo, f"{q}.get_5p_interval", tx)),
                     ("cds extract_sequence", _call(it, repo, "gene.cds:CDSInterval.extract_sequence", tx.fields["cds"])),
                     ("intersect", _call(it, repo, f"{q}.intersect", tx, [it.apply(ClassTok("SingleInterval"), [6, 21, S["MINUS"]], {}, None, 0)]))]
                if which == "chunk":
                    o.append(("to_dict(chunk)", _call(it, repo, f"{q}.to_dict", tx, [False])))
                    o.append(("to_gff(chunk)", lambda: [it.py_str(r) for r in it.iterate(it.call_func(repo.fn(f"{q}.to_gff"), [], {"chromosome_relative_coordinates": False}, tx, 0))]))
                return o
            return history_check(repo, it, make, "TranscriptInterval", ops, kind, "gene.transcript:TranscriptInterval")

        def ops(it, repo, cds, args):
            q = "gene.cds:CDSInterval"
            pq = args[0]
            return [("extract_sequence", _call(it, repo, f"{q}.extract_sequence", cds)),
                    ("chunk_relative_codon_locations", _call(it, repo, f"{q}.chunk_relative_codon_locations", cds)),
                    ("translate", _call(it, repo, f"{q}.translate", cds)),
                    ("export_qualifiers(parent)", _call(it, repo, f"{q}.export_qualifiers", cds, [pq])),
                    ("to_gff", lambda: [it.py_str(r) for r in it.iterate(it.call_func(repo.fn(f"{q}.to_gff"), ["pid", pq], {}, cds, 0))]),
                    ("to_dict", _call(it, repo, f"{q}.to_dict", cds)),
                    ("optimize_blocks", _call(it, repo, f"{q}.optimize_blocks", cds)),
                    ("scan_chromosome_codon_locations", lambda: it.iterate(it.call_func(repo.fn(f"{q}.scan_chromosome_codon_locations"), [8, 20], {}, cds, 0)))]
        return history_check(repo, it, make, "CDSInterval", ops, kind, "gene.cds:CDSInterval")

    if kind.startswith("feature chunk"):
        def make():
            par = parent_for(which)
            fc = build(it, S, par, ms[2])
            pq = {"fq": it._dedupe(["from parent"], 0), "feature_type": it._dedupe(["parent type"], 0)}
            return fc.fields["feature_intervals"][0], [pq]

        def ops(it, repo, ft, args):
            q = "gene.feature:FeatureInterval"
            pq = args[0]
            return [("to_dict", _call(it, repo, f"{q}.to_dict", ft)),
                    ("export_qualifiers(parent)", _call(it, repo, f"{q}.export_qualifiers", ft, [pq])),
                    ("to_gff", lambda: [it.py_str(r) for r in it.iterate(it.call_func(repo.fn(f"{q}.to_gff"), ["pid", pq], {}, ft, 0))]),
                    ("to_bed12(chunk)", lambda: it.py_str(it.call_func(repo.fn(f"{q}.to_bed12"), [], {"chromosome_relative_coordinates": False}, ft, 0))),
                    ("get_spliced_sequence", _call(it, repo, "gene.interval:AbstractFeatureInterval.get_spliced_sequence", ft))]
        return history_check(repo, it, make, "FeatureInterval", ops, kind, "gene.feature:FeatureInterval")

    if kind.startswith("gene") or kind.startswith("feature collection"):
        idx = 0 if kind.startswith("gene") else 2
        cname = "GeneInterval" if idx == 0 else "FeatureIntervalCollection"
        q = ("gene.gene:" if idx == 0 else "gene.feature:") + cname

        def make():
            return build(it, S, parent_for(which), ms[idx]), []

        def ops(it, repo, g, args):
            o = [("to_dict", _call(it, repo, f"{q}.to_dict", g)),
                 ("export_qualifiers", _call(it, repo, f"{q}.export_qualifiers", g)),
                 ("to_gff", lambda: [it.py_str(r) for r in it.iterate(it.call_func(repo.fn(f"{q}.to_gff"), [], {}, g, 0))]),
                 ("get_merged_feature", _call(it, repo, f"{q}.get_merged_feature", g)),
                 ("to_gff again", lambda: [it.py_str(r) for r in it.iterate(it.call_func(repo.fn(f"{q}.to_gff"), [], {}, g, 0))])]
            if idx == 0:
                o.append(("get_merged_cds", _call(it, repo, f"{q}.get_merged_cds", g)))
                o.append(("get_primary_protein", _call(it, repo, f"{q}.get_primary_protein", g)))
            return o
        return history_check(repo, it, make, cname, ops, kind, q)

    # annotation collections
    def make():
        par = parent_for(which)
        objs = [build(it, S, par, m) for m in ms]
        ac = mk_collection(it, objs[:2], objs[2:], sequence_name="chr1", qualifiers={"q": ["1"]}, parent_or_seq_chunk_parent=par)
        # a dictionary with the exported parent, and a pickle state: arguments of the importing operations below
        d = it.call_func(repo.fn("gene.collections:AnnotationCollection.to_dict"), [], {"export_parent": True}, ac, 0)
        st = it.call_func(repo.fn("gene.collections:AnnotationCollection.__getstate__"), [], {}, ac, 0)
        return ac, [d, st]

    def ops(it, repo, ac, args):
        q = "gene.collections:AnnotationCollection"
        a, b = (4, 40) if which == "chrom" else (3, 40)
        d, st = args

        def setstate():
            fresh = Obj("AnnotationCollection")
            it.call_func(repo.fn(f"{q}.__setstate__"), [st], {}, fresh, 0)
            return it.call_func(repo.fn(f"{q}.to_dict"), [], {}, fresh, 0)
        return [("from_dict(dictionary with exported parent)", lambda: it.call_func(repo.fn(f"{q}.to_dict"), [], {}, it.call_func(repo.fn(f"{q}.from_dict"), [d], {}, None, 0), 0)),
                ("from_dict(same dictionary) again", lambda: it.call_func(repo.fn(f"{q}.to_dict"), [], {}, it.call_func(repo.fn(f"{q}.from_dict"), [d], {}, None, 0), 0)),
                ("__setstate__(state)", setstate), ("__setstate__(same state) again", setstate),
                ("to_dict", _call(it, repo, f"{q}.to_dict", ac)),
                ("to_gff", lambda: [it.py_str(r) for r in it.iterate(it.call_func(repo.fn(f"{q}.to_gff"), [], {}, ac, 0))]),
                ("query_by_position", _call(it, repo, f"{q}.query_by_position", ac, [a, b], {"completely_within": False})),
                ("query strict", _call(it, repo, f"{q}.query_by_position", ac, [a, b])),
                ("query_by_feature_identifiers", _call(it, repo, f"{q}.query_by_feature_identifiers", ac, [["G2"]])),
                ("getstate", _call(it, repo, f"{q}.__getstate__", ac)),
                ("to_gff again", lambda: [it.py_str(r) for r in it.iterate(it.call_func(repo.fn(f"{q}.to_gff"), [], {}, ac, 0))])]
    return history_check(repo, it, make, "AnnotationCollection", ops, kind, "gene.collections:AnnotationCollection")


def _construct_case(repo, it, S, spec):
    """building a container (gene, feature collection, annotation collection) around existing children is an operation on
    those children: when the container is given no parent, or the very parent the children already sit on, the children's
    observable state and answers are what they were before"""
    container, child_parent, container_parent = spec
    out = []
    n = 0

    def parent_for(which):
        if which == "chunk":
            return chunk_parent(it, GENOME, 2, 48, alphabet="NT_EXTENDED")
        if which == "chrom":
            return chrom_parent(it, GENOME, alphabet="NT_EXTENDED")
        return None

    ms = models()
    par = parent_for(child_parent)
    g = build(it, S, par, ms[0])
    fc = build(it, S, par, ms[2])
    cpar = par if container_parent == "same" else parent_for(container_parent)
    if container == "gene":
        kids = list(g.fields["transcripts"])
        make = lambda: mk_gene(it, kids, gene_id="rebuilt", parent_or_seq_chunk_parent=cpar)  # noqa: E731
        q = "gene.gene:GeneInterval.__init__"
    elif container == "feature collection":
        # members with different type sets, the first one not a superset of the others (an untyped member first)
        kids = [mk_feature(it, [(4, 9)], S["PLUS"], feature_name="untyped", parent_or_seq_chunk_parent=par),
                mk_feature(it, [(12, 20)], S["PLUS"], feature_name="typed", feature_types=["t1"], parent_or_seq_chunk_parent=par),
                mk_feature(it, [(22, 30)], S["PLUS"], feature_name="typed2", feature_types=["t2", "t1"], parent_or_seq_chunk_parent=par)] + \
            list(fc.fields["feature_intervals"])
        make = lambda: mk_feature_collection(it, kids, feature_collection_id="rebuilt", parent_or_seq_chunk_parent=cpar)  # noqa: E731
        q = "gene.feature:FeatureIntervalCollection.__init__"
    else:
        kids = [g, fc]
        make = lambda: mk_collection(it, [g], [fc], sequence_name="chr1", parent_or_seq_chunk_parent=cpar)  # noqa: E731
        q = "gene.collections:AnnotationCollection.__init__"
    desc = f"{container} built with parent={container_parent} around children that sit on a {child_parent} parent"
    seqf = repo.fn("gene.interval:AbstractFeatureInterval.get_spliced_sequence")
    leaves = [k for k in kids if k.cls_name in ("TranscriptInterval", "FeatureInterval")] or \
        list(g.fields["transcripts"]) + list(fc.fields["feature_intervals"])
    before = [canon(k) for k in kids]
    n += 1
    try:
        make()
    except Raised as ex:
        return n, [("construct", f"{desc}: raises {ex.exc_name}", q)]
    after = [canon(k) for k in kids]
    for i, (a, b) in enumerate(zip(before, after)):
        if a != b:
            out.append(("children unchanged by construction", f"{desc}: child #{i} ({kids[i].cls_name}) changed: {_first_field_change(a, b)}", q))
            break
    # and a cold sequence read on a leaf still answers (the parent was not stripped)
    if child_parent != "none":
        for lf in leaves[:2]:
            n += 1
            k, v = run(it, seqf, [], {}, lf)
            if k != "ok":
                out.append(("children usable after construction", f"{desc}: get_spliced_sequence() on a child raises {v} afterwards", q))
                break
    return n, out


def rc_construction(ctx):
    from ..par import pmap
    specs = [(c, cp, kp) for c in ("gene", "feature collection", "annotation") for cp, kp in
             (("chrom", "none"), ("chrom", "same"), ("chunk", "none"), ("chunk", "same"), ("none", "none"))]
    results = pmap(_runner(ctx.repo, _construct_case), specs, min_items=2)
    _report(ctx, "C10.RC", results, [(q, "children keep state and answers when a container is built around them") for q in (
        "gene.gene:GeneInterval.__init__", "gene.feature:FeatureIntervalCollection.__init__", "gene.collections:AnnotationCollection.__init__")])


def rr_repeatable_outcomes(ctx):
    """an outcome - a value or a documented refusal - is the same the first time, the second time, and in a process that never
    asked before (interned codons, memoised sequences, caches keyed on text)"""
    r, repo = ctx.r, ctx.repo
    from ..genekernel import mk_parent, mk_sequence
    from .c05 import mk_cds

    def questions(it):
        S = strands(it)
        par = chrom_parent(it, "ATGA-GTAACCGATG", alphabet="NT_EXTENDED_GAPPED")
        q = []
        for c in ("A-G", "AT", "ATGA", "XYZ", "a-g", "ATG", "AUG"):
            q.append((f"Codon({c!r})", "gene.codon:Codon.__init__", lambda c=c: it.py_str(it.apply(ClassTok("Codon"), [c], {}, None, 0))))
        q.append(("translate(strict=False) over a gapped codon", "gene.cds:CDSInterval.translate",
                  lambda: it.call_func(repo.fn("gene.cds:CDSInterval.translate"), [], {"strict": False}, mk_cds(it, [(0, 9)], S["PLUS"], [0], par), 0).fields["sequence"]))
        q.append(("has_valid_stop over a gapped codon", "gene.cds:CDSInterval.has_valid_stop",
                  lambda: it.call_func(repo.fn("gene.cds:CDSInterval.has_valid_stop"), [], {}, mk_cds(it, [(0, 9)], S["PLUS"], [0], par), 0)))
        q.append(("extract_sequence of an unstranded location", "location.location_impl:SingleInterval.extract_sequence",
                  lambda: it.call_func(repo.fn("location.location_impl:SingleInterval.extract_sequence"), [], {},
                                       it.apply(ClassTok("SingleInterval"), [2, 6, S["UNSTRANDED"]], {"parent": par}, None, 0), 0)))
        # the same OBJECT asked again (the questions above build a new object every time): a refusal stays a refusal, and an object
        # derived from a warmed-up operand answers like one derived from a cold operand
        LOCQ = "location.location_impl"
        st = it.enum("SequenceType")
        par_other = chrom_parent(it, "CCCCCCCCCCCCCCC", alphabet="NT_EXTENDED_GAPPED")          # same id, another sequence
        par_bare = mk_parent(it, id="chr1", sequence_type=st["CHROMOSOME"])                      # same id, no sequence
        u1 = it.apply(ClassTok("SingleInterval"), [2, 6, S["UNSTRANDED"]], {"parent": par}, None, 0)
        u2 = it.apply(ClassTok("CompoundInterval"), [[2, 8], [5, 11], S["UNSTRANDED"]], {"parent": par}, None, 0)
        uf = mk_feature(it, [(2, 6)], S["UNSTRANDED"], parent_or_seq_chunk_parent=par) if True else None
        ext = lambda o: it.call_func(repo.fn(f"{LOCQ}:{o.cls_name}.extract_sequence"), [], {}, o, 0).fields["sequence"]  # noqa: E731
        q.append(("extract_sequence of one unstranded SingleInterval object", f"{LOCQ}:SingleInterval.extract_sequence", lambda: ext(u1)))
        q.append(("extract_sequence of one unstranded CompoundInterval object", f"{LOCQ}:CompoundInterval.extract_sequence", lambda: ext(u2)))
        q.append(("get_spliced_sequence of one unstranded feature object", "gene.interval:AbstractFeatureInterval.get_spliced_sequence",
                  lambda: it.call_func(repo.fn("gene.interval:AbstractFeatureInterval.get_spliced_sequence"), [], {}, uf, 0).fields["sequence"]))
        for cname, mk in (("SingleInterval", lambda sn: it.apply(ClassTok("SingleInterval"), [2, 8, S[sn]], {"parent": par}, None, 0)),
                          ("CompoundInterval", lambda sn: it.apply(ClassTok("CompoundInterval"), [[1, 7], [4, 10], S[sn]], {"parent": par}, None, 0))):
            for sn in ("PLUS", "MINUS"):
                loc = mk(sn)
                rp = repo.fn(f"{LOCQ}:{cname}.reset_parent")
                q.append((f"extract_sequence ({cname} {sn}; warms the object up)", f"{LOCQ}:{cname}.extract_sequence", lambda loc=loc: ext(loc)))
                q.append((f"reset_parent onto a parent with the same id and another sequence, then extract_sequence ({cname} {sn})", rp.qual,
                          lambda loc=loc, rp=rp: ext(it.call_func(rp, [par_other], {}, loc, 0))))
                q.append((f"reset_parent onto a parent with the same id and no sequence, then extract_sequence ({cname} {sn})", rp.qual,
                          lambda loc=loc, rp=rp: ext(it.call_func(rp, [par_bare], {}, loc, 0))))
        return q

    def outcome(thunk):
        try:
            v = thunk()
            return ("ok", canon(v))
        except Raised as ex:
            return ("raise", ex.exc_name)

    it = gene_interp(repo, max_steps=10 ** 9)
    qs = questions(it)
    n = 0
    for i, (label, qual, thunk) in enumerate(qs):
        first = outcome(thunk)
        second = outcome(thunk)
        fresh_it = gene_interp(repo, max_steps=10 ** 9)
        fresh = outcome(questions(fresh_it)[i][2])
        n += 1
        r.check(first == second == fresh, "C10.RR", qual, f"repeatable: {label}",
                f"{label}: first time {_short(first)}, second time {_short(second)}, in a fresh process {_short(fresh)}", repo.where(qual))
    r.floor("C10.RR", "repeated questions", n, 8)


def rh_history(ctx):
    from ..par import pmap
    specs = [(k,) for k in kinds()]
    results = pmap(_runner(ctx.repo, _case), specs, min_items=2)
    _report(ctx, "C10.RH", results, [
        ("location.location_impl:SingleInterval", "answers independent of history; operands unchanged"),
        ("location.location_impl:CompoundInterval", "answers independent of history; operands unchanged"),
        ("sequence.sequence:Sequence", "answers independent of history; operands unchanged"),
        ("gene.transcript:TranscriptInterval", "answers independent of history; operands unchanged"),
        ("gene.cds:CDSInterval", "answers independent of history; operands unchanged"),
        ("gene.feature:FeatureInterval", "answers independent of history; operands unchanged"),
        ("gene.gene:GeneInterval", "answers independent of history; operands unchanged"),
        ("gene.feature:FeatureIntervalCollection", "answers independent of history; operands unchanged"),
        ("gene.collections:AnnotationCollection", "answers independent of history; operands unchanged")])


# ---- structural ----------------------------------------------------------------------------------------------

def _self_attrs(node, repo=None, cls=None, depth=3, seen=None):
    """attributes of self read in a method body; calls to other methods / properties of the same class are followed (a
    __hash__ or __eq__ written through a helper such as self._key() reads what the helper reads)"""
    out = {n.attr for n in ast.walk(node) if isinstance(n, ast.Attribute) and dotted(n.value) == "self"}
    if repo is not None and cls is not None:
        # members read through a module-level getter: `_key = attrgetter("id", "parent.id")` ... `_key(self)`; getattr(self, "x")
        for n in ast.walk(node):
            if not isinstance(n, ast.Call):
                continue
            if isinstance(n.func, ast.Name) and n.args and dotted(n.args[0]) == "self":
                if n.func.id == "getattr" and len(n.args) > 1 and isinstance(n.args[1], ast.Constant) and isinstance(n.args[1].value, str):
                    out.add(n.args[1].value)
                    continue
                d = cls.module.assigns.get(n.func.id)
                if isinstance(d, ast.Call) and (dotted(d.func) or "").split(".")[-1] == "attrgetter":
                    out |= {a.value.split(".")[0] for a in d.args if isinstance(a, ast.Constant) and isinstance(a.value, str)}
    if repo is None or cls is None or depth <= 0:
        return out
    seen = seen or set()
    for a in list(out):
        if a in seen:
            continue
        m = repo.lookup_method(cls, a)
        if m is not None:
            seen.add(a)
            out |= _self_attrs(m.node, repo, cls, depth - 1, seen)
    return out


def r5_cache_keys(ctx):
    r, repo = ctx.r, ctx.repo
    par = repo.cls("parent.parent:Parent")
    r.check(any("lru_cache" in d for d in par.decorators), "C10.R5", par.qual, "constructor memoised by lru_cache",
            "Parent is no longer constructed through lru_cache (the rule below assumes it is)", par)
    init, hsh = par.methods["__init__"], par.methods["__hash__"]
    assigned = {n.attr for n in ast.walk(init.node) if isinstance(n, ast.Attribute) and isinstance(n.ctx, ast.Store) and dotted(n.value) == "self"}
    assigned -= MEMO_FIELDS
    hashed = _self_attrs(hsh.node, repo, par)
    if not hashed:
        r.note("C10.R5: Parent.__hash__ reads no member of self in a form this rule recognises (direct attribute, getattr, module-level "
               "attrgetter): the memo-key rule is not decided on this tree")
        return
    alias = {"_strand": "strand"}  # the strand property reads _strand / location.strand
    for fld in sorted(assigned):
        r.check(fld in hashed or alias.get(fld) in hashed, "C10.R5", hsh.qual, f"field {fld} takes part in the hash",
                f"Parent.__init__ sets self.{fld} but Parent.__hash__ does not read it: Parent.__eq__ treats a missing "
                f"ancestor as a wildcard, so two constructor calls that differ only in {fld} can be served the same cached object", hsh)
    for q in ("sequence.sequence:Sequence", "location.location_impl:SingleInterval", "location.location_impl:CompoundInterval"):
        c = repo.cls(q)
        eq, hs = c.methods["__eq__"], c.methods["__hash__"]
        compared = {a for a in _self_attrs(eq.node)}
        hashed = _self_attrs(hs.node, repo, c)
        # blocks/num_blocks of CompoundInterval are derived from _starts/_ends
        derived = {"blocks": {"_starts", "_ends"}, "num_blocks": {"_starts"}}
        for fld in sorted(compared):
            ok = fld in hashed or (fld in derived and derived[fld] <= hashed)
            r.check(ok, "C10.R5", hs.qual, f"compared field {fld} is hashed",
                    f"{c.name}.__eq__ compares self.{fld} but __hash__ ignores it (memo keys containing such objects collide)", hs)


def _is_fast_path(fnode, cmp):
    ops = {src(cmp.left)} | {src(c) for c in cmp.comparators}
    for n in ast.walk(fnode):
        if isinstance(n, ast.BoolOp) and isinstance(n.op, ast.Or) and cmp in n.values:
            for v in n.values:
                if isinstance(v, ast.Compare) and any(isinstance(o, ast.Eq) for o in v.ops) and \
                        ({src(v.left)} | {src(c) for c in v.comparators}) == ops:
                    return True
    return False


def r6_identity(ctx, rule="C10.R6"):
    r, repo = ctx.r, ctx.repo
    n = 0
    suspects = ("parent", "location", "sequence", "_location", "chunk_relative_location", "chromosome_location")
    for fn in repo.all_funcs():
        for node in walk_shallow(fn.node):
            if isinstance(node, ast.Compare) and any(isinstance(o, (ast.Is, ast.IsNot)) for o in node.ops):
                operands = [node.left] + list(node.comparators)
                texts = [src(o) for o in operands]
                if any(isinstance(o, ast.Constant) and o.value in (None, True, False) for o in operands):
                    continue
                if any(t.startswith(("Strand.", "CDSFrame.", "CDSPhase.", "Alphabet.", "SequenceType.", "IntervalType.")) or t == "EmptyLocation()" for t in texts):
                    continue
                if any(t.startswith("type(") for t in texts) or any(isinstance(o, ast.Name) and o.id[:1].isupper() for o in operands):
                    continue
                if any(t in ("other", "self") for t in texts) and fn.name == "__eq__":
                    continue
                last = [t.split(".")[-1] for t in texts]
                if _is_fast_path(fn.node, node):
                    continue  # `a is b or a == b`: identity only short-cuts an equality on the same operands
                if any(x in suspects for x in last):
                    n += 1
                    r.violation(rule, fn.qual, f"identity comparison `{src(node)}`",
                                f"`{src(node)}` compares cached / reconstructible objects by identity: the answer depends on whether the "
                                f"Parent cache still holds the entry", (fn, node))
    r.ok(rule, "inscripta.biocantor", "no identity comparison on Parent / Location / Sequence values", None, f"{n} suspects")
    # identity used as a key of state that outlives the call (module-level / class-level / instance containers): an entry keyed
    # by id(x) outlives x, and the interpreter hands the address of a released object to the next one - the answer then depends
    # on which objects existed before.  Containers local to one call are fine (their keys are alive for as long as they are).
    m = 0
    for fn in repo.all_funcs():
        for node, cont in _id_keyed_state(fn.node, set(fn.module.assigns)):
            m += 1
            r.violation(rule, fn.qual, f"identity-keyed state `{src(node)[:60]}`",
                        f"`{src(node)[:80]}` files a value under id(...) in `{cont}`, which lives longer than the call: once the object "
                        f"is released its address is reused and another object is served the stale entry (answers depend on history)",
                        (fn, node))
    probe = ast.parse("_T = {}\ndef f(x):\n    if id(x) not in _T:\n        _T[id(x)] = 1\n    seen = set()\n    seen.add(id(x))\n    return _T[id(x)]\n")
    hits = _id_keyed_state(probe.body[1], {"_T"})
    if len(hits) != 3:
        raise AnalysisError(f"{rule}: the identity-keyed-state detector no longer recognises its own example ({len(hits)} of 3)")
    r.ok(rule, "inscripta.biocantor", "no state keyed by object identity outlives a call", None, f"{m} suspects; detector example recognised")


def _id_keyed_state(fnode, module_names):
    """(node, container text) for uses of id(...) as a key into a container that is not local to the function"""
    local = set()
    for n in walk_shallow(fnode):
        if isinstance(n, ast.Assign):
            for t in n.targets:
                if isinstance(t, ast.Name):
                    local.add(t.id)
        elif isinstance(n, (ast.AnnAssign, ast.AugAssign)) and isinstance(n.target, ast.Name):
            local.add(n.target.id)
    globs = {nm for n in walk_shallow(fnode) if isinstance(n, ast.Global) for nm in n.names}
    local -= globs

    def is_id_call(x):
        return isinstance(x, ast.Call) and isinstance(x.func, ast.Name) and x.func.id == "id" and len(x.args) == 1

    def outlives(c):
        d = dotted(c)
        if not d:
            return None
        head = d.split(".")[0]
        if head in ("self", "cls") and "." in d:
            return d
        if head in local:
            return None
        if head in module_names or head in globs or head[:1].isupper():
            return d
        return None

    out = []
    for n in walk_shallow(fnode):
        if isinstance(n, ast.Subscript) and is_id_call(n.slice):
            c = outlives(n.value)
            if c:
                out.append((n, c))
        elif isinstance(n, ast.Compare) and is_id_call(n.left) and len(n.ops) == 1 and isinstance(n.ops[0], (ast.In, ast.NotIn)):
            c = outlives(n.comparators[0])
            if c:
                out.append((n, c))
        elif isinstance(n, ast.Call) and isinstance(n.func, ast.Attribute) and n.func.attr in ("get", "setdefault", "pop", "add", "__contains__") \
                and n.args and is_id_call(n.args[0]):
            c = outlives(n.func.value)
            if c:
                out.append((n, c))
    return out


RULES = [
    ("C10.RH", rh_history),
    ("C10.RC", rc_construction),
    ("C10.RR", rr_repeatable_outcomes),
    ("C10.R5", r5_cache_keys),
    ("C10.R6", r6_identity),
]
