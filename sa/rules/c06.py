"""C06 - genome / transcript / CDS coordinate systems of a transcript commute.

R1  wrapper wiring table (structural): every `<src>_(pos|interval)_to_<dst>` wrapper of AbstractFeatureInterval,
    TranscriptInterval and CDSInterval resolves (through delegation chains) to the Location method of the right
    direction on the location of the right object in the right coordinate system, arguments forwarded in order.
R2  cds<->transcript conversions go through one chromosome-level leg each way.
R3  every dereference of the optional CDS in TranscriptInterval is guarded (NoncodingTranscriptError / is_coding).
RK  the analyser interprets the coordinate API on parent-less transcripts for every small exon layout
    (1..2 exons, thorough 3) x every CDS placement x both strands and compares with the enumeration oracle:
    path consistency, inverses, rejection outside the source system, amino-acid index, UTR/CDS partition,
    introns = span minus exons, empty UTR is not an error."""
import ast
import re

from ..astutil import (Facts, bind_args, call_receiver, call_tail, calls_in, dotted, fact_atoms, local_defs, src,
                       walk_shallow)
from ..genekernel import gene_interp, mk_transcript
from ..interp import Raised, Uninterpretable
from ..lockernel import blocks_of, is_empty_obj, run, strand_of, strands
from ..model import AnalysisError
from ..par import pmap
from .c01 import TRI, enum_positions

EXPLANATION = (
    "R1-R3 are structural: the 35 coordinate wrappers are resolved through their delegation chains and compared with "
    "the table their names encode (source/target system, direction, object), cds<->transcript composition legs, and "
    "guard dominance for every use of the optional CDS. RK: TranscriptInterval construction and its coordinate API "
    "are interpreted by the analyser for every CDS placement on every small exon layout (order types of 1-2 exons, "
    "thorough 3; both strands) and compared with a base-enumeration oracle (commutation, inverses, rejection, aa "
    "index, UTR partition, introns). Not decided: transcripts cut by a chunk; layouts larger than enumerated."
)

TX = "gene.transcript:TranscriptInterval"
CHROM_ACCESSORS = {"self.chromosome_location"}
CHUNK_ACCESSORS = {"self.chunk_relative_location", "self._location"}
LOC_METHODS = {"parent_to_relative_pos", "relative_to_parent_pos", "parent_to_relative_location",
               "relative_interval_to_parent_location"}
NAME_RE = re.compile(r"^(sequence|chunk_relative|feature|transcript|cds)_(pos|interval)_to_"
                     r"(sequence|chunk_relative|feature|transcript|cds|amino_acid)$")


def _single_return(fn):
    """the returned expression of a wrapper whose body is (optional guards) + one return, with local definitions"""
    rets = [n for n in ast.walk(fn.node) if isinstance(n, ast.Return)]
    if len(rets) != 1 or rets[0].value is None:
        return None, {}
    return rets[0].value, local_defs(fn.node)


def _subst_locals(node, defs):
    """replace single-definition local names by their definitions (one level is enough for this repo)"""
    import copy

    class T(ast.NodeTransformer):
        def __init__(self, busy=()):
            self.busy = set(busy)

        def visit_Name(self, n):
            if (n.id in defs and n.id not in self.busy and len(defs[n.id]) == 1 and isinstance(defs[n.id][0], ast.AST)
                    and isinstance(n.ctx, ast.Load)):
                # (a definition that mentions its own name - `x = min(x, ...)` re-binding a parameter - is not unfolded again)
                return T(self.busy | {n.id}).visit(copy.deepcopy(defs[n.id][0]))
            return n
    return T().visit(copy.deepcopy(node))


def resolve_wrapper(repo, cls, name, depth=0):
    """-> dict(obj='self'|'self.cds', system='CHROM'|'CHUNK', method=<Location method>, args=[src,...]) or raises"""
    if depth > 4:
        raise AnalysisError(f"delegation chain too long at {cls.name}.{name}")
    fn = repo.lookup_method(cls, name)
    if fn is None:
        raise AnalysisError(f"{cls.name}.{name} not found")
    ret, defs = _single_return(fn)
    if ret is None:
        raise AnalysisError(f"{fn.qual}: not a single-return wrapper")
    ret = _subst_locals(ret, defs)
    params = fn.pos_params[1:]
    post = None
    if isinstance(ret, ast.BinOp) and isinstance(ret.op, ast.FloorDiv):
        post = ("floordiv", src(ret.right))
        ret = ret.left
    if not isinstance(ret, ast.Call) or not isinstance(ret.func, ast.Attribute):
        raise AnalysisError(f"{fn.qual}: return is not a method call: {src(ret)[:80]}")
    recv, meth = src(ret.func.value), ret.func.attr
    args = [src(a) for a in ret.args] + [f"{k.arg}={src(k.value)}" for k in ret.keywords]
    if meth in LOC_METHODS and recv in CHROM_ACCESSORS | CHUNK_ACCESSORS:
        return dict(fn=fn, obj="self", system="CHROM" if recv in CHROM_ACCESSORS else "CHUNK", method=meth,
                    argnodes=list(ret.args), kw=ret.keywords, args=args, params=params, post=post, chain=[fn.qual])
    if recv == "self":
        inner = resolve_wrapper(repo, cls, meth, depth + 1)
    elif recv == "self.cds":
        inner = dict(resolve_wrapper(repo, repo.cls("CDSInterval"), meth, depth + 1))
        inner["obj"] = "self.cds"
    else:
        raise AnalysisError(f"{fn.qual}: unrecognised receiver `{recv}`")
    # arguments must be forwarded unchanged and in order
    fwd = args == params[:len(args)] and len(args) == len(params)
    inner = dict(inner)
    inner["forwarded"] = inner.get("forwarded", True) and fwd
    inner["chain"] = [fn.qual] + inner["chain"]
    inner["post"] = post or inner.get("post")
    inner["fn"] = fn
    return inner


def wrapper_table_check(ctx, rule, only=None):
    r = ctx.r
    repo = ctx.repo
    n = 0
    for cname, owner_kind in (("AbstractFeatureInterval", "feature"), ("TranscriptInterval", "transcript"),
                              ("CDSInterval", "cds")):
        cls = repo.cls(cname)
        for mname, fn in sorted(cls.methods.items()):
            m = NAME_RE.match(mname)
            if not m or (only is not None and mname not in only):
                continue
            src_sys, kind, dst_sys = m.groups()
            if {src_sys, dst_sys} <= {"feature", "transcript", "cds"}:
                continue  # composition wrappers: R2
            n += 1
            try:
                res = resolve_wrapper(repo, cls, mname)
            except AnalysisError as ex:
                # an unrecognised wrapper form is not an alarm: the interpreted rule (C06.RK / C01.R3) decides the wrapper's
                # behaviour on the enumerated transcripts; only the all-inputs strengthening is not claimed for it
                r.note(f"{rule}: {fn.qual} has a form the wiring resolver does not recognise ({ex}); decided by interpretation only")
                continue
            genomic = src_sys if src_sys in ("sequence", "chunk_relative") else dst_sys
            rel = dst_sys if src_sys in ("sequence", "chunk_relative") else src_sys
            want_system = "CHROM" if genomic == "sequence" else "CHUNK"
            to_relative = src_sys in ("sequence", "chunk_relative")
            want_method = {("pos", True): "parent_to_relative_pos", ("pos", False): "relative_to_parent_pos",
                           ("interval", True): "parent_to_relative_location",
                           ("interval", False): "relative_interval_to_parent_location"}[(kind, to_relative)]
            if rel == "amino_acid":
                want_obj = "self" if cname == "CDSInterval" else "self.cds"
            elif rel == "cds":
                want_obj = "self" if cname == "CDSInterval" else "self.cds"
            else:
                want_obj = "self"
            chain = " -> ".join(res["chain"])
            r.check(res["system"] == want_system, rule, fn.qual, "coordinate system",
                    f"{mname} resolves to the {res['system']} location ({chain}); its name says {want_system}", fn)
            r.check(res["method"] == want_method, rule, fn.qual, "direction",
                    f"{mname} resolves to Location.{res['method']} ({chain}); its name says {want_method}", fn)
            r.check(res["obj"] == want_obj, rule, fn.qual, "object",
                    f"{mname} converts on `{res['obj']}` ({chain}); its name says `{want_obj}`", fn)
            r.check(res.get("forwarded", True), rule, fn.qual, "arguments forwarded",
                    f"{mname} does not forward its arguments unchanged along {chain}", fn)
            # leaf arguments
            leaf_params = res["params"]
            if want_method == "parent_to_relative_location":
                a0 = res["argnodes"][0] if res["argnodes"] else None
                ok = isinstance(a0, ast.Call) and call_tail(a0) == "SingleInterval" and [src(x) for x in a0.args] == leaf_params[:3]
                par = None
                if ok:
                    par = [src(k.value) for k in a0.keywords if k.arg == "parent"] + [src(x) for x in a0.args[3:4]]
                    want_par = {"CHROM": {"self.chromosome_location.parent"},
                                "CHUNK": {"self.chunk_relative_location.parent", "self._location.parent"}}[res["system"]]
                    ok = bool(par) and par[0] in want_par
                r.check(ok, rule, fn.qual, "query interval construction",
                        f"{mname} does not build SingleInterval(start, end, strand, parent=<same-system location>.parent): {res['args']}", fn)
            else:
                r.check(res["args"] == leaf_params[:len(res["args"])] and len(res["args"]) == len(leaf_params), rule, fn.qual,
                        "leaf arguments", f"{mname}: Location.{res['method']} receives {res['args']}, parameters are {leaf_params}", fn)
            if dst_sys == "amino_acid":
                r.check(res.get("post") == ("floordiv", "3"), rule, fn.qual, "amino-acid index = cds position // 3",
                        f"{mname} does not divide the CDS position by 3: {res.get('post')}", fn)
            else:
                r.check(res.get("post") is None, rule, fn.qual, "no post-processing",
                        f"{mname} post-processes the converted value: {res.get('post')}", fn)
    if only is None:
        r.floor(rule, "coordinate wrappers", n, 33)
    else:
        r.floor(rule, "feature coordinate wrappers", n, len(only))


def r1_wiring(ctx):
    # strengthening: every wrapper is decided on the enumerated transcripts by RK (and C01.R3 for the feature wrappers); the
    # resolved wiring extends the verdict to all positions / intervals
    ctx.r.soften("C06.R1")
    wrapper_table_check(ctx, "C06.R1")


def r2_composition(ctx):
    r = ctx.r
    r.soften("C06.R2")  # strengthening: path consistency cds<->transcript is decided by interpretation in RK
    for name, first, second in (("cds_pos_to_transcript", "cds_pos_to_", "_pos_to_transcript"),
                                ("transcript_pos_to_cds", "transcript_pos_to_", "_pos_to_cds")):
        fn = ctx.repo.fn(f"{TX}.{name}")
        ret, defs = _single_return(fn)
        ok, why = False, "not a single return"
        if ret is not None:
            e = _subst_locals(ret, defs)
            why = f"`{src(e)}`"
            if isinstance(e, ast.Call) and src(e.func.value) == "self" and len(e.args) == 1 and isinstance(e.args[0], ast.Call):
                outer, inner = e.func.attr, e.args[0]
                if isinstance(inner.func, ast.Attribute) and src(inner.func.value) == "self" and [src(a) for a in inner.args] == fn.pos_params[1:]:
                    sys1 = inner.func.attr[len(first):] if inner.func.attr.startswith(first) else None
                    sys2 = outer[:-len(second)] if outer.endswith(second) else None
                    ok = sys1 is not None and sys1 == sys2 and sys1 in ("sequence", "chunk_relative")
        r.check(ok, "C06.R2", fn.qual, "two legs through one genomic system",
                f"{name} is not <x>_to_<system> followed by <system>_to_<y> on the same system: {why}", fn)


def optional_deref_guarded(fn, attr, guard_names):
    """every `self.<attr>.<x>` in fn must be dominated by a truthiness / not-None test of self.<attr> (or of one of
    guard_names, e.g. self.is_coding).  Returns list of unguarded nodes."""
    facts = Facts(fn.node)
    bad = []
    target = f"self.{attr}"
    accepted = {target} | set(guard_names)

    def positive(fs):
        for t, pol in fact_atoms(fs):
            d = dotted(t)
            if d in accepted and pol:
                return True
            if isinstance(t, ast.Compare) and len(t.ops) == 1 and dotted(t.left) in accepted:
                c = t.comparators[0]
                if isinstance(c, ast.Constant) and c.value is None:
                    if isinstance(t.ops[0], ast.IsNot) and pol:
                        return True
                    if isinstance(t.ops[0], ast.Is) and not pol:
                        return True
        return False

    for n in walk_shallow(fn.node):
        if isinstance(n, ast.Attribute) and dotted(n.value) == target:
            if positive(facts.facts_at(n)):
                continue
            # conditional expression / boolean short-circuit in the same expression
            ok = False
            for anc in walk_shallow(fn.node):
                if isinstance(anc, ast.IfExp) and any(x is n for x in ast.walk(anc.body)) and positive([(anc.test, True)]):
                    ok = True
                if isinstance(anc, ast.IfExp) and any(x is n for x in ast.walk(anc.orelse)) and positive([(anc.test, False)]):
                    ok = True
                if isinstance(anc, ast.BoolOp) and isinstance(anc.op, ast.And):
                    for i, v in enumerate(anc.values):
                        if any(x is n for x in ast.walk(v)) and any(positive([(u, True)]) for u in anc.values[:i]):
                            ok = True
            if not ok:
                bad.append(n)
    return bad


def r3i_noncoding_interpreted(ctx):
    """deciding rule: every public TranscriptInterval method, interpreted on a NON-coding transcript
    (on a sequence-carrying chromosome), either answers or raises a documented exception - never an AttributeError /
    TypeError from dereferencing None.  Arguments are synthesised from the parameter names."""
    r, repo = ctx.r, ctx.repo
    from ..genekernel import chrom_parent
    it = gene_interp(repo, max_steps=10 ** 9)
    S = strands(it)
    cls = repo.cls("TranscriptInterval")
    genome = "ATGGCATTGTAACCGATGAAATAGCTTGACCATGGTTAAGCG"
    n = 0
    internal = ("AttributeError", "TypeError", "IndexError", "KeyError", "RecursionError", "UnboundLocalError", "NameError")
    for name, fn in sorted(cls.methods.items()):
        if name == "__init__" or name.startswith("_") or fn.is_static or fn.is_classmethod:
            continue
        # every public method the class defines itself (not only those that mention self.cds in their own body: the
        # dereference may sit in a helper)
        params = fn.pos_params[1:]
        a = fn.node.args
        ndef = len(a.defaults)
        required = params[:len(params) - ndef] if ndef else params
        args = []
        ok_args = True
        for p_ in required:
            if "strand" in p_:
                args.append(S["PLUS"])
            elif p_ in ("pos",):
                args.append(5)
            elif p_.endswith("start"):
                args.append(5)
            elif p_.endswith("end"):
                args.append(8)
            else:
                ok_args = False
        if not ok_args:
            r.note(f"C06.R3i: no synthetic arguments for {fn.qual}({', '.join(required)}); not interpreted")
            continue
        n += 1
        for sn in ("PLUS", "MINUS"):
            tx = mk_transcript(it, [(4, 12), (16, 24)], S[sn], parent_or_seq_chunk_parent=chrom_parent(it, genome, alphabet="NT_EXTENDED"))
            try:
                k, v = run(it, fn, list(args), {}, tx)
                if k == "ok" and hasattr(v, "items") and type(v).__name__ == "_Gen":
                    pass
            except Uninterpretable as ex:
                raise AnalysisError(f"C06.R3i: {fn.qual}: {ex}")
            bad = k == "raise" and v in internal
            r.check(not bad, "C06.R3i", fn.qual, f"non-coding transcript ({sn})",
                    f"{name}{tuple(args) if args else '()'} on a non-coding transcript raises {v}: the optional CDS is dereferenced "
                    f"without a guard (documented: NoncodingTranscriptError or a plain answer)", fn)
    r.floor("C06.R3i", "TranscriptInterval methods using the optional CDS (interpreted)", n, 18)


def r3_noncoding_guard(ctx):
    r = ctx.r
    # strengthening (guard dominance on every path) on top of R3i, which decides by interpretation
    r.soften("C06.R3")
    cls = ctx.repo.cls("TranscriptInterval")
    n = 0
    for name, fn in sorted(cls.methods.items()):
        if name in ("__init__",):
            continue
        uses = [x for x in walk_shallow(fn.node) if isinstance(x, ast.Attribute) and dotted(x.value) == "self.cds"]
        if not uses:
            continue
        n += 1
        bad = optional_deref_guarded(fn, "cds", {"self.is_coding"})
        r.check(not bad, "C06.R3", fn.qual, "optional CDS dereference guarded",
                f"`{src(bad[0]) if bad else ''}` is reachable with self.cds None (non-coding transcript): AttributeError instead of NoncodingTranscriptError",
                (fn, bad[0]) if bad else fn)
        # the guard must raise the documented exception
        for st in ast.walk(fn.node):
            if isinstance(st, ast.If) and src(st.test) in ("not self.is_coding", "not self.cds", "self.cds is None"):
                rs = [x for x in st.body if isinstance(x, ast.Raise)]
                if rs:
                    nm = dotted(rs[0].exc.func) if isinstance(rs[0].exc, ast.Call) else dotted(rs[0].exc)
                    r.check(nm == "NoncodingTranscriptError", "C06.R3", fn.qual, "documented exception",
                            f"non-coding guard raises {nm}", (fn, st))
    r.floor("C06.R3", "TranscriptInterval methods using the optional CDS", n, 20)


# ---------------------------------------------------------------------------------------------------------
# RK: interpreted coordinate API on small transcripts
# ---------------------------------------------------------------------------------------------------------

def _exon_layouts(nexons):
    """disjoint, non-empty, possibly adjacent exon layouts: order types of the bounds, triangular representatives"""
    from ..lockernel import orderings
    syms = []
    for i in range(nexons):
        syms += [f"s{i}", f"e{i}"]
    cons = [(lambda i: (lambda e: e[f"s{i}"] < e[f"e{i}"]))(i) for i in range(nexons)]
    cons += [(lambda i: (lambda e: e[f"e{i}"] <= e[f"s{i+1}"]))(i) for i in range(nexons - 1)]
    seen = set()
    dec = [0, 4, 7, 9, 10, 11, 12]  # second representative: decreasing gaps (long first exon, short later ones)
    for env in orderings(syms, cons, spread=1):
        for rep in (lambda k: 3 + TRI[k] + k, lambda k: 2 + dec[k]):
            lay = tuple((rep(env[f"s{i}"]), rep(env[f"e{i}"])) for i in range(nexons))
            if lay not in seen:
                seen.add(lay)
                yield lay


def _tx_case(repo, it, S, F, exons, strand_name, cs, ce, start_frame=0, skip=None):
    out = []
    n = 0
    q = lambda m: repo.fn(f"{TX}.{m}")  # noqa: E731
    exon_pos = [p for s, e in exons for p in range(s, e)]
    cds_pos_asc = [p for p in exon_pos if cs <= p < ce]
    cds_blocks = []
    for s, e in exons:
        a, b = max(s, cs), min(e, ce)
        if a < b:
            if skip is not None and a < skip < b - 1:
                # a programmed +1 frameshift inside the exon: the CDS leaves out one base of the transcript
                cds_blocks += [(a, skip), (skip + 1, b)]
            else:
                cds_blocks.append((a, b))
    if skip is not None:
        start_frame = start_frame or 0
        order = list(range(len(cds_blocks)))
        if strand_name == "MINUS":
            order.reverse()
        fr, before = {}, 0
        for j, i in enumerate(order):
            fr[i] = before % 3
            before += cds_blocks[i][1] - cds_blocks[i][0]
        frames = [F[{0: "ZERO", 1: "ONE", 2: "TWO"}[fr[i]]] for i in range(len(cds_blocks))]
        desc = f"exons={list(exons)} cds={cds_blocks} (base {skip} skipped inside an exon) {strand_name}"
    elif start_frame == 0:
        frames = [F["ZERO"]] * len(cds_blocks)
        desc = f"exons={list(exons)} cds={cds_blocks} {strand_name}"
    else:
        # a 5'-incomplete CDS: one uninterrupted reading frame that starts with an offset (coordinates do not depend on it)
        order = list(range(len(cds_blocks)))
        if strand_name == "MINUS":
            order.reverse()
        fr, before = {}, -start_frame
        for j, i in enumerate(order):
            fr[i] = start_frame if j == 0 else before % 3
            before += cds_blocks[i][1] - cds_blocks[i][0]
        frames = [F[{0: "ZERO", 1: "ONE", 2: "TWO"}[fr[i]]] for i in range(len(cds_blocks))]
        desc = f"exons={list(exons)} cds={cds_blocks} {strand_name} frames={[fr[i] for i in range(len(cds_blocks))]}"
    try:
        tx = mk_transcript(it, exons, S[strand_name], cds_blocks, frames)
    except Raised as ex:
        return 1, [("construct", f"{desc}: construction raises {ex.exc_name}", f"{TX}.__init__")]
    T = enum_positions(list(exons), strand_name)
    C = enum_positions(cds_blocks, strand_name)
    lo, hi = exons[0][0] - 1, exons[-1][1] + 1

    def expect(fn, args, want, key):
        nonlocal n
        n += 1
        k, v = run(it, fn, args, {}, tx)
        if want == "reject":
            if k != "raise":
                out.append((key, f"{desc}: {fn.name}{tuple(args)} -> {v}; a position outside the source system must be rejected", fn.qual))
            elif v in ("AttributeError", "IndexError", "KeyError", "TypeError", "RecursionError"):
                out.append((key + " exception", f"{desc}: {fn.name}{tuple(args)} raises internal {v}", fn.qual))
        elif k != "ok" or v != want:
            out.append((key, f"{desc}: {fn.name}{tuple(args)} -> {k}:{v}; base enumeration gives {want}", fn.qual))

    for p in range(lo, hi + 1):
        expect(q("sequence_pos_to_transcript"), [p], T.index(p) if p in T else "reject", "sequence->transcript")
        expect(q("sequence_pos_to_cds"), [p], C.index(p) if p in C else "reject", "sequence->cds")
        n += 1
        k, v = run(it, repo.fn("gene.cds:CDSInterval.sequence_pos_to_amino_acid"), [p], {}, tx.fields["cds"])
        if p in C:
            if k != "ok" or v != C.index(p) // 3:
                out.append(("amino acid", f"{desc}: sequence_pos_to_amino_acid({p}) -> {k}:{v}; expected {C.index(p) // 3}", "gene.cds:CDSInterval.sequence_pos_to_amino_acid"))
        elif k != "raise":
            out.append(("amino acid", f"{desc}: sequence_pos_to_amino_acid({p}) -> {v}; {p} is not coding", "gene.cds:CDSInterval.sequence_pos_to_amino_acid"))
    for t in range(-1, len(T) + 1):
        expect(q("transcript_pos_to_sequence"), [t], T[t] if 0 <= t < len(T) else "reject", "transcript->sequence")
        expect(q("transcript_pos_to_cds"), [t], C.index(T[t]) if 0 <= t < len(T) and T[t] in C else "reject", "transcript->cds")
    for c in range(-1, len(C) + 1):
        expect(q("cds_pos_to_sequence"), [c], C[c] if 0 <= c < len(C) else "reject", "cds->sequence")
        expect(q("cds_pos_to_transcript"), [c], T.index(C[c]) if 0 <= c < len(C) else "reject", "cds->transcript")
    # UTRs / CDS partition of the transcript, in order
    i0, i1 = T.index(C[0]), T.index(C[-1])
    for name, want in (("get_5p_interval", T[:i0]), ("get_3p_interval", T[i1 + 1:])):
        fn = q(name)
        n += 1
        k, v = run(it, fn, [], {}, tx)
        if k != "ok":
            out.append((name, f"{desc}: {name}() raises {v}; expected the bases {want} ({'an empty UTR is not an error' if not want else ''})", fn.qual))
            continue
        got = [] if is_empty_obj(v) else enum_positions(blocks_of(v), strand_of(v).name)
        if got != want:
            out.append((name, f"{desc}: {name}() -> {got}; the transcript bases {'before' if '5p' in name else 'after'} the CDS are {want}", fn.qual))
    # introns = span minus exons
    fn = repo.fn("gene.interval:AbstractFeatureInterval.chromosome_gaps_location")
    n += 1
    k, v = run(it, fn, [], {}, tx)
    want = sorted(set(range(exons[0][0], exons[-1][1])) - set(exon_pos))
    got = None if k != "ok" else sorted(p for s, e in ([] if is_empty_obj(v) else blocks_of(v)) for p in range(s, e))
    if got != want:
        out.append(("introns", f"{desc}: chromosome_gaps_location -> {k}:{got}; span minus exons is {want}", fn.qual))
    return n, out


_W = {}

# ---------------------------------------------------------------------------------------------------------
# RW: every coordinate wrapper, by name, on parent-less and chunk-built objects
# ---------------------------------------------------------------------------------------------------------
RW_GENOME = "ATGGCATTGTAACCGATGAAATAGCTTGACCATGGTTAAGCGTACGTTGA"
RW_LAYOUTS = [([(6, 12), (15, 22)], (8, 19)), ([(5, 14)], (5, 14)), ([(4, 9), (9, 13), (20, 27)], (6, 24))]
RW_CHUNK = (3, 40)


def _compose(a, b):
    sign = {"PLUS": 1, "MINUS": -1, "UNSTRANDED": 0}
    return {1: "PLUS", -1: "MINUS", 0: "UNSTRANDED"}[sign[a] * sign[b]]


def _wrapper_case(repo, it, S, spec):
    """spec: (layout index, strand, parent kind).  Every `<src>_(pos|interval)_to_<dst>` method found on the transcript, its
    CDS and a feature with the same blocks is called over its whole small domain; the answer is read off the base lists
    (exon bases / CDS bases 5'->3'; chromosome coordinates for `sequence`, chunk coordinates for `chunk_relative`)."""
    li, sn, pk, only = spec
    from ..genekernel import chrom_parent, chunk_parent, mk_feature
    exons, (cs, ce) = RW_LAYOUTS[li]
    cds_blocks = [(max(s_, cs), min(e, ce)) for s_, e in exons if max(s_, cs) < min(e, ce)]
    F = it.enum("CDSFrame")
    parent = None
    off = 0
    if pk == "chunk":
        parent = chunk_parent(it, RW_GENOME, RW_CHUNK[0], RW_CHUNK[1], alphabet="NT_EXTENDED")
        off = RW_CHUNK[0]
    elif pk == "chrom":
        parent = chrom_parent(it, RW_GENOME, alphabet="NT_EXTENDED")
    elif pk == "chromend":
        # the last exon ends on the last base of the chromosome: windows reaching the end of the sequence are ordinary windows
        parent = chrom_parent(it, RW_GENOME[:exons[-1][1]], alphabet="NT_EXTENDED")
    tx = mk_transcript(it, exons, S[sn], cds_blocks, [F["ZERO"]] * len(cds_blocks), parent_or_seq_chunk_parent=parent)
    ft = mk_feature(it, exons, S[sn], parent_or_seq_chunk_parent=parent)
    T = enum_positions(list(exons), sn)
    C = enum_positions(cds_blocks, sn)
    out = []
    n = 0
    objs = [("TranscriptInterval", tx, {"transcript": T, "feature": T, "cds": C}),
            ("FeatureInterval", ft, {"feature": T}),
            ("CDSInterval", tx.fields["cds"], {"cds": C, "amino_acid": C})]
    lo, hi = exons[0][0] - 1, exons[-1][1] + 1
    cuts = sorted({lo, hi} | {b for blk in exons for b in blk} | {cs, ce} | {exons[0][0] + 1, exons[-1][1] - 1})
    internal = ("AttributeError", "IndexError", "KeyError", "TypeError", "RecursionError")
    for cname, obj, rels in objs:
        if cname != only:
            continue
        cls = repo.cls(cname)
        seen = set()
        for k in repo.mro(cls):
            for mname, fn in sorted(k.methods.items()):
                m = NAME_RE.match(mname)
                if not m or mname in seen:
                    continue
                seen.add(mname)
                fn = repo.lookup_method(cls, mname)
                src_sys, kind, dst_sys = m.groups()
                gen = src_sys if src_sys in ("sequence", "chunk_relative") else dst_sys if dst_sys in ("sequence", "chunk_relative") else None
                desc = f"{cname} exons={exons} cds={cds_blocks} {sn} parent={pk}"
                if gen is None:
                    continue  # cds<->transcript compositions: RK
                rel = dst_sys if src_sys == gen else src_sys
                if rel not in rels:
                    continue
                R = rels[rel]
                shift = off if gen == "chunk_relative" else 0
                to_rel = src_sys == gen

                def bad(key, msg):
                    out.append((f"{mname}: {key}", f"{desc}: {msg}", fn.qual))

                if kind == "pos" and to_rel:
                    for p in range(lo, hi + 1):
                        n += 1
                        k_, v = run(it, fn, [p - shift], {}, obj)
                        if p in R:
                            want = R.index(p) // 3 if dst_sys == "amino_acid" else R.index(p)
                            if k_ != "ok" or v != want:
                                bad("value", f"{mname}({p - shift}) -> {k_}:{v}; base enumeration gives {want}")
                                break
                        elif k_ != "raise" or v in internal:
                            bad("rejection", f"{mname}({p - shift}) -> {k_}:{v}; the position is outside the {rel} bases and must be rejected")
                            break
                elif kind == "pos":
                    for i in range(-1, len(R) + 1):
                        n += 1
                        k_, v = run(it, fn, [i], {}, obj)
                        if 0 <= i < len(R):
                            if k_ != "ok" or v != R[i] - shift:
                                bad("value", f"{mname}({i}) -> {k_}:{v}; the {i}-th {rel} base is at {R[i] - shift}")
                                break
                        elif k_ != "raise" or v in internal:
                            bad("rejection", f"{mname}({i}) -> {k_}:{v}; outside [0,{len(R)}) must be rejected")
                            break
                elif to_rel:
                    for a in cuts:
                        for b in cuts:
                            if a >= b or (pk == "chromend" and b > exons[-1][1]):
                                continue  # (a window past the end of the sequence is not a valid window)
                            for qs in ("PLUS", "MINUS", "UNSTRANDED"):
                                inside = [p for p in range(a, b) if p in R]
                                if not inside:
                                    continue
                                n += 1
                                k_, v = run(it, fn, [a - shift, b - shift, S[qs]], {}, obj)
                                want = sorted(R.index(p) for p in inside)
                                if k_ != "ok":
                                    bad("raises", f"{mname}({a - shift},{b - shift},{qs}) raises {v}; the shared bases have {rel} positions {want}")
                                    break
                                got = sorted(x for s_, e in blocks_of(v) for x in range(s_, e))
                                gs = strand_of(v).name if strand_of(v) is not None else None
                                if got != want or gs != _compose(qs, sn):
                                    bad("value", f"{mname}({a - shift},{b - shift},{qs}) -> {blocks_of(v)}:{gs}; expected {rel} positions {want} on strand {_compose(qs, sn)}")
                                    break
                else:
                    L = len(R)
                    for a in range(0, L):
                        for b in sorted({a + 1, min(L, a + 4), L}):
                            if b <= a:
                                continue
                            for rs in ("PLUS", "MINUS", "UNSTRANDED"):
                                n += 1
                                k_, v = run(it, fn, [a, b, S[rs]], {}, obj)
                                want = sorted(p - shift for p in R[a:b])
                                if k_ != "ok":
                                    bad("raises", f"{mname}({a},{b},{rs}) raises {v}; the {rel} bases [{a},{b}) lie at {want}")
                                    break
                                got = sorted(x for s_, e in blocks_of(v) for x in range(s_, e))
                                gs = strand_of(v).name if strand_of(v) is not None else None
                                if got != want or gs != _compose(sn, rs):
                                    bad("value", f"{mname}({a},{b},{rs}) -> {blocks_of(v)}:{gs}; expected positions {want} on strand {_compose(sn, rs)}")
                                    break
    return n, out


def rw_wrappers(ctx, rule="C06.RW", classes=("TranscriptInterval", "FeatureInterval", "CDSInterval")):
    repo = ctx.repo
    specs = [(li, sn, pk, cn) for li in range(len(RW_LAYOUTS) if ctx.thorough else 2) for sn in ("PLUS", "MINUS")
             for pk in ("none", "chunk", "chrom", "chromend") if ctx.thorough or pk != "chrom"
             for cn in classes]

    def work(spec):
        if _W.get("repo") is not repo:
            _W["it"] = gene_interp(repo, max_steps=10 ** 12)
            _W["repo"] = repo
        it = _W["it"]
        try:
            return _wrapper_case(repo, it, strands(it), spec)
        except Uninterpretable as ex:
            return 0, [("uninterpretable", str(ex), f"{TX}.__init__")]

    results = pmap(work, specs, min_items=2)
    from .c05 import _report
    names = []
    for cname in ("AbstractFeatureInterval",) + tuple(c for c in classes if c != "FeatureInterval"):
        cls = repo.cls(cname)
        for mname, fn in sorted(cls.methods.items()):
            m = NAME_RE.match(mname)
            if m and not {m.group(1), m.group(3)} <= {"feature", "transcript", "cds"}:
                names.append((fn.qual, "whole small domain on parent-less and chunk-built objects, both strands"))
    ctx.r.floor(rule, "coordinate wrappers found by name", len(names), 33 if len(classes) == 3 else 8)
    _report(ctx, rule, results, names)



def rk_interpreted(ctx):
    r = ctx.r
    repo = ctx.repo
    specs = []
    for ne in ([1, 2, 3] if ctx.thorough else [1, 2]):
        for lay in _exon_layouts(ne):
            pos = [p for s, e in lay for p in range(s, e)]
            for sn in ("PLUS", "MINUS"):
                # every CDS placement [cs, ce) with cs on an exon base and ce just after an exon base
                for cs in pos:
                    for ce1 in pos:
                        if ce1 >= cs:
                            specs.append((lay, sn, cs, ce1 + 1))
                            if ce1 - cs >= 3 and (ctx.thorough or (cs + ce1) % 3 == 0):
                                specs.append((lay, sn, cs, ce1 + 1, 1 + (cs + ce1) % 2))
    # three- and four-exon transcripts (always): CDS made of whole exons and CDS ends one base inside an exon
    for lay in ([(3, 6), (8, 11), (13, 17)], [(2, 4), (6, 9), (11, 13), (15, 18)]):
        bounds = sorted({b for blk in lay for b in blk} | {blk[0] + 1 for blk in lay} | {blk[1] - 1 for blk in lay})
        pos = {p for s_, e in lay for p in range(s_, e)}
        for sn in ("PLUS", "MINUS"):
            for cs in bounds:
                for ce in bounds:
                    if cs < ce and cs in pos and (ce - 1) in pos:
                        specs.append((tuple(lay), sn, cs, ce))
    # a CDS that is not one stretch of the transcript: one base inside an exon is left out (programmed frameshift)
    for lay, cs, ce, skips in (([(4, 20)], 6, 18, (9, 12)), ([(4, 20)], 4, 20, (10,)), ([(3, 12), (15, 24)], 5, 22, (8, 18)), ([(3, 12), (15, 24)], 3, 24, (6,))):
        for sn in ("PLUS", "MINUS"):
            for sk in skips:
                specs.append((tuple(lay), sn, cs, ce, 0, sk))
    r.floor("C06.RK", "transcripts (layout x strand x CDS placement)", len(specs), 150)

    def work(spec):
        if _W.get("repo") is not repo:
            _W["it"] = gene_interp(repo, max_steps=10 ** 12)
            _W["repo"] = repo
        it = _W["it"]
        try:
            return _tx_case(repo, it, strands(it), it.enum("CDSFrame"), *spec)
        except Uninterpretable as ex:
            return 0, [("uninterpretable", str(ex), f"{TX}.__init__")]

    results = pmap(work, specs)
    n = sum(x[0] for x in results)
    r.count(n)
    first = {}
    for _, outs in results:
        for key, msg, qn in outs:
            first.setdefault((qn, key), msg)
    if any(k[1] == "uninterpretable" for k in first):
        raise AnalysisError("C06.RK: " + [m for k, m in first.items() if k[1] == "uninterpretable"][0])
    for (qn, key), msg in sorted(first.items()):
        r.violation("C06.RK", qn, key, msg, repo.fn(qn))
    if not first:
        r.ok("C06.RK", TX, "coordinate API on all enumerated transcripts", repo.cls("TranscriptInterval"),
             f"{len(specs)} transcripts, {n} interpreted evaluations")
    else:
        r.note(f"C06.RK: {len(specs)} transcripts, {n} interpreted evaluations")


RULES = [
    ("C06.R1", r1_wiring),
    ("C06.R2", r2_composition),
    ("C06.R3i", r3i_noncoding_interpreted),
    ("C06.R3", r3_noncoding_guard),
    ("C06.RK", rk_interpreted),
    ("C06.RW", rw_wrappers),
]
