"""C09 - collection queries return exactly the specified members, self-consistently.

RK  the analyser interprets AnnotationCollection.query_by_position for every pair of cut points around member bounds
    and 128 kb bin boundaries x coding_only x completely_within x expand, and the identifier / GUID queries for every
    subset, on a parent-less collection with large coordinates and on a sequence-carrying collection; membership,
    bounds, retained coordinates/identifiers, member sequences and refusals are compared with a coordinate oracle.
R7  structural: every attribute the query code reads on a child / grandchild is defined by every member class of
    the union (GeneInterval | FeatureIntervalCollection | VariantIntervalCollection and their intervals)."""
import ast
import itertools

from ..astutil import dotted, src, walk_shallow
from ..genekernel import (chrom_parent, chunk_parent, gene_interp, mk_collection, mk_feature, mk_feature_collection, mk_gene,
                          mk_transcript)
from ..interp import ClassTok, Obj, Raised, Uninterpretable
from ..lockernel import blocks_of, is_empty_obj, run, strands
from .c05 import GENOME as _GENOME_UPPER, _report, _runner, bases as _bases

# a soft-masked genome (lower-case stretch): the sequences of a query result are the source's characters, case included
GENOME = _GENOME_UPPER[:14] + _GENOME_UPPER[14:33].lower() + _GENOME_UPPER[33:]


def bases(pos_list, strand_name):
    return _bases(pos_list, strand_name, GENOME)

from .c08 import plain

def _stable(x):
    # process-independent selector (the builtin hash of strings changes from run to run)
    import zlib
    return zlib.crc32(repr(x).encode())


EXPLANATION = (
    "RK: query_by_position (all flag combinations; ranges at member bounds, at 0, at the collection bounds and across "
    "128 kb bin boundaries), query_by_guids / query_by_interval_guids / query_by_transcript_interval_guids / "
    "query_by_feature_interval_guids / query_by_feature_identifiers are interpreted by the analyser and compared with a "
    "coordinate oracle: exact membership after the coding filter, documented bounds, members' dictionary forms and "
    "identifiers retained, member sequences restricted to the new bounds, InvalidQueryError for invalid ranges. R7: "
    "interface completeness of the child union. RX: the optional interval-index implementation (cgranges is not installed) is followed through a native model of "
    "the index. Not decided: the real cgranges library."
)

AC = "gene.collections:AnnotationCollection"

BIG = dict(
    genes=[
        dict(id="g1", txs=[dict(exons=[(1000, 2000), (3000, 5000)], strand="PLUS", cds=[(1500, 2000), (3000, 3400)]),
                           dict(exons=[(1200, 4000)], strand="PLUS", cds=None)]),
        dict(id="g2", txs=[dict(exons=[(130000, 130500), (130900, 131200)], strand="MINUS", cds=None)]),
        dict(id="g3", txs=[dict(exons=[(131072, 135000), (139000, 140000)], strand="PLUS", cds=[(131072, 131078)])]),
        dict(id="g4", txs=[dict(exons=[(262000, 262200)], strand="MINUS", cds=None),
                           dict(exons=[(262050, 262150)], strand="MINUS", cds=[(262050, 262056)])]),
        # the data source flags a non-coding isoform as primary; the gene is still coding
        dict(id="g5", txs=[dict(exons=[(200000, 201000)], strand="PLUS", cds=None, primary=True),
                           dict(exons=[(200100, 200900)], strand="PLUS", cds=[(200100, 200160)])]),
    ],
    fcs=[dict(id="fc1", feats=[dict(blocks=[(4000, 4500), (5500, 6000)], strand="PLUS")]),
         dict(id="fc2", feats=[dict(blocks=[(131000, 131100)], strand="MINUS"), dict(blocks=[(131050, 131090)], strand="PLUS")])],
)
SMALL = dict(
    genes=[dict(id="s1", txs=[dict(exons=[(4, 10), (14, 20)], strand="PLUS", cds=[(6, 10), (14, 16)])]),
           dict(id="s2", txs=[dict(exons=[(22, 30)], strand="MINUS", cds=None), dict(exons=[(24, 28)], strand="MINUS", cds=[(24, 27)])]),
           # reaches the last base of the chunk [2,40)
           dict(id="s3", txs=[dict(exons=[(33, 35), (37, 40)], strand="PLUS", cds=None)])],
    fcs=[dict(id="sf", feats=[dict(blocks=[(12, 18), (31, 36)], strand="MINUS")])],
    vcs=[dict(id="sv", variants=[(37, 38, "T"), (38, 39, "G")])],
)


CHUNK = (2, 40)


def build(it, S, model, parent, start=None, end=None):
    F = it.enum("CDSFrame")
    genes, fcs = [], []
    for g in model["genes"]:
        txs = []
        for i, t in enumerate(g["txs"]):
            kw = dict(transcript_id=f"{g['id']}.t{i}", sequence_name="chr1", parent_or_seq_chunk_parent=parent)
            if t.get("primary"):
                kw["is_primary_tx"] = True
            if t["cds"]:
                n = len(t["cds"])
                fr = []
                tot = 0
                order = range(n) if t["strand"] == "PLUS" else range(n - 1, -1, -1)
                frd = {}
                for j in order:
                    frd[j] = [F["ZERO"], F["ONE"], F["TWO"]][tot % 3]
                    tot += t["cds"][j][1] - t["cds"][j][0]
                fr = [frd[j] for j in range(n)]
                txs.append(mk_transcript(it, t["exons"], S[t["strand"]], t["cds"], fr, **kw))
            else:
                txs.append(mk_transcript(it, t["exons"], S[t["strand"]], **kw))
        genes.append(mk_gene(it, txs, gene_id=g["id"], gene_symbol=g["id"] + "_sym", sequence_name="chr1", parent_or_seq_chunk_parent=parent))
    for f in model["fcs"]:
        feats = [mk_feature(it, x["blocks"], S[x["strand"]], feature_name=f"{f['id']}.f{i}", sequence_name="chr1",
                            parent_or_seq_chunk_parent=parent) for i, x in enumerate(f["feats"])]
        fcs.append(mk_feature_collection(it, feats, feature_collection_id=f["id"], sequence_name="chr1", parent_or_seq_chunk_parent=parent))
    vcs = []
    for v in model.get("vcs", []):
        vis = [it.apply(ClassTok("VariantInterval"), [a, b, alt, "SNV"], {"parent_or_seq_chunk_parent": parent, "variant_name": f"{v['id']}.{i}"}, None, 0)
               for i, (a, b, alt) in enumerate(v["variants"])]
        vcs.append(it.apply(ClassTok("VariantIntervalCollection"), [vis], {"variant_collection_id": v["id"], "sequence_name": "chr1",
                                                                           "parent_or_seq_chunk_parent": parent}, None, 0))
    return mk_collection(it, genes, fcs, variant_collections=vcs or None, sequence_name="chr1", start=start, end=end,
                         parent_or_seq_chunk_parent=parent), genes, fcs + vcs


def spans(model):
    out = {}
    for g in model["genes"]:
        out[g["id"]] = (min(t["exons"][0][0] for t in g["txs"]), max(t["exons"][-1][1] for t in g["txs"]),
                        any(t["cds"] for t in g["txs"]), "gene")
    for f in model["fcs"]:
        out[f["id"]] = (min(x["blocks"][0][0] for x in f["feats"]), max(x["blocks"][-1][1] for x in f["feats"]), False, "fc")
    for v in model.get("vcs", []):
        out[v["id"]] = (min(a for a, _b, _x in v["variants"]), max(b for _a, b, _x in v["variants"]), False, "vc")
    return out


def member_ids(ac):
    ids = [g.fields["gene_id"] for g in ac.fields["genes"]] + [f.fields["feature_collection_id"] for f in ac.fields["feature_collections"]]
    ids += [v.fields["variant_collection_id"] for v in (ac.fields.get("variant_collections") or [])]
    return sorted(ids)


def _pos_case(repo, it, S, spec):
    which, bounds, qs, qe = spec
    out = []
    n = 0
    model = BIG if which == "big" else SMALL
    parent = None if which == "big" else chrom_parent(it, GENOME, alphabet="NT_EXTENDED")
    chunk = None
    if which.startswith("chunk"):
        # the same small collection on a sequence chunk; "chunkwide": its declared bounds are wider than the chunk (as after an
        # identifier query that widened the bounds to overhanging members)
        chunk = CHUNK
        parent = chunk_parent(it, GENOME, chunk[0], chunk[1], alphabet="NT_EXTENDED")
    cache = it.__dict__.setdefault("_c09_cache", {})
    key = (which, bounds)
    if key not in cache:
        cache[key] = build(it, S, model, parent, *(bounds or (None, None)))
    ac, genes, fcs = cache[key]
    f = repo.fn(f"{AC}.query_by_position")
    sp = spans(model)
    cstart, cend = ac.fields["start"], ac.fields["end"]
    src_dicts = {}
    TD = {"GeneInterval": "gene.gene:GeneInterval.to_dict", "FeatureIntervalCollection": "gene.feature:FeatureIntervalCollection.to_dict",
          "VariantIntervalCollection": "gene.variants:VariantIntervalCollection.to_dict"}
    oid_of = lambda o: o.fields.get("gene_id") or o.fields.get("feature_collection_id") or o.fields.get("variant_collection_id")  # noqa: E731
    for o in genes + fcs:
        src_dicts[oid_of(o)] = plain(run(it, repo.fn(TD[o.cls_name]), [], {}, o)[1])
    for coding_only in (False, True):
        for within in (True, False):
            for expand in ((False, True) if not within else (False,)):
                n += 1
                desc = (f"{which} collection [{cstart},{cend}) query_by_position({qs},{qe}, coding_only={coding_only}, "
                        f"completely_within={within}, expand_location_to_children={expand})")
                k, v = run(it, f, [qs, qe], dict(coding_only=coding_only, completely_within=within, expand_location_to_children=expand), ac)
                a = cstart if qs is None else qs
                b = cend if qe is None else qe
                invalid = a < 0 or a > b or a < cstart or b > cend or a == b
                if invalid:
                    if not (k == "raise" and v == "InvalidQueryError"):
                        out.append(("invalid range refused", f"{desc} -> {k}:{member_ids(v) if k == 'ok' else v}; documented InvalidQueryError", f.qual))
                    continue
                want = sorted(i for i, (s, e, cod, kind) in sp.items()
                              if (not coding_only or cod) and ((a <= s and e <= b) if within else (s < b and a < e)))
                wa, wb = a, b
                if expand and not within:
                    for i in want:
                        wa, wb = min(wa, sp[i][0]), max(wb, sp[i][1])
                if which != "big" and expand and (wa < cstart or wb > cend):
                    # expanding to children past either edge of a collection that carries sequence is refused (the sequence
                    # of the expanded range is not there)
                    if not (k == "raise" and v == "InvalidQueryError"):
                        side = "left" if wa < cstart else "right"
                        out.append((f"expansion past the {side} edge refused", f"{desc} -> {k}:{member_ids(v) if k == 'ok' else v}; expanding to "
                                    f"[{wa},{wb}) leaves the collection [{cstart},{cend}) that carries sequence: documented InvalidQueryError", f.qual))
                    continue
                if k != "ok":
                    out.append(("query", f"{desc} raises {v}; expected members {want}", f.qual))
                    continue
                got = member_ids(v)
                if got != want:
                    out.append((f"membership {'strict' if within else 'relaxed'}{' coding_only' if coding_only else ''}",
                                f"{desc} -> members {got}; the coordinate oracle gives {want}", f.qual))
                    continue
                if (v.fields.get("start"), v.fields.get("end")) != (wa, wb):
                    out.append(("bounds", f"{desc} -> bounds ({v.fields.get('start')},{v.fields.get('end')}); documented ({wa},{wb})", f.qual))
                if v.fields.get("completely_within") is not within:
                    out.append(("completely_within recorded", f"{desc}: result.completely_within = {v.fields.get('completely_within')}", f.qual))
                for o in v.fields["genes"] + v.fields["feature_collections"] + list(v.fields.get("variant_collections") or []):
                    oid = oid_of(o)
                    d = plain(run(it, repo.fn(TD[o.cls_name]), [], {}, o)[1])
                    if d != src_dicts[oid]:
                        out.append(("members retained", f"{desc}: member {oid} changed its dictionary form (coordinates / identifiers) in the result", f.qual))
                if which != "big":
                    # member sequences = source sequences restricted to the new bounds (and to the chunk that carries sequence)
                    for g in v.fields["genes"] + v.fields["feature_collections"]:
                        for tx in g.fields.get("transcripts") or g.fields["feature_intervals"]:
                            exons = list(zip(tx.fields["_genomic_starts"], tx.fields["_genomic_ends"]))
                            sn = tx.fields["_strand"].name
                            from .c01 import enum_positions
                            inside = [p for p in enum_positions(exons, sn) if wa <= p < wb and (chunk is None or chunk[0] <= p < chunk[1])]
                            if not inside:
                                continue
                            n += 1
                            k2, sv = run(it, repo.fn("gene.interval:AbstractFeatureInterval.get_spliced_sequence"), [], {}, tx)
                            wseq = bases(inside, sn)
                            if k2 != "ok" or sv.fields["sequence"] != wseq:
                                out.append(("member sequence", f"{desc}: interval {tx.fields.get('transcript_id') or tx.fields.get('feature_name')} in the result has sequence "
                                            f"{sv.fields['sequence'] if k2 == 'ok' else sv!r}; the source restricted to [{wa},{wb}) is {wseq!r}", f.qual))
    return n, out


def _id_case(repo, it, S, spec):
    which, = spec
    out = []
    n = 0
    model = BIG
    ac, genes, fcs = build(it, S, model, None, 0, 300000)
    sp = spans(model)
    children = genes + fcs
    cid = lambda o: o.fields.get("gene_id") or o.fields.get("feature_collection_id")  # noqa: E731
    guids = {cid(o): o.fields["guid"] for o in children}
    import uuid
    stranger = uuid.UUID(int=12345)
    if which == "guids":
        f = repo.fn(f"{AC}.query_by_guids")
        ids = sorted(guids)
        for r_ in range(0, len(ids) + 1):
            for sub in itertools.combinations(ids, r_):
                if r_ > 2 and r_ < len(ids) - 1:
                    continue
                n += 1
                arg = [guids[i] for i in sub] + [stranger]
                k, v = run(it, f, [arg], {}, ac)
                if k != "ok" or member_ids(v) != sorted(sub):
                    out.append(("query_by_guids", f"query_by_guids({list(sub)} + unknown guid) -> {k}:{member_ids(v) if k == 'ok' else v}", f.qual))
                elif (v.fields["start"], v.fields["end"]) != (0, 300000):
                    out.append(("query_by_guids bounds", f"query_by_guids({list(sub)}): bounds ({v.fields['start']},{v.fields['end']}) instead of the collection's own (0,300000)", f.qual))
        n += 1
        k, v = run(it, f, [guids["g1"]], {}, ac)
        if k != "ok" or member_ids(v) != ["g1"]:
            out.append(("query_by_guids", f"query_by_guids(single UUID) -> {k}:{member_ids(v) if k == 'ok' else v}", f.qual))
    elif which == "interval_guids":
        tx_guids = {t.fields["transcript_id"]: (g.fields["gene_id"], t.fields["guid"]) for g in genes for t in g.fields["transcripts"]}
        ft_guids = {t.fields["feature_name"]: (c.fields["feature_collection_id"], t.fields["guid"]) for c in fcs for t in c.fields["feature_intervals"]}
        allg = dict(tx_guids)
        allg.update(ft_guids)
        names = sorted(allg)
        for fname, pool in (("query_by_interval_guids", allg), ("query_by_transcript_interval_guids", tx_guids),
                            ("query_by_feature_interval_guids", ft_guids)):
            f = repo.fn(f"{AC}.{fname}")
            for r_ in (1, 2, 3):
                for sub in itertools.combinations(names, r_):
                    if r_ == 3 and _stable(sub) % 5:
                        continue
                    n += 1
                    arg = [allg[i][1] for i in sub] + [stranger]
                    k, v = run(it, f, [arg], {}, ac)
                    want_members = sorted({pool[i][0] for i in sub if i in pool})
                    if k != "ok" or member_ids(v) != want_members:
                        out.append((fname, f"{fname}({list(sub)}) -> {k}:{member_ids(v) if k == 'ok' else v}; parents of the requested intervals: {want_members}", f.qual))
                        continue
                    kept = sorted([t.fields["transcript_id"] for g in v.fields["genes"] for t in g.fields["transcripts"]]
                                  + [t.fields["feature_name"] for c in v.fields["feature_collections"] for t in c.fields["feature_intervals"]])
                    if kept != sorted(i for i in sub if i in pool):
                        out.append((fname + " keeps only requested", f"{fname}({list(sub)}) keeps intervals {kept}", f.qual))
    else:
        f = repo.fn(f"{AC}.query_by_feature_identifiers")
        idents = {"g1": ["g1", "g1_sym"], "g2": ["g2"], "fc1": ["fc1"], "fc2": ["fc2"]}
        for r_ in (1, 2):
            for sub in itertools.combinations(sorted(idents), r_):
                for pick in (0, -1):
                    n += 1
                    arg = [idents[i][pick] for i in sub] + ["no such id"]
                    k, v = run(it, f, [arg], {}, ac)
                    if k != "ok" or member_ids(v) != sorted(sub):
                        out.append(("query_by_feature_identifiers", f"query_by_feature_identifiers({arg}) -> {k}:{member_ids(v) if k == 'ok' else v}; expected {sorted(sub)}", f.qual))
        n += 1
        k, v = run(it, f, ["g3_sym"], {}, ac)
        if k != "ok" or member_ids(v) != ["g3"]:
            out.append(("query_by_feature_identifiers", f"query_by_feature_identifiers('g3_sym') -> {k}:{member_ids(v) if k == 'ok' else v}", f.qual))
        # a member named by two of the requested identifiers (its id and its symbol) is returned once; the answer does not depend on
        # the order the identifiers are given in, nor on the iteration order of the identifier set (another hash seed)
        from ..interp import other_hash_seed
        for args in (["g3", "g3_sym"], ["g3_sym", "g3"], ["g1", "g3_sym", "g3", "g1_sym"], ("g3_sym", "g1", "g3")):
            n += 1
            want_ids = sorted({a.replace("_sym", "") for a in args})
            k, v = run(it, f, [args], {}, ac)
            with other_hash_seed():
                k2, v2 = run(it, f, [args], {}, ac)
            got = member_ids(v) if k == "ok" else v
            order1 = [g.fields["gene_id"] for g in v.fields["genes"]] if k == "ok" else None
            order2 = [g.fields["gene_id"] for g in v2.fields["genes"]] if k2 == "ok" else None
            if k != "ok" or got != want_ids:
                out.append(("query_by_feature_identifiers (a member named twice)", f"query_by_feature_identifiers({list(args)}) -> {k}:{got}; every matching member once: {want_ids}", f.qual))
            elif order1 != order2:
                out.append(("query_by_feature_identifiers independent of the hash seed", f"query_by_feature_identifiers({list(args)}) lists the genes as {order1}, and as "
                            f"{order2} when the identifier set is iterated in the opposite order", f.qual))
    if which == "identifiers":
        # identifiers are not unique: a value shared by several members (paralogues with one symbol, a gene and a feature
        # collection under one locus tag, a collection named like a gene's id) returns all of them
        f = repo.fn(f"{AC}.query_by_feature_identifiers")
        tx = lambda a, b, tid: mk_transcript(it, [(a, b)], S["PLUS"], transcript_id=tid)  # noqa: E731
        gA = mk_gene(it, [tx(10, 40, "tA")], gene_id="gA", gene_symbol="dup", locus_tag="LT1")
        gB = mk_gene(it, [tx(60, 90, "tB")], gene_id="gB", gene_symbol="dup", locus_tag="LT2")
        gC = mk_gene(it, [tx(100, 130, "tC")], gene_id="gC", gene_symbol="solo")
        fA = mk_feature_collection(it, [mk_feature(it, [(140, 150)], S["PLUS"], feature_name="x")], feature_collection_id="fcA", locus_tag="LT1")
        fB = mk_feature_collection(it, [mk_feature(it, [(160, 170)], S["MINUS"], feature_name="y")], feature_collection_id="fcB", feature_collection_name="gC")
        shared = mk_collection(it, [gA, gB, gC], [fA, fB], sequence_name="chr1")
        for arg, want_ids in (("dup", ["gA", "gB"]), (["dup"], ["gA", "gB"]), ("LT1", ["fcA", "gA"]), ("gC", ["fcB", "gC"]),
                              (["LT1", "solo"], ["fcA", "gA", "gC"]), (["dup", "LT2"], ["gA", "gB"]), ("LT2", ["gB"]), (["fcB", "gA"], ["fcB", "gA"])):
            n += 1
            k, v = run(it, f, [arg], {}, shared)
            got = member_ids(v) if k == "ok" else v
            if k != "ok" or got != want_ids:
                out.append(("query_by_feature_identifiers (identifier shared by several members)", f"query_by_feature_identifiers({arg!r}) -> {k}:{got}; "
                            f"every member carrying the identifier: {want_ids}", f.qual))
            elif k == "ok":
                # asked again of the result (nested query): the same members
                k2, v2 = run(it, f, [arg], {}, v)
                if k2 != "ok" or member_ids(v2) != want_ids:
                    out.append(("query_by_feature_identifiers (identifier shared by several members)", f"query_by_feature_identifiers({arg!r}) asked again of "
                                f"its own result -> {k2}:{member_ids(v2) if k2 == 'ok' else v2}; expected {want_ids}", f.qual))
    if which == "children":
        # the three kinds of children by name (any case), anything else refused; a variant collection narrowed to some of its
        # variants keeps exactly those, in position order, under its own identity
        small, sg, sf = build(it, S, SMALL, None)
        f = repo.fn(f"{AC}.get_children_by_type")
        sg, sf = list(small.fields["genes"]), list(small.fields["feature_collections"])
        for arg, want in (("transcript", sg), ("TRANSCRIPT", sg), ("feature", sf), ("Feature", sf), ("variant", list(small.fields.get("variant_collections") or []))):
            n += 1
            k, v = run(it, f, [arg], {}, small)
            if k != "ok" or [id(x) for x in v] != [id(x) for x in want]:
                out.append(("get_children_by_type", f"get_children_by_type({arg!r}) -> {k}:{[getattr(x, 'cls_name', x) for x in v] if k == 'ok' else v}; "
                            f"expected the collection's own {len(want)} {arg.lower()} children", f.qual))
        n += 1
        k, v = run(it, f, ["gene"], {}, small)
        if not (k == "raise" and v == "InvalidQueryError"):
            out.append(("get_children_by_type refusal", f"get_children_by_type('gene') -> {k}:{v}; documented InvalidQueryError", f.qual))
        # the map from every transcript / feature guid to the member that holds it
        if repo.has_fn(f"{AC}.interval_guids_to_collections"):
            n += 1
            k, v = run(it, repo.fn(f"{AC}.interval_guids_to_collections"), [], {}, small)
            wantmap = {}
            for o in sg + sf + list(small.fields.get("variant_collections") or []):
                for kid in (o.fields.get("transcripts") or o.fields.get("feature_intervals") or o.fields.get("variant_intervals") or []):
                    wantmap[str(kid.fields["guid"])] = id(o)
            gotmap = {str(g_): id(o) for g_, o in v.items()} if k == "ok" and isinstance(v, dict) else v
            if gotmap != wantmap:
                out.append(("interval_guids_to_collections", f"interval_guids_to_collections -> {k}:{len(gotmap) if isinstance(gotmap, dict) else gotmap} entries; "
                            f"every transcript / feature guid maps to the member that holds it ({len(wantmap)} entries)", f"{AC}.interval_guids_to_collections"))
        vq = repo.fn("gene.variants:VariantIntervalCollection.query_by_guids")
        mkv = lambda s_, e, alt, nm: it.apply(ClassTok("VariantInterval"), [s_, e, alt, "SNV"], {"variant_name": nm}, None, 0)  # noqa: E731
        vs = [mkv(30, 31, "T", "c"), mkv(5, 6, "G", "a"), mkv(12, 14, "", "b")]
        vc = it.apply(ClassTok("VariantIntervalCollection"), [vs], {"variant_collection_id": "vc", "variant_collection_name": "vcn",
                                                                     "qualifiers": {"k": ["v"]}}, None, 0)
        gs = {v_.fields["variant_name"]: v_.fields["guid"] for v_ in vs}
        for sub in (["a"], ["c", "a"], ["b", "c", "a"], ["b"]):
            for extra in ([], [stranger]):
                n += 1
                k, v = run(it, vq, [[gs[x] for x in sub] + extra], {}, vc)
                want = sorted(sub, key=lambda x: {"a": 5, "b": 12, "c": 30}[x])
                got = [x.fields["variant_name"] for x in v.fields["variant_intervals"]] if k == "ok" and isinstance(v, Obj) else v
                if k != "ok" or got != want or v.fields.get("variant_collection_id") != "vc" or str(v.fields.get("guid")) != str(vc.fields.get("guid")):
                    out.append(("variant collection query_by_guids", f"VariantIntervalCollection.query_by_guids({sub}{' + unknown guid' if extra else ''}) -> {k}:{got}; "
                                f"expected the variants {want} under the collection's own id and guid", vq.qual))
        n += 1
        k, v = run(it, vq, [gs["b"]], {}, vc)
        if k != "ok" or [x.fields["variant_name"] for x in v.fields["variant_intervals"]] != ["b"]:
            out.append(("variant collection query_by_guids", f"VariantIntervalCollection.query_by_guids(single UUID) -> {k}", vq.qual))
    return n, out


_WCG = {}


def _runner_cg(repo, fn):
    def work(spec):
        if _WCG.get("repo") is not repo:
            from ..interp import with_cgranges
            _WCG["it"] = with_cgranges(gene_interp(repo, max_steps=10 ** 12))
            _WCG["repo"] = repo
        it = _WCG["it"]
        try:
            n, outs = fn(repo, it, strands(it), spec)
            return n, [(k + " (interval-index path)", m, q) for k, m, q in outs]
        except Uninterpretable as ex:
            return 0, [("uninterpretable", str(ex), f"{AC}._optimized_query_by_position")]
    return work


def rx_index_path(ctx):
    """the optional interval-index implementation of the position query (`_optimized_query_by_position`, taken only when the
    cgranges package is installed - not in this environment, so no test runs it) answers exactly like the coordinate oracle:
    the RK ranges evaluated with HAS_CGRANGES = True through a native model of the index"""
    specs = []
    cuts = [0, 999, 1000, 1001, 4000, 4999, 5000, 5999, 6000, 131000, 131071, 131072, 131073, 131199, 131200, 139999, 140000, 201000, 262144, 262199, 262200, 300000]
    for i, a in enumerate(cuts):
        for b in cuts[i:]:
            if ctx.thorough or (i + cuts.index(b)) % 3 == 0 or a == 0 or b == 300000:
                specs.append(("big", (0, 300000), a, b))
    scuts = [0, 3, 4, 10, 12, 18, 20, 22, 24, 30, 31, 36, 40, 41, len(GENOME)]
    for i, a in enumerate(scuts):
        for b in scuts[i:]:
            if ctx.thorough or (i + scuts.index(b)) % 2 == 0:
                specs.append(("small", None, a, b))
                specs.append(("chunk", None, a, b))
    ctx.r.floor("C09.RX", "position queries through the interval index", len(specs), 80)
    from ..par import pmap
    results = pmap(_runner_cg(ctx.repo, _pos_case), specs)
    _report(ctx, "C09.RX", results, [(f"{AC}._optimized_query_by_position", "membership / bounds / members / sequences as the coordinate oracle says"),
                                     (f"{AC}._build_position_interval_tree", "every child indexed under its chromosome span")])


def rk_position(ctx):
    specs = []
    cuts = [0, 999, 1000, 1001, 4000, 4999, 5000, 5999, 6000, 6001, 130000, 131000, 131071, 131072, 131073, 131199, 131200, 139999, 140000, 199000,
            201000, 262000, 262144, 262199, 262200, 300000]
    for bounds in ((0, 300000), (1000, 262200)):
        cs = [c for c in cuts if True]
        for i, a in enumerate(cs):
            for b in cs[i:]:
                if (cs.index(a) + cs.index(b)) % (1 if ctx.thorough else 2) == 0 or a in (0, 1000) or b in (262200, 300000):
                    specs.append(("big", bounds, a, b))
        specs += [("big", bounds, None, None), ("big", bounds, None, 131072), ("big", bounds, 131072, None),
                  ("big", bounds, -1, 10), ("big", bounds, 5000, 4000)]
    scuts = [0, 3, 4, 10, 12, 18, 20, 22, 24, 30, 31, 36, 40, 41, len(GENOME)]
    for i, a in enumerate(scuts):
        for b in scuts[i:]:
            specs.append(("small", None, a, b))
            if ctx.thorough or (i + scuts.index(b)) % 2 == 0:
                specs.append(("chunk", None, a, b))
                specs.append(("chunkwide", (0, len(GENOME)), a, b))
            # explicit bounds narrower than the members: s1 [4,20) overhangs the left edge, sf [..,36) the right one
            if 8 <= a and b <= 33:
                specs.append(("small", (8, 33), a, b))
    ctx.r.floor("C09.RK", "position queries", len(specs), 150)
    from ..par import pmap
    results = pmap(_runner(ctx.repo, _pos_case), specs)
    _report(ctx, "C09.RK", results, [(f"{AC}.query_by_position", "membership / bounds / retained members / sequences / refusals"),
                                     (f"{AC}._query_by_position", "bin pre-filter never changes the answer on the enumerated ranges"),
                                     (f"{AC}._subset_parent", "member sequences restricted to the new bounds")])


def rk_ids(ctx):
    from ..par import pmap
    results = pmap(_runner(ctx.repo, _id_case), [("guids",), ("interval_guids",), ("identifiers",), ("children",)], min_items=2)
    _report(ctx, "C09.RI", results, [(f"{AC}.{m}", "exact members for every subset") for m in (
        "query_by_guids", "query_by_interval_guids", "query_by_transcript_interval_guids", "query_by_feature_interval_guids",
        "query_by_feature_identifiers")] + [(f"{AC}.get_children_by_type", "the three kinds of children by name"),
                                            ("gene.variants:VariantIntervalCollection.query_by_guids", "exact variants under the collection's identity")])


def r7_union_interface(ctx):
    """attributes read on `child` / `grandchild` in the query code must exist on every member class"""
    r, repo = ctx.r, ctx.repo
    # strengthening: RK interprets the queries on collections holding all three member kinds; this rule extends "no missing
    # attribute" to the query paths RK's ranges do not reach.  It recognises the loop variables by name, so it never alarms.
    r.soften("C09.R7")
    child_classes = ["GeneInterval", "FeatureIntervalCollection", "VariantIntervalCollection"]
    grand_classes = ["TranscriptInterval", "FeatureInterval", "VariantInterval"]

    def defined(cname, attr):
        c = repo.cls(cname)
        for k in repo.mro(c):
            if attr in k.methods or attr in k.attrs or attr in k.annots:
                return True
            init = k.methods.get("__init__")
            if init is not None:
                for n in ast.walk(init.node):
                    if isinstance(n, ast.Attribute) and isinstance(n.ctx, ast.Store) and dotted(n.value) == "self" and n.attr == attr:
                        return True
        return False

    n = 0
    for fn in repo.cls("AnnotationCollection").methods.values():
        if not (fn.name.startswith("query_") or fn.name.startswith("_query") or fn.name.startswith("_optimized")
                or fn.name in ("_child_interval_guid_map", "hierarchical_children_guids", "interval_guids_to_collections")):
            continue
        for node in walk_shallow(fn.node):
            if isinstance(node, ast.Attribute) and isinstance(node.value, ast.Name) and node.value.id in ("child", "grandchild", "interval"):
                classes = child_classes if node.value.id == "child" else grand_classes
                n += 1
                for cname in classes:
                    r.check(defined(cname, node.attr), "C09.R7", fn.qual, f"{node.value.id}.{node.attr} on {cname}",
                            f"`{src(node)}` is read on every collection member, but {cname} does not define `{node.attr}`: "
                            f"AttributeError as soon as such a member is present", (fn, node))
    r.floor("C09.R7", "attribute reads on union members", n, 15)


RULES = [
    ("C09.RK", rk_position),
    ("C09.RX", rx_index_path),
    ("C09.RI", rk_ids),
    ("C09.R7", r7_union_interface),
]
