"""C12 - GenBank export is faithful; writer and parsers agree.

RK  the analyser interprets gene_to_feature / transcripts_to_feature / add_cds_feature / feature_intervals_to_features
    and Location.to_biopython (Biopython's SeqFeature / FeatureLocation / CompoundLocation are modelled as plain
    records) for generated single-strand gene models x {prokaryotic, eukaryotic} flavour x update_translations and
    checks every record: documented type, location = exactly the source blocks (one part per block, unshifted) and
    strand, qualifiers carrying the source identifiers, /translation = independent translation with the flavour's table.
R1  feature-type tables: GENBANK_GENE_FEATURES = union of the gene / transcript / gene-interval enums;
    NonCodingTranscriptFeatures = TranscriptFeatures minus mRNA; every type the writer emits is one the parser
    classifies.
R3  qualifier-key agreement for what the property says is recovered (symbol, locus tag, gene id, transcript id, protein
    id, start frame): every key the parser reads must be emitted by the writer on that feature kind.
R4  the three parse() pipelines run the same stages after their own grouping step."""
import ast

from ..astutil import call_tail, calls_in, dotted, src, walk_shallow
from ..genekernel import chrom_parent, gene_interp, mk_collection, mk_feature, mk_feature_collection, mk_gene, mk_transcript
from ..interp import ClassTok, EnumVal, FakeModule, Obj, Raised, Uninterpretable, module_const
from ..lockernel import run, strands
from .c05 import GENOME, _report, bases, translate_ref, walker
from .c07 import consistent_frames

EXPLANATION = (
    "RK: the GenBank writer's record construction is interpreted (Biopython records modelled as plain data, SeqIO.write "
    "itself is third-party and not analysed) for generated gene models x flavour x update_translations: record types per "
    "flavour (gene; mRNA+CDS or CDS; typed RNA; misc_feature + feat_interval), locations with exactly the source blocks "
    "and strand, identifiers in qualifiers, translations equal to the reference translation under the flavour's table. "
    "R1/R3/R4: structural agreement between writer and parser tables, qualifier keys and pipelines. RP: re-parse leg - the records the writer produced (normalised to what Biopython "
    "hands back after a file round trip: string-valued qualifier lists, location parts) are given to the library's own "
    "Sorted / LocusTag / Hybrid parser classes, interpreted up to GeneFeature.to_gene_model (the marshmallow Schema().load is "
    "modelled): recovered structure, strand, identifiers, frames; the three modes agree. Not decided: Biopython's file "
    "syntax and reader (the file leg is modelled as identity on type / location / qualifiers)."
)

W = "io.genbank.writer"


def bio_hooks(it):
    def feature_location(interp, selfv, args, kwargs):
        a = list(args) + [None] * 3
        return Obj("BioFeatureLocation", start=kwargs.get("start", a[0]), end=kwargs.get("end", a[1]), strand=kwargs.get("strand", a[2]))

    def compound_location(interp, selfv, args, kwargs):
        parts = list(args[0])
        strands_ = {p.fields["strand"] for p in parts}
        return Obj("BioCompoundLocation", parts=parts, strand=next(iter(strands_)) if len(strands_) == 1 else None)

    def seq_feature(interp, selfv, args, kwargs):
        a = list(args) + [None] * 3
        return Obj("BioSeqFeature", location=kwargs.get("location", a[0]), type=kwargs.get("type", a[1]), strand=kwargs.get("strand"),
                   qualifiers={})

    it.hooks["FeatureLocation"] = feature_location
    it.hooks["CompoundLocation"] = compound_location
    it.hooks["SeqFeature"] = seq_feature
    return it


def parts_of(loc):
    if loc.cls_name == "BioFeatureLocation":
        return [(loc.fields["start"], loc.fields["end"], loc.fields["strand"])]
    return [(p.fields["start"], p.fields["end"], p.fields["strand"]) for p in loc.fields["parts"]]


MODELS = [
    dict(id="gA", strand="PLUS", txs=[dict(exons=[(0, 6), (6, 12)], cds=[(0, 6), (6, 12)], f0=0, type="protein_coding")]),   # adjacent blocks
    dict(id="gB", strand="PLUS", txs=[dict(exons=[(13, 27)], cds=[(15, 24)], f0=0, type="protein_coding")]),
    dict(id="gC", strand="MINUS", txs=[dict(exons=[(20, 28), (31, 40)], cds=[(22, 28), (31, 37)], f0=0, type="protein_coding")]),
    dict(id="gD", strand="PLUS", txs=[dict(exons=[(25, 37)], cds=[(25, 37)], f0=0, type="protein_coding")]),               # TTG start
    dict(id="gE", strand="PLUS", txs=[dict(exons=[(1, 12)], cds=[(1, 12)], f0=2, type="protein_coding")]),                 # start frame 2
    dict(id="gF", strand="MINUS", txs=[dict(exons=[(5, 18), (22, 30)], cds=None, f0=0, type="tRNA")]),
    dict(id="gG", strand="PLUS", txs=[dict(exons=[(3, 20)], cds=None, f0=0, type=None)]),
    dict(id="gH", strand="PLUS", txs=[dict(exons=[(0, 24)], cds=[(0, 24)], f0=0, type="protein_coding"),                  # internal stop
                                      dict(exons=[(0, 12)], cds=[(0, 12)], f0=0, type=None)]),
    # several non-coding isoforms: a typed one followed by isoforms without a GenBank feature type of their own -> misc_RNA each
    dict(id="gI", strand="PLUS", txs=[dict(exons=[(3, 20)], cds=None, f0=0, type="tRNA"), dict(exons=[(5, 18)], cds=None, f0=0, type=None),
                                      dict(exons=[(4, 9), (12, 19)], cds=None, f0=0, type=None)]),
]
TX_TYPE = {"protein_coding": "mRNA", "tRNA": "tRNA", None: None}


GENOME2 = GENOME.translate(str.maketrans("ACGT", "CATG"))  # same length, different bases everywhere


def build_gene_obj(it, S, m, par, tx_qualifiers=None, gene_qualifiers=None):
    F, B = it.enum("CDSFrame"), it.enum("Biotype")
    nm = {0: "ZERO", 1: "ONE", 2: "TWO"}
    txs = []
    for i, t in enumerate(m["txs"]):
        kw = dict(qualifiers={k: list(v) for k, v in tx_qualifiers.items()}) if tx_qualifiers else {}
        kw.update(transcript_id=f"{m['id']}.t{i}", transcript_symbol=f"{m['id']}.sym{i}", protein_id=f"{m['id']}.p{i}" if t["cds"] else None,
                  transcript_type=B[t["type"]] if t["type"] else None, sequence_name="chr1", parent_or_seq_chunk_parent=par)
        if t["cds"]:
            fr = consistent_frames(t["cds"], m["strand"], t["f0"])
            txs.append(mk_transcript(it, t["exons"], S[m["strand"]], t["cds"], [F[nm[x]] for x in fr], **kw))
        else:
            txs.append(mk_transcript(it, t["exons"], S[m["strand"]], **kw))
    gkw = dict(qualifiers={k: list(v) for k, v in gene_qualifiers.items()}) if gene_qualifiers else {}
    return mk_gene(it, txs, gene_id=m["id"], gene_symbol=m["id"] + "_symbol", locus_tag=m["id"] + "_lt", sequence_name="chr1",
                   parent_or_seq_chunk_parent=par, **gkw)


def _case(repo, it, S, spec):
    if len(spec) == 4:
        # the same models exported twice in one process, the second time on another sequence: the second file must show
        # the second sequence's proteins (nothing remembered from the first export)
        _case_on(repo, it, S, spec[:3], GENOME)
        n, out = _case_on(repo, it, S, spec[:3], GENOME2)
        return n, [(k + " (second export, other sequence)", msg.replace(": ", " exported after the same models on another sequence: ", 1), q)
                   for k, msg, q in out if k.startswith(("CDS translation", "export", "record types"))]
    if len(spec) == 5:
        n, out = _case_on(repo, it, S, spec[:3], GENOME, stale=True)
        return n, [(k + " (stale source qualifier)", msg, q) for k, msg, q in out if k.startswith(("CDS translation", "export", "record types"))]
    return _case_on(repo, it, S, spec, GENOME)


def _case_on(repo, it, S, spec, genome, stale=False):
    mi, flavor, upd = spec
    out = []
    m = MODELS[mi]
    par = chrom_parent(it, genome, alphabet="NT_EXTENDED")
    # stale: the source transcripts carry a /translation qualifier of their own (e.g. parsed from an older file); a translation
    # written on request is the re-calculated one
    g = build_gene_obj(it, S, m, par, {"translation": ["MSTALE"], "note": ["kept"]} if stale else None)
    f = repo.fn(f"{W}:gene_to_feature")
    desc = f"gene {m['id']} flavor={flavor} update_translations={upd}" + (" (transcripts carry a stale /translation qualifier)" if stale else "")
    table = "PROKARYOTE" if flavor == "PROKARYOTIC" else "DEFAULT"
    k, v = run(it, f, [g, it.enum("GenbankFlavor")[flavor], True, it.enum("TranslationTable")[table], upd], {}, None)
    if k != "ok":
        return 1, [("export", f"{desc}: gene_to_feature raises {v}", f.qual)]
    recs = it.iterate(v)
    # the records must not depend on the hash seed: built and exported with every set iterated in the opposite order they are the same
    if not stale:
        from ..interp import other_hash_seed
        def shown_rec(r_):
            return (r_.fields["type"], sorted(parts_of(r_.fields["location"])), r_.fields.get("strand"),
                    [(k_, list(v_) if isinstance(v_, (list, tuple)) else v_) for k_, v_ in r_.fields["qualifiers"].items()])
        try:
            with other_hash_seed():
                g2 = build_gene_obj(it, S, m, par, {"note": ["n2", "n1", "n3"], "db_xref": ["b:2", "a:1"]})
                k2, v2 = run(it, f, [g2, it.enum("GenbankFlavor")[flavor], True, it.enum("TranslationTable")[table], upd], {}, None)
                recs2 = [shown_rec(x) for x in it.iterate(v2)] if k2 == "ok" else v2
            g1 = build_gene_obj(it, S, m, par, {"note": ["n2", "n1", "n3"], "db_xref": ["b:2", "a:1"]})
            k1, v1 = run(it, f, [g1, it.enum("GenbankFlavor")[flavor], True, it.enum("TranslationTable")[table], upd], {}, None)
            recs1 = [shown_rec(x) for x in it.iterate(v1)] if k1 == "ok" else v1
            if (k1, recs1) != (k2, recs2):
                d_ = [(a, b) for a, b in zip(recs1, recs2) if a != b][:1] if k1 == k2 == "ok" else (k1, k2)
                out.append(("records independent of the hash seed", f"{desc}: with multi-valued qualifiers, every set iterated in the opposite order gives "
                            f"other records: {d_}", f.qual))
        except Raised as ex:
            out.append(("records independent of the hash seed", f"{desc}: raises {ex.exc_name} with multi-valued qualifiers", f.qual))
        # the identifiers of the source object win over free-form qualifiers that use the same reserved keys (a model parsed from
        # an older file and re-tagged since): every record carries exactly the current locus tag and symbol
        g4 = build_gene_obj(it, S, m, par, {"locus_tag": ["OLD_TX_TAG"], "gene": ["old_symbol"]}, {"locus_tag": ["OLD_TAG"], "gene": ["old_symbol"], "note": ["kept"]})
        k4, v4 = run(it, f, [g4, it.enum("GenbankFlavor")[flavor], True, it.enum("TranslationTable")[table], upd], {}, None)
        if k4 != "ok":
            out.append(("source identifiers win over reserved qualifier keys", f"{desc}: with free-form /locus_tag and /gene qualifiers gene_to_feature raises {v4}", f.qual))
        else:
            for r4 in it.iterate(v4):
                q4 = r4.fields["qualifiers"]
                if list(q4.get("locus_tag", [])) != [m["id"] + "_lt"] or list(q4.get("gene", [])) != [m["id"] + "_symbol"]:
                    out.append(("source identifiers win over reserved qualifier keys", f"{desc}: the source objects also carry free-form qualifiers "
                                f"locus_tag=OLD_TAG / gene=old_symbol; the {r4.fields['type']} record is written with /locus_tag {list(q4.get('locus_tag', []))} "
                                f"/gene {list(q4.get('gene', []))}; the object's identifiers are {m['id']}_lt / {m['id']}_symbol", f.qual))
                    break
        # force_strand only matters for transcripts on another strand than their gene: on these single-strand models the
        # records are the same with and without it (no transcript skipped)
        g3 = build_gene_obj(it, S, m, par, None)
        k3, v3 = run(it, f, [g3, it.enum("GenbankFlavor")[flavor], False, it.enum("TranslationTable")[table], upd], {}, None)
        recs3 = [shown_rec(x) for x in it.iterate(v3)] if k3 == "ok" else v3
        if k3 != "ok" or recs3 != [shown_rec(x) for x in recs]:
            out.append(("records with force_strand=False", f"{desc}: with force_strand=False the records are "
                        f"{[x[0] for x in recs3] if k3 == 'ok' else recs3}; with force_strand=True {[x.fields['type'] for x in recs]} (every transcript "
                        f"is on the strand of its gene)", f"{W}:transcripts_to_feature"))
    sval = {"PLUS": 1, "MINUS": -1}[m["strand"]]
    want = [("gene", [(min(t["exons"][0][0] for t in m["txs"]), max(t["exons"][-1][1] for t in m["txs"]))], None)]
    for t in m["txs"]:
        ty = TX_TYPE.get(t["type"])
        if ty is None:
            ty = "mRNA" if t["cds"] else "misc_RNA"
        if ty == "mRNA" and flavor == "PROKARYOTIC":
            want.append(("CDS", t["cds"], t))
        else:
            want.append((ty, t["exons"], t))
            if ty == "mRNA" and flavor == "EUKARYOTIC":
                want.append(("CDS", t["cds"], t))
    got_types = [r_.fields["type"] for r_ in recs]
    if got_types != [w[0] for w in want]:
        return 1, [("record types", f"{desc}: records {got_types}; documented for this flavour: {[w[0] for w in want]}", f.qual)]
    for r_, (ty, blocks, t) in zip(recs, want):
        ps = parts_of(r_.fields["location"])
        qn = {"gene": f"{W}:gene_to_feature", "CDS": f"{W}:add_cds_feature"}.get(ty, f"{W}:transcripts_to_feature")
        got_blocks = sorted((a, b) for a, b, _s in ps)
        if ty == "gene":
            if got_blocks != blocks:
                out.append(("gene location", f"{desc}: gene record location {got_blocks}; gene span is {blocks}", qn))
        elif got_blocks != sorted(blocks):
            out.append((f"{ty} location", f"{desc}: {ty} record has blocks {got_blocks}; the source blocks are {sorted(blocks)}", "location.location_impl:CompoundInterval.to_compound_location"))
        st = r_.fields.get("strand")
        if st != sval or (ty != "gene" and any(s_ != sval for _a, _b, s_ in ps)):
            out.append((f"{ty} strand", f"{desc}: {ty} record strand {st} / part strands {[s_ for _a, _b, s_ in ps]}; source strand is {sval}", qn))
        q = r_.fields["qualifiers"]
        need = {"gene": [m["id"] + "_symbol"], "locus_tag": [m["id"] + "_lt"]}
        if ty == "gene":
            need["gene_id"] = [m["id"]]
        else:
            need["transcript_id"] = [f"{m['id']}.t{m['txs'].index(t)}"]
            if ty == "CDS":
                need["protein_id"] = [f"{m['id']}.p{m['txs'].index(t)}"]
        for key, val in need.items():
            if list(q.get(key, [])) != val:
                out.append((f"{ty} qualifier {key}", f"{desc}: {ty} record /{key} = {q.get(key)}; source identifier is {val}", qn))
        if ty == "CDS":
            mc = t["cds"]
            fr = consistent_frames(mc, m["strand"], t["f0"])
            seq = "".join(bases(c, m["strand"], genome) for c in walker(mc, m["strand"], fr))
            wt = translate_ref(seq, table)
            if upd:
                if list(q.get("translation", [])) != [wt]:
                    out.append(("CDS translation", f"{desc}: /translation = {q.get('translation')}; translation of the CDS with the {flavor.lower()} table is {wt!r}", qn))
            elif "translation" in q and not stale:
                out.append(("CDS translation", f"{desc}: /translation written although not requested", qn))
            if t["f0"] != 0 and list(q.get("codon_start", [])) != [t["f0"] + 1] and list(q.get("codon_start", [])) != [str(t["f0"] + 1)]:
                out.append(("CDS codon_start", f"{desc}: start frame {t['f0']} but /codon_start = {q.get('codon_start')}: the parser reads the start frame from codon_start", qn))
        elif ty != "gene" and ("translation" in q or "protein_id" in q):
            out.append((f"{ty} qualifiers", f"{desc}: transcript-level record carries protein_id / translation", qn))
    return len(recs), out


# ---------------------------------------------------------------------------------------------------------
# RP: re-parse leg - the library's own GenBank parser classes interpreted on the records the writer produced
# ---------------------------------------------------------------------------------------------------------

def _as_read_back(it, rec):
    """a feature record as Biopython hands it back after a file round trip (the API the parser was written against):
    qualifier values are lists of strings; locations expose parts / nofuzzy_start / nofuzzy_end; strand from the location"""
    def loc_of(loc):
        if loc.cls_name == "BioFeatureLocation":
            o = Obj("BioFeatureLocation", start=loc.fields["start"], end=loc.fields["end"], strand=loc.fields["strand"],
                    nofuzzy_start=loc.fields["start"], nofuzzy_end=loc.fields["end"])
            o.fields["parts"] = [o]
            return o
        parts = [loc_of(p_) for p_ in loc.fields["parts"]]
        strands_ = {p_.fields["strand"] for p_ in parts}
        lo, hi = min(p_.fields["start"] for p_ in parts), max(p_.fields["end"] for p_ in parts)
        return Obj("BioCompoundLocation", parts=parts, strand=next(iter(strands_)) if len(strands_) == 1 else None, start=lo, end=hi,
                   nofuzzy_start=lo, nofuzzy_end=hi)
    loc = loc_of(rec.fields["location"])
    quals = {}
    for k, v in rec.fields["qualifiers"].items():
        vals = list(it.iterate(v)) if not isinstance(v, (str, int)) else [v]
        quals[str(k)] = [str(x.value) if hasattr(x, "value") and not isinstance(x, (str, int)) else str(x) for x in vals]
    return Obj("BioSeqFeature", location=loc, type=rec.fields["type"], strand=loc.fields["strand"], qualifiers=quals, id="<unknown id>")


class _SchemaModel:
    """stand-in for the marshmallow-dataclass Schema of an io.models class: load() = field check + typed construction"""
    _interp_native_ = True

    def __init__(self, it, repo, mname):
        self.it, self.repo, self.mname = it, repo, mname

    def load(self, d):
        from .c08 import schema_load
        try:
            return schema_load(self.it, self.repo, self.mname, d)
        except ValueError as ex:
            raise Raised("ValidationError", str(ex))


def written_features(repo, it, S, ms, flavor):
    """the feature records gene_to_feature writes for the models `ms` (in that order), as Biopython hands them back"""
    par = chrom_parent(it, GENOME, alphabet="NT_EXTENDED")
    table = "PROKARYOTE" if flavor == "PROKARYOTIC" else "DEFAULT"
    f = repo.fn(f"{W}:gene_to_feature")
    feats = []
    for m in ms:
        g = build_gene_obj(it, S, m, par)
        k, v = run(it, f, [g, it.enum("GenbankFlavor")[flavor], True, it.enum("TranslationTable")[table], False], {}, None)
        if k != "ok":
            raise Raised(v)
        feats += [_as_read_back(it, r_) for r_ in it.iterate(v)]
    return feats


def parse_with(repo, it, pname, feats):
    """gene models (plain dicts, in chromosome order) the parser class `pname` recovers from the records; ('raise', name) if it
    refuses them"""
    from .c08 import plain
    P = "io.genbank.parser"
    record = Obj("BioSeqRecord", id="chr1", name="chr1", features=[_copy_feature(x) for x in feats], seq=GENOME)

    def stop_export(interp, selfv, args, kwargs):
        from ..interp import _Gen
        return _Gen([])
    it.hooks[f"{P}:BaseGenBankParser._export_annotation_collections"] = stop_export
    for mname in ("GeneIntervalModel", "FeatureIntervalCollectionModel", "AnnotationCollectionModel"):
        it.hooks[f"{mname}.Schema"] = (lambda interp, selfv, args, kwargs, mname=mname: _SchemaModel(it, repo, mname))
    try:
        to_model = ("bound", repo.fn(f"{P}:GeneFeature.to_gene_model"), None)
        to_fmodel = ("bound", repo.fn(f"{P}:FeatureIntervalGenBankCollection.to_feature_model"), None)
        parser = it.apply(ClassTok(pname), [[record], None, to_model, to_fmodel], {}, None, 0)
        k, v = run(it, repo.fn(f"{P}:{pname}.parse"), [], {}, parser)
        if k == "ok":
            it.iterate(v)
        else:
            return ("raise", v)
        genes = sorted(parser.fields["genes"][0], key=lambda gfeat: gfeat.fields["_seq_feature"].fields["location"].fields["nofuzzy_start"])
        dicts = []
        for gfeat in genes:
            k, d = run(it, repo.fn(f"{P}:GeneFeature.to_gene_model"), [gfeat], {}, None)
            if k != "ok":
                return ("raise", d)
            dicts.append(plain(d))
        return dicts
    except Raised as ex:
        return ("raise", ex.exc_name)
    finally:
        it.hooks.pop(f"{P}:BaseGenBankParser._export_annotation_collections", None)


def _reparse_case(repo, it, S, spec):
    idxs, flavor = spec
    from .c08 import plain
    out = []
    n = 0
    par = chrom_parent(it, GENOME, alphabet="NT_EXTENDED")
    ms = sorted((MODELS[i] for i in idxs), key=lambda m: min(t["exons"][0][0] for t in m["txs"]))
    table = "PROKARYOTE" if flavor == "PROKARYOTIC" else "DEFAULT"
    f = repo.fn(f"{W}:gene_to_feature")
    feats = []
    for m in ms:
        g = build_gene_obj(it, S, m, par)
        k, v = run(it, f, [g, it.enum("GenbankFlavor")[flavor], True, it.enum("TranslationTable")[table], False], {}, None)
        if k != "ok":
            return 1, [("export", f"gene {m['id']} flavor={flavor}: gene_to_feature raises {v}", f.qual)]
        feats += [_as_read_back(it, r_) for r_ in it.iterate(v)]
    answers = {}
    P = "io.genbank.parser"
    for pname in ("SortedGenBankParser", "LocusTagGenBankParser", "HybridGenBankParser"):
        record = Obj("BioSeqRecord", id="chr1", name="chr1", features=[_copy_feature(x) for x in feats], seq=GENOME)
        desc = f"genes {[m['id'] for m in ms]} flavor={flavor} parser={pname}"
        captured = {}

        def stop_export(interp, selfv, args, kwargs, captured=captured):
            captured["parser"] = selfv
            from ..interp import _Gen
            return _Gen([])
        it.hooks[f"{P}:BaseGenBankParser._export_annotation_collections"] = stop_export
        for mname in ("GeneIntervalModel", "FeatureIntervalCollectionModel", "AnnotationCollectionModel"):
            it.hooks[f"{mname}.Schema"] = (lambda interp, selfv, args, kwargs, mname=mname: _SchemaModel(it, repo, mname))
        n += 1
        try:
            to_model = ("bound", repo.fn(f"{P}:GeneFeature.to_gene_model"), None)
            to_fmodel = ("bound", repo.fn(f"{P}:FeatureIntervalGenBankCollection.to_feature_model"), None)
            parser = it.apply(ClassTok(pname), [[record], None, to_model, to_fmodel], {}, None, 0)
            k, v = run(it, repo.fn(f"{P}:{pname}.parse"), [], {}, parser)
            if k == "ok":
                it.iterate(v)
        except Raised as ex:
            k, v = "raise", ex.exc_name
        if k != "ok":
            out.append((f"re-parse ({pname})", f"{desc}: parsing the written records raises {v}", f"{P}:{pname}.parse"))
            continue
        genes = sorted(parser.fields["genes"][0], key=lambda gfeat: gfeat.fields["_seq_feature"].fields["location"].fields["nofuzzy_start"])
        dicts = []
        for gfeat in genes:
            k, d = run(it, repo.fn(f"{P}:GeneFeature.to_gene_model"), [gfeat], {}, None)
            if k != "ok":
                out.append((f"gene model ({pname})", f"{desc}: to_gene_model raises {d}", f"{P}:GeneFeature.to_gene_model"))
                dicts = None
                break
            dicts.append(plain(d))
        if dicts is None:
            continue
        answers[pname] = dicts
        if len(dicts) != len(ms):
            out.append((f"number of genes ({pname})", f"{desc}: {len(dicts)} genes recovered; {len(ms)} were written", f"{P}:{pname}.parse"))
            continue
        for m, d in zip(ms, dicts):
            gd = f"{desc} gene {m['id']}"
            q = f"{P}:GeneFeature.to_gene_model"
            for key, want in (("gene_symbol", m["id"] + "_symbol"), ("locus_tag", m["id"] + "_lt"), ("gene_id", m["id"])):
                if d.get(key) != want:
                    out.append((f"recovered {key}", f"{gd}: {key} = {d.get(key)!r}; written {want!r}", q))
            txs = d.get("transcripts") or []
            coding_tx = [t for t in m["txs"] if t["cds"]]
            # prokaryotic flavour writes no mRNA record for coding transcripts: the CDS structure stands for the transcript
            want_tx = []
            for t in m["txs"]:
                ty = TX_TYPE.get(t["type"]) or ("mRNA" if t["cds"] else "misc_RNA")
                if ty == "mRNA" and flavor == "PROKARYOTIC":
                    want_tx.append((sorted(t["cds"]), sorted(t["cds"]), t))
                else:
                    want_tx.append((sorted(t["exons"]), sorted(t["cds"]) if t["cds"] else None, t))
            if len(txs) != len(want_tx):
                out.append(("recovered transcripts", f"{gd}: {len(txs)} transcripts recovered; {len(want_tx)} written", q))
                continue
            for td, (wex, wcds, t) in zip(txs, want_tx):
                # blocks separated by a 0-bp gap are one block after the file round trip (the parser intersects the CDS with the
                # transcript span, which normalises adjacent blocks): structures are compared after merging adjacent blocks
                gex = _merge_adjacent(zip(td.get("exon_starts") or [], td.get("exon_ends") or []))
                gcds = _merge_adjacent(zip(td.get("cds_starts") or [], td.get("cds_ends") or [])) if td.get("cds_starts") else None
                wex, wcds = _merge_adjacent(wex), (_merge_adjacent(wcds) if wcds else None)
                if gex != wex:
                    out.append(("recovered exon structure", f"{gd}: exons {gex}; written {wex}", q))
                if gcds != wcds:
                    out.append(("recovered CDS structure", f"{gd}: CDS {gcds}; written {wcds}", q))
                if td.get("strand") != m["strand"]:
                    out.append(("recovered strand", f"{gd}: strand {td.get('strand')}; written {m['strand']}", q))
                i = m["txs"].index(t)
                if td.get("transcript_id") != f"{m['id']}.t{i}":
                    out.append(("recovered transcript_id", f"{gd}: transcript_id {td.get('transcript_id')!r}; written {m['id']}.t{i}", q))
                if t["cds"] and td.get("protein_id") != f"{m['id']}.p{i}":
                    out.append(("recovered protein_id", f"{gd}: protein_id {td.get('protein_id')!r}; written {m['id']}.p{i}", q))
                if t["cds"] and len(td.get("cds_frames") or []) == len(t["cds"]):
                    wfr = [["ZERO", "ONE", "TWO"][x] for x in consistent_frames(t["cds"], m["strand"], t["f0"])]
                    if list(td.get("cds_frames") or []) != wfr:
                        key = "recovered frames" if t["f0"] == 0 else "recovered start frame (nonzero start frame)"
                        out.append((key, f"{gd}: frames {td.get('cds_frames')}; written {wfr}"
                                    + ("" if t["f0"] == 0 else " (the start frame travels in /codon_start, which the writer never emits)"), q))
    it.hooks.pop(f"{P}:BaseGenBankParser._export_annotation_collections", None)
    if len(answers) == 3:
        n += 1
        ref = answers["SortedGenBankParser"]
        for pname in ("LocusTagGenBankParser", "HybridGenBankParser"):
            if answers[pname] != ref:
                from .c08 import _diff
                out.append(("parser modes agree", f"genes {[m['id'] for m in ms]} flavor={flavor}: {pname} and the sorted parser recover different "
                            f"gene models from a position-sorted file with unique locus tags: {_diff(ref, answers[pname])}", f"{P}:{pname}.parse"))
    return n, out


def _merge_adjacent(blocks):
    out = []
    for s_, e in sorted(blocks):
        if out and out[-1][1] == s_:
            out[-1][1] = e
        else:
            out.append([s_, e])
    return [tuple(b) for b in out]


def _copy_feature(x):
    """fresh record objects for each parser run (the parsers retype features in place)"""
    def cp(o):
        if isinstance(o, Obj):
            if o.cls_name == "BioFeatureLocation":
                n_ = Obj(o.cls_name, **{k: v for k, v in o.fields.items() if k != "parts"})
                n_.fields["parts"] = [n_]
                return n_
            return Obj(o.cls_name, **{k: cp(v) for k, v in o.fields.items()})
        if isinstance(o, list):
            return [cp(v) for v in o]
        if isinstance(o, dict):
            return {k: cp(v) for k, v in o.items()}
        return o
    return cp(x)


def rp_reparse(ctx):
    specs = []
    # single-isoform genes (a GenBank file cannot pair several mRNA / CDS records of one gene; the parser documents that it keeps
    # the first transcript), one strand per file as the property states
    single_strand_sets = [(0, 1, 3), (2, 5), (0, 1, 3, 6), (1,), (5,), (2,), (3, 6), (4,), (4, 3)]
    for idxs in single_strand_sets:
        for fl in ("PROKARYOTIC", "EUKARYOTIC"):
            specs.append((idxs, fl))
    ctx.r.floor("C12.RP", "re-parse cases", len(specs), 10)
    from ..par import pmap
    results = pmap(_runner(ctx.repo, _reparse_case), specs, min_items=2)
    P = "io.genbank.parser"
    _report(ctx, "C12.RP", results, [(f"{P}:GeneFeature.to_gene_model", "gene models recovered from the written records"),
                                     (f"{P}:SortedGenBankParser.parse", "position-sorted grouping"),
                                     (f"{P}:LocusTagGenBankParser.parse", "locus-tag grouping agrees with the sorted parser"),
                                     (f"{P}:HybridGenBankParser.parse", "hybrid grouping agrees with the sorted parser")])


def _fc_case(repo, it, S, spec):
    strand, = spec
    out = []
    par = chrom_parent(it, GENOME, alphabet="NT_EXTENDED")
    feats = [mk_feature(it, [(4, 9), (9, 15)], S[strand], feature_name="f0", feature_id="fid0", sequence_name="chr1", parent_or_seq_chunk_parent=par),
             mk_feature(it, [(20, 26)], S[strand], feature_name="f1", sequence_name="chr1", parent_or_seq_chunk_parent=par)]
    fc = mk_feature_collection(it, feats, feature_collection_name="fcn", locus_tag="fclt", sequence_name="chr1", parent_or_seq_chunk_parent=par)
    f = repo.fn(f"{W}:gene_to_feature")
    k, v = run(it, f, [fc, it.enum("GenbankFlavor")["PROKARYOTIC"], True, it.enum("TranslationTable")["DEFAULT"], False], {}, None)
    if k != "ok":
        return 1, [("export", f"feature collection {strand}: raises {v}", f.qual)]
    recs = it.iterate(v)
    types = [r_.fields["type"] for r_ in recs]
    if types != ["misc_feature", "feat_interval", "feat_interval"]:
        return 1, [("record types", f"feature collection {strand}: records {types}", f.qual)]
    sval = {"PLUS": 1, "MINUS": -1}[strand]
    for r_, blocks in zip(recs[1:], ([(4, 9), (9, 15)], [(20, 26)])):
        got = sorted((a, b) for a, b, _ in parts_of(r_.fields["location"]))
        if got != blocks or r_.fields["strand"] != sval:
            out.append(("feat_interval location", f"feature collection {strand}: feat_interval blocks {got} strand {r_.fields['strand']}; source {blocks} strand {sval}", f"{W}:feature_intervals_to_features"))
        if list(r_.fields["qualifiers"].get("locus_tag", [])) != ["fclt"] or list(r_.fields["qualifiers"].get("gene", [])) != ["fcn"]:
            out.append(("feat_interval qualifiers", f"feature collection {strand}: feat_interval /gene,/locus_tag = {r_.fields['qualifiers'].get('gene')},{r_.fields['qualifiers'].get('locus_tag')}", f"{W}:feature_intervals_to_features"))
    return len(recs), out


class SeqIOSink(FakeModule):
    """Bio.SeqIO as the writer uses it: write(records, handle, format) - the records handed over are kept for inspection"""

    def __init__(self):
        self.written = []

    def write(self, records, handle, format=None):
        self.written.append((list(records), handle, format))
        return len(self.written[-1][0])


def _collections_case(repo, it, S, spec):
    """collection_to_genbank itself (SeqRecord / Seq / SeqIO.write modelled): several collections in one call give one record
    each, holding that collection's sequence and exactly the feature records of that collection exported alone"""
    flavor, as_tuple, order = spec
    out = []
    f = repo.fn(f"{W}:collection_to_genbank")

    def seq_record(interp, selfv, args, kwargs):
        return Obj("BioSeqRecord", seq=args[0] if args else kwargs.get("seq"), name=kwargs.get("name"), id=kwargs.get("id"),
                   description=kwargs.get("description"), features=[], annotations={})
    it.hooks["SeqRecord"] = seq_record
    it.hooks["Seq"] = lambda interp, selfv, args, kwargs: str(args[0])
    groups = [(GENOME, [0, 2]), (GENOME2, [1, 5]), (GENOME, [3])]
    groups = [groups[i] for i in order]

    def collection(genome, idxs, name):
        par = chrom_parent(it, genome, seq_id=name, alphabet="NT_EXTENDED")
        genes = []
        for i in idxs:
            g = build_gene_obj(it, S, MODELS[i], par)
            genes.append(g)
        return mk_collection(it, genes, None, sequence_name=name, parent_or_seq_chunk_parent=par)

    def shown(rec):
        return (rec.fields["type"], sorted(parts_of(rec.fields["location"])), rec.fields.get("strand"),
                sorted((k, tuple(v) if isinstance(v, (list, tuple)) else v) for k, v in rec.fields["qualifiers"].items()))
    cols = [collection(gn, idxs, f"seq{j}") for j, (gn, idxs) in enumerate(groups)]
    alone = []
    for c in cols:
        sink = SeqIOSink()
        it.overrides["SeqIO"] = sink
        k, v = run(it, f, [[c], "sink"], {"genbank_type": it.enum("GenbankFlavor")[flavor], "update_translations": True}, None)
        if k != "ok" or len(sink.written) != 1 or len(sink.written[0][0]) != 1:
            return 1, [("export", f"collection_to_genbank of one collection ({flavor}) -> {k}:{v if k != 'ok' else len(sink.written)}", f.qual)]
        alone.append(sink.written[0][0][0])
    sink = SeqIOSink()
    it.overrides["SeqIO"] = sink
    arg = tuple(cols) if as_tuple else list(cols)
    k, v = run(it, f, [arg, "sink"], {"genbank_type": it.enum("GenbankFlavor")[flavor], "update_translations": True}, None)
    desc = f"collection_to_genbank({'tuple' if as_tuple else 'list'} of {len(cols)} collections, {flavor})"
    if k != "ok" or len(sink.written) != 1:
        return 1, [("export", f"{desc} -> {k}:{v}", f.qual)]
    recs = sink.written[0][0]
    if len(recs) != len(cols):
        return 1, [("one record per collection", f"{desc}: {len(recs)} records handed to SeqIO.write", f.qual)]
    for j, (rec, ref, (gn, idxs)) in enumerate(zip(recs, alone, groups)):
        if rec.fields["seq"] != gn or rec.fields["name"] != f"seq{j}":
            out.append(("record sequence", f"{desc}: record {j} holds sequence {rec.fields['seq'][:12]}.. named {rec.fields['name']}; collection {j} "
                        f"has {gn[:12]}.. named seq{j}", f.qual))
        a, b = [shown(x) for x in rec.fields["features"]], [shown(x) for x in ref.fields["features"]]
        if a != b:
            out.append(("records of a joint export = records of each collection exported alone",
                        f"{desc}: record {j} carries {len(a)} feature records {[x[0] for x in a]}; collection {j} exported alone gives {len(b)}: "
                        f"{[x[0] for x in b]}", f.qual))
    # the record holds the collection's whole sequence, whatever the collection's own bounds are (bounds narrower than the sequence:
    # given explicitly, or inferred from the members)
    n_extra = 0
    par = chrom_parent(it, GENOME, seq_id="chrN", alphabet="NT_EXTENDED")
    g = build_gene_obj(it, S, MODELS[1], par)
    for how, kw in (("explicit bounds 5..45", dict(start=5, end=45)), ("bounds inferred from the members", {})):
        n_extra += 1
        try:
            col = mk_collection(it, [g], None, sequence_name="chrN", parent_or_seq_chunk_parent=par, **kw)
        except Raised as ex:
            out.append(("export", f"collection with {how}: construction raises {ex.exc_name}", f.qual))
            continue
        sink = SeqIOSink()
        it.overrides["SeqIO"] = sink
        k, v = run(it, f, [[col], "sink"], {"genbank_type": it.enum("GenbankFlavor")[flavor]}, None)
        got = sink.written[0][0][0].fields["seq"] if k == "ok" and sink.written and sink.written[0][0] else v
        if k != "ok" or got != GENOME:
            out.append(("record sequence is the whole sequence", f"collection_to_genbank of a collection with {how} ({flavor}): the record holds "
                        f"{k}:{str(got)[:20]}.. ({len(got) if isinstance(got, str) else '-'} bases); the collection's sequence has {len(GENOME)} bases "
                        f"(features keep chromosome coordinates, so a cut sequence puts them on the wrong bases)", f.qual))
    # record annotations: one dictionary per collection reaches that collection's record; molecule_type is filled in when absent
    # or empty and kept when given; a list of another length is refused with the documented error
    colA = mk_collection(it, [g], None, sequence_name="chrN", parent_or_seq_chunk_parent=par)
    for how, anns, want_mt in (("no annotations", None, ["DNA"]), ("annotations without molecule_type", [{"topology": "circular"}], ["DNA"]),
                               ("annotations with an empty molecule_type", [{"molecule_type": ""}], ["DNA"]),
                               ("annotations with molecule_type RNA", [{"molecule_type": "RNA", "topology": "linear"}], ["RNA"])):
        n_extra += 1
        sink = SeqIOSink()
        it.overrides["SeqIO"] = sink
        k, v = run(it, f, [[colA], "sink"], {"genbank_type": it.enum("GenbankFlavor")[flavor], "seqrecord_annotations": anns}, None)
        if k != "ok" or not sink.written or not sink.written[0][0]:
            out.append(("record annotations", f"collection_to_genbank with {how} ({flavor}) -> {k}:{v}", f.qual))
            continue
        ann = sink.written[0][0][0].fields["annotations"]
        got_mt = [ann.get("molecule_type")] if isinstance(ann, dict) else ann
        if got_mt != want_mt or (anns and any(ann.get(k_) != v_ for k_, v_ in anns[0].items() if k_ != "molecule_type")):
            out.append(("record annotations", f"collection_to_genbank with {how} ({flavor}): the record carries annotations {ann}; expected "
                        f"molecule_type {want_mt[0]!r} and the supplied entries", f.qual))
    n_extra += 1
    sink = SeqIOSink()
    it.overrides["SeqIO"] = sink
    k, v = run(it, f, [[colA], "sink"], {"genbank_type": it.enum("GenbankFlavor")[flavor], "seqrecord_annotations": [{"a": 1}, {"b": 2}]}, None)
    if not (k == "raise" and v == "GenBankExportError"):
        out.append(("record annotations", f"collection_to_genbank with two annotation dictionaries for one collection ({flavor}) -> {k}:{v}; "
                    f"documented GenBankExportError", f.qual))
    # a collection derived by incorporating a variant is exported on ITS sequence (the alternative haplotype)
    n_extra += 1
    try:
        var = it.apply(ClassTok("VariantInterval"), [16, 17, "G", "SNV"], {"parent_or_seq_chunk_parent": par, "variant_name": "v"}, None, 0)
        col = mk_collection(it, [g], None, sequence_name="chrN", parent_or_seq_chunk_parent=par)
        kd, derived = run(it, repo.fn("gene.collections:AnnotationCollection.incorporate_variants"), [var], {}, col)
        if kd == "ok":
            sink = SeqIOSink()
            it.overrides["SeqIO"] = sink
            k, v = run(it, f, [[derived], "sink"], {"genbank_type": it.enum("GenbankFlavor")[flavor], "update_translations": True}, None)
            alt = GENOME[:16] + "G" + GENOME[17:]
            got = sink.written[0][0][0].fields["seq"] if k == "ok" and sink.written and sink.written[0][0] else v
            if k != "ok" or got != alt:
                out.append(("record sequence of a derived collection", f"collection_to_genbank of a collection derived by incorporate_variants(SNV 16 "
                            f"{GENOME[16]}>G) ({flavor}): record sequence {k}:{str(got)[:24]}..; the alternative sequence is {alt[:24]}..", f.qual))
    except Raised:
        pass
    return sum(len(r_.fields["features"]) for r_ in recs) + n_extra, out


_W = {}


def _runner(repo, fn):
    def work(spec):
        if _W.get("repo") is not repo:
            _W["it"] = bio_hooks(gene_interp(repo, max_steps=10 ** 12))
            _W["repo"] = repo
        it = _W["it"]
        try:
            return fn(repo, it, strands(it), spec)
        except Uninterpretable as ex:
            return 0, [("uninterpretable", str(ex), f"{W}:gene_to_feature")]
    return work


def rk_writer(ctx):
    specs = [(i, fl, upd) for i in range(len(MODELS)) for fl in ("PROKARYOTIC", "EUKARYOTIC") for upd in (False, True)]
    specs += [(i, fl, True, "second") for i in range(len(MODELS)) for fl in ("PROKARYOTIC", "EUKARYOTIC")]
    specs += [(i, fl, True, "stale", None) for i in range(len(MODELS)) if any(t["cds"] for t in MODELS[i]["txs"]) for fl in ("PROKARYOTIC", "EUKARYOTIC")]
    from ..par import pmap
    results = pmap(_runner(ctx.repo, _case), specs, min_items=4)
    results += pmap(_runner(ctx.repo, _fc_case), [("PLUS",), ("MINUS",)], min_items=4)
    results += pmap(_runner(ctx.repo, _collections_case), [(fl, tp, order) for fl in ("PROKARYOTIC", "EUKARYOTIC") for tp in (False, True)
                                                           for order in ((0, 1), (1, 0, 2))], min_items=4)
    _report(ctx, "C12.RK", results, [(f"{W}:gene_to_feature", "record types / locations / identifiers"),
                                     (f"{W}:transcripts_to_feature", "flavour-dependent transcript records"),
                                     (f"{W}:add_cds_feature", "CDS record and translation"),
                                     (f"{W}:feature_intervals_to_features", "feature records"),
                                     (f"{W}:collection_to_genbank", "one record per collection, each with its own sequence and features"),
                                     ("location.location_impl:CompoundInterval.to_compound_location", "one part per block, unshifted")])


def r1_tables(ctx):
    r, repo = ctx.r, ctx.repo
    it = gene_interp(repo)
    m = "io.genbank.constants"
    lit = set(module_const(it, m, "GENBANK_GENE_FEATURES"))
    vals = lambda e: {x.value for x in it.enum(e).values()}  # noqa: E731
    union = vals("GeneFeatures") | vals("TranscriptFeatures") | vals("GeneIntervalFeatures")
    where = (repo.module(m).relpath, repo.const(m, "GENBANK_GENE_FEATURES"))
    r.check(lit == union, "C12.R1", f"{m}:GENBANK_GENE_FEATURES", "= gene + transcript + gene-interval feature types",
            f"GENBANK_GENE_FEATURES {sorted(lit)} != union of the enums {sorted(union)}: a type the writer emits would be parsed as a generic feature", where)
    r.check(vals("NonCodingTranscriptFeatures") == vals("TranscriptFeatures") - {"mRNA"}, "C12.R1", f"{m}:NonCodingTranscriptFeatures",
            "= TranscriptFeatures minus mRNA", f"{sorted(vals('NonCodingTranscriptFeatures'))} vs {sorted(vals('TranscriptFeatures') - {'mRNA'})}", repo.cls("NonCodingTranscriptFeatures"))
    # every type the writer can emit for genes is classified by the parser
    emitted = vals("GeneFeatures") | vals("TranscriptFeatures") | {"CDS"}
    r.check(emitted <= lit, "C12.R1", f"{m}:GENBANK_GENE_FEATURES", "covers every type the writer emits", f"writer types {sorted(emitted - lit)} are not gene features for the parser", where)
    S = it.enum("Strand")
    r.check({k: v.value for k, v in S.items()} == {"PLUS": 1, "MINUS": -1, "UNSTRANDED": 0}, "C12.R1", "location.strand:Strand", "Biopython strand integers",
            "Strand values are not Biopython's 1 / -1 / 0", repo.cls("Strand"))


def r3_qualifier_keys(ctx):
    """keys the parser reads for the recovered attributes vs keys the writer code can emit (strengthening of RP, which decides
    the recovered attributes by interpretation; never alarms)"""
    r, repo = ctx.r, ctx.repo
    r.soften("C12.R3")
    it = gene_interp(repo)
    KQ = it.enum("KnownQualifiers")
    parser = repo.module("io.genbank.parser")
    read = set()
    for n in ast.walk(parser.tree):
        if isinstance(n, ast.Attribute) and n.attr == "value" and isinstance(n.value, ast.Attribute) and dotted(n.value.value) == "KnownQualifiers":
            read.add(KQ[n.value.attr].value)
    recovered = {"gene", "locus_tag", "gene_id", "transcript_id", "protein_id", "codon_start"}
    # keys the writer emits: export_qualifiers of gene / transcript / CDS (BioCantorQualifiers values) + explicit writer keys
    bq = {x.value for x in it.enum("BioCantorQualifiers").values()}
    writer = repo.module("io.genbank.writer")
    explicit = set()
    for n in ast.walk(writer.tree):
        if isinstance(n, ast.Subscript) and isinstance(n.ctx, ast.Store):
            k = n.slice
            if isinstance(k, ast.Constant) and isinstance(k.value, str):
                explicit.add(k.value)
            elif isinstance(k, ast.Attribute) and k.attr == "value" and isinstance(k.value, ast.Attribute) and dotted(k.value.value) == "KnownQualifiers":
                explicit.add(KQ[k.value.attr].value)
            elif isinstance(k, ast.Name) and k.id == "feature_type":
                explicit.add("gene")
    emitted = bq | explicit
    for key in sorted(recovered & read):
        r.check(key in emitted, "C12.R3", "io.genbank.writer:add_cds_feature" if key == "codon_start" else "io.genbank.writer:gene_to_feature",
                f"parser key {key} is written", f"the GenBank parser recovers its value from /{key}, which the writer never emits", writer.funcs["add_cds_feature"] if key == "codon_start" else writer.funcs["gene_to_feature"])
    r.floor("C12.R3", "recovered qualifier keys read by the parser", len(recovered & read), 5)


def r4_pipelines(ctx):
    r, repo = ctx.r, ctx.repo
    r.soften("C12.R4")  # strengthening: RP interprets parse() of the three parser classes; the stage order is not an obligation
    stages = {}
    for cname in ("SortedGenBankParser", "LocusTagGenBankParser", "HybridGenBankParser"):
        fn = repo.cls(f"io.genbank.parser:{cname}").methods.get("parse")
        if fn is None:
            r.undecide("C12.R4", f"io.genbank.parser:{cname}", "parse pipeline", "no parse() method", None)
            continue
        stages[cname] = [call_tail(c) for c in calls_in(fn.node) if isinstance(c.func, ast.Attribute) and dotted(c.func.value) == "self"]
    common = None
    for cname, st in stages.items():
        tail = [s for s in st if s in ("_convert_seqfeatures_to_genes", "_parse_features", "_export_annotation_collections")]
        r.check(tail == ["_convert_seqfeatures_to_genes", "_parse_features", "_export_annotation_collections"], "C12.R4",
                f"io.genbank.parser:{cname}.parse", "common stages in order", f"{cname}.parse runs {st}", repo.cls(f"io.genbank.parser:{cname}").methods["parse"])
        r.check(st and st[0] == "_extract_seqfeatures_from_seqrecords", "C12.R4", f"io.genbank.parser:{cname}.parse", "extraction first",
                f"{cname}.parse runs {st}", repo.cls(f"io.genbank.parser:{cname}").methods["parse"])


RULES = [
    ("C12.RK", rk_writer),
    ("C12.RP", rp_reparse),
    ("C12.R1", r1_tables),
    ("C12.R3", r3_qualifier_keys),
    ("C12.R4", r4_pipelines),
]
