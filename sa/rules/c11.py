"""C11 - GFF3 export is well-formed and carries the model.

RK  the analyser interprets AnnotationCollection.to_gff / collection_to_gff3 and GFFRow/GFFAttributes.__str__ for
    generated collections (multi-isoform genes, coding / non-coding, both strands, frame offsets, 0-bp-gap CDS blocks,
    feature collections; qualifier keys and values containing ; = % tab newline CR space > & quotes unicode and commas),
    on a chromosome and on a chunk, in both coordinate modes; the text is decoded by an independent GFF3 reader in the
    checker and compared with an oracle computed from the constructor arguments.
R1  escape tables (constant folding): every value is '%%%02X' of its key, required characters present, comma map = plain
    map + comma, keys usable in an unescaped regex alternation.
R6  writer / parser key agreement per row kind (structural): every attribute the GFF3 parser reads from a gene /
    transcript / CDS feature is one the writer emits on that row kind; coordinate conversion start-1 mirrors the writer."""
import ast
import re as _re

from ..astutil import call_tail, calls_in, dotted, src, walk_shallow
from ..genekernel import (chrom_parent, chunk_parent, gene_interp, mk_collection, mk_feature, mk_feature_collection,
                          mk_gene, mk_transcript)
from ..interp import Obj, Raised, Uninterpretable, module_const, std_interp
from ..lockernel import run, strands
from ..model import AnalysisError
from ..par import pmap
from .c05 import GENOME, _report, _runner
from .c07 import consistent_frames

EXPLANATION = (
    "RK: the GFF3 text produced by the interpreted writers for generated collections is decoded by an independent reader "
    "and compared with an oracle built from the constructor arguments: nine columns, 1-based inclusive coordinates of the "
    "source blocks in the exported coordinate system, strand symbols, phase only on CDS rows and equal to the "
    "frame-derived phase, unique IDs, Parent resolving to an earlier row, top-level rows ordered by start, reserved "
    "attributes never emitted from qualifiers (raise or drop), escaping that decodes to the original text, exact "
    "attribute sets per row (no leakage between rows), identical text on a second export, headers/FASTA of the file "
    "writer. R1: escape tables. R6: parser/writer attribute-key agreement per row kind. Not decided: the third-party "
    "GFF3 reader (gffutils) used by the parser."
)

SPECIAL_VALUES = ["v;1", "x=y", "50%", "new\nline", "cr\rx", "sp ace", "a>b", "amp&", 'quo"te', "unié", "a,b", "tab\tx"]
GFF3_KEEP_CASE = {"Alias", "Target", "Dbxref", "Gap", "Derives_from", "Note", "Ontology_term"}


def unescape(s):
    return _re.sub(r"%([0-9A-Fa-f]{2})", lambda m: chr(int(m.group(1), 16)), s)


def decode_row(line):
    cols = line.split("\t")
    if len(cols) != 9:
        return None
    attrs = {}
    order = []
    for pair in cols[8].split(";"):
        if "=" not in pair:
            return None
        k, v = pair.split("=", 1)
        if "=" in v:
            return None
        order.append(unescape(k))
        attrs.setdefault(unescape(k), set()).update(unescape(x) for x in v.split(","))
    return dict(seqid=cols[0], source=cols[1], type=cols[2], start=int(cols[3]), end=int(cols[4]), score=cols[5],
                strand=cols[6], phase=cols[7], attrs=attrs, order=order, raw=line)


def vals(v):
    """a value as the file carries it: commas separate values; the empty string is written as nan"""
    out = set()
    for piece in str(v).split(","):
        out.add(piece if piece != "" else "nan")
    return out if str(v) != "" else {"nan"}


def norm_quals(q):
    out = {}
    for k, vs in (q or {}).items():
        kk = k if k in GFF3_KEEP_CASE else k.lower()
        s = set()
        for v in vs:
            s |= vals(v)
        if s:
            out.setdefault(kk, set()).update(s)
    return out


def merge(a, b):
    out = {k: set(v) for k, v in a.items()}
    for k, v in b.items():
        out.setdefault(k, set()).update(v)
    return out


def add_ids(q, pairs):
    out = {k: set(v) for k, v in q.items()}
    for k, v in pairs:
        if v:
            out.setdefault(k, set()).update(vals(v))
    return out


# ---- model descriptions (plain data; objects are built inside the interpreter per case) ------------------------

def models():
    g1 = dict(
        kind="gene", gene_id="G;1", gene_symbol="sym bol", gene_type="protein_coding", locus_tag="LT=1",
        qualifiers={"note": ["shared", SPECIAL_VALUES[0]], "product": ["gene level product"], "k;ey": [SPECIAL_VALUES[1]],
                    "Note": [SPECIAL_VALUES[3]], "UPPER": [SPECIAL_VALUES[4], SPECIAL_VALUES[5]]},
        transcripts=[
            dict(exons=[(4, 10), (10, 15), (19, 26)], strand="PLUS", cds=[(6, 10), (10, 15), (19, 22)], start_frame=1,
                 transcript_id="T1", transcript_symbol="tx,1", transcript_type="protein_coding", protein_id="P;1",
                 product="prod=1", qualifiers={"note": ["tx own"], "per%cent": [SPECIAL_VALUES[6], SPECIAL_VALUES[7]]}),
            dict(exons=[(3, 12), (20, 28)], strand="PLUS", cds=None, transcript_id="T2", transcript_symbol=None,
                 transcript_type=None, protein_id=None, product=None, qualifiers={"a=b": [SPECIAL_VALUES[8]]}),
            dict(exons=[(5, 14)], strand="PLUS", cds=[(5, 14)], start_frame=0, transcript_id="T3", transcript_symbol="t3",
                 transcript_type="protein_coding", protein_id="P3", product="other product", qualifiers=None),
        ])
    g2 = dict(
        kind="gene", gene_id="G2", gene_symbol=None, gene_type=None, locus_tag=None,
        qualifiers={"tab\tkey": [SPECIAL_VALUES[9], SPECIAL_VALUES[10]], "empty": [""]},
        transcripts=[
            dict(exons=[(30, 36), (40, 47)], strand="MINUS", cds=[(32, 36), (40, 45)], start_frame=2, transcript_id="T4",
                 transcript_symbol="t4", transcript_type="protein_coding", protein_id="P4", product=None,
                 qualifiers={"k": [SPECIAL_VALUES[11]]}),
            dict(exons=[(31, 44)], strand="MINUS", cds=[(33, 42)], start_frame=0, transcript_id="T5",
                 transcript_symbol="t5", transcript_type="protein_coding", protein_id=None, product=None, qualifiers=None),
        ])
    fc = dict(
        kind="fc", feature_collection_id="FC 1", feature_collection_name="fc>name", feature_collection_type="site",
        locus_tag="L2", qualifiers={"fcq": ["1", "2"]},
        features=[
            dict(blocks=[(16, 18), (23, 29)], strand="MINUS", feature_name="f 1", feature_id="F=1",
                 feature_types=["promoter", "binding site"], qualifiers={"fq": ["x;y"]}),
            dict(blocks=[(17, 21)], strand="PLUS", feature_name=None, feature_id=None, feature_types=None, qualifiers=None),
        ])
    return [g1, g2, fc]


def extra_models():
    """models used by the GFF3 rules only (models() is shared with other properties)"""
    # two isoforms that differ in their UTRs and share the coding region - the most common kind of alternative transcript
    g4 = dict(
        kind="gene", gene_id="G4", gene_symbol="g4", gene_type="protein_coding", locus_tag="L4",
        # keys that differ only in case (one object, and gene vs transcript): every value reaches the rows
        qualifiers={"Evidence": ["curated"], "Source_DB": ["refdb"], "source_db": ["otherdb"]},
        transcripts=[
            dict(exons=[(4, 20)], strand="PLUS", cds=[(8, 17)], start_frame=0, transcript_id="T7", transcript_symbol="t7",
                 transcript_type="protein_coding", protein_id=None, product=None, qualifiers={"evidence": ["predicted"]}),
            dict(exons=[(6, 12), (12, 23)], strand="PLUS", cds=[(8, 12), (12, 17)], start_frame=0, transcript_id="T8", transcript_symbol="t8",
                 transcript_type="protein_coding", protein_id=None, product=None, qualifiers=None),
            dict(exons=[(5, 21)], strand="PLUS", cds=[(8, 17)], start_frame=0, transcript_id="T9", transcript_symbol="t9",
                 transcript_type="protein_coding", protein_id=None, product=None, qualifiers=None),
        ])
    return [g4]


def build(it, S, parent, model):
    F = it.enum("CDSFrame")
    nm = {0: "ZERO", 1: "ONE", 2: "TWO"}
    B = it.enum("Biotype")
    if model["kind"] == "gene":
        txs = []
        for t in model["transcripts"]:
            kw = dict(transcript_id=t["transcript_id"], transcript_symbol=t["transcript_symbol"],
                      transcript_type=B[t["transcript_type"]] if t["transcript_type"] else None, protein_id=t["protein_id"],
                      product=t["product"], qualifiers=t["qualifiers"], sequence_name="chr1", parent_or_seq_chunk_parent=parent)
            if t["cds"]:
                fr = consistent_frames(t["cds"], t["strand"], t["start_frame"])
                txs.append(mk_transcript(it, t["exons"], S[t["strand"]], t["cds"], [F[nm[x]] for x in fr], **kw))
            else:
                txs.append(mk_transcript(it, t["exons"], S[t["strand"]], **kw))
        return mk_gene(it, txs, gene_id=model["gene_id"], gene_symbol=model["gene_symbol"],
                       gene_type=B[model["gene_type"]] if model["gene_type"] else None, locus_tag=model["locus_tag"],
                       qualifiers=model["qualifiers"], sequence_name="chr1", parent_or_seq_chunk_parent=parent)
    feats = [mk_feature(it, f["blocks"], S[f["strand"]], feature_name=f["feature_name"], feature_id=f["feature_id"],
                        feature_types=f["feature_types"], qualifiers=f["qualifiers"], sequence_name="chr1",
                        parent_or_seq_chunk_parent=parent) for f in model["features"]]
    return mk_feature_collection(it, feats, feature_collection_id=model["feature_collection_id"],
                                 feature_collection_name=model["feature_collection_name"],
                                 feature_collection_type=model["feature_collection_type"], locus_tag=model["locus_tag"],
                                 qualifiers=model["qualifiers"], sequence_name="chr1", parent_or_seq_chunk_parent=parent)


def expected_rows(model, off):
    """[(type, start1, end, strand symbol, phase, attrs without ID/Parent, name, level, parent_index)]"""
    rows = []
    sym = {"PLUS": "+", "MINUS": "-"}
    if model["kind"] == "gene":
        gq = add_ids(norm_quals(model["qualifiers"]), [("gene_id", model["gene_id"]), ("gene_name", model["gene_symbol"]),
                                                       ("gene_biotype", model["gene_type"] or "unspecified"),
                                                       ("locus_tag", model["locus_tag"])])
        lo = min(t["exons"][0][0] for t in model["transcripts"])
        hi = max(t["exons"][-1][1] for t in model["transcripts"])
        rows.append(dict(type="gene", start=lo - off + 1, end=hi - off, strand="+", phase=".", attrs=gq,
                         name=model["gene_symbol"], parent=None))
        gi = 0
        for t in model["transcripts"]:
            tq = add_ids(merge(norm_quals(t["qualifiers"]), gq),
                         [("transcript_id", t["transcript_id"]), ("transcript_name", t["transcript_symbol"]),
                          ("transcript_biotype", t["transcript_type"] or "unspecified"), ("protein_id", t["protein_id"])])
            ti = len(rows)
            rows.append(dict(type="transcript", start=t["exons"][0][0] - off + 1, end=t["exons"][-1][1] - off,
                             strand=sym[t["strand"]], phase=".", attrs=tq, name=t["transcript_symbol"], parent=gi))
            for s, e in t["exons"]:
                rows.append(dict(type="exon", start=s - off + 1, end=e - off, strand=sym[t["strand"]], phase=".", attrs=tq,
                                 name=t["transcript_symbol"], parent=ti))
            if t["cds"]:
                cq = add_ids(tq, [("protein_id", t["protein_id"]), ("product", t["product"])])
                fr = consistent_frames(t["cds"], t["strand"], t["start_frame"])
                for (s, e), f in zip(t["cds"], fr):
                    rows.append(dict(type="CDS", start=s - off + 1, end=e - off, strand=sym[t["strand"]],
                                     phase=str((-f) % 3), attrs=cq, name=t["protein_id"], parent=ti))
        return rows
    fq = add_ids(norm_quals(model["qualifiers"]), [("feature_collection_id", model["feature_collection_id"]),
                                                   ("feature_collection_name", model["feature_collection_name"]),
                                                   ("locus_tag", model["locus_tag"]),
                                                   ("feature_collection_type", model["feature_collection_type"])])
    types = set()
    for f in model["features"]:
        types |= set(f["feature_types"] or [])
    if types:
        fq["feature_type"] = set().union(*[vals(x) for x in types])
    lo = min(f["blocks"][0][0] for f in model["features"])
    hi = max(f["blocks"][-1][1] for f in model["features"])
    rows.append(dict(type="biological_region", start=lo - off + 1, end=hi - off, strand="+", phase=".", attrs=fq,
                     name=model["feature_collection_name"], parent=None))
    for f in model["features"]:
        q = add_ids(merge(norm_quals(f["qualifiers"]), fq), [("feature_name", f["feature_name"]), ("feature_id", f["feature_id"])])
        if f["feature_types"]:
            q["feature_type"] = set().union(*[vals(x) for x in f["feature_types"]])
        fi = len(rows)
        rows.append(dict(type="feature_interval", start=f["blocks"][0][0] - off + 1, end=f["blocks"][-1][1] - off,
                         strand=sym[f["strand"]], phase=".", attrs=q, name=f["feature_name"], parent=0))
        for s, e in f["blocks"]:
            rows.append(dict(type="subregion", start=s - off + 1, end=e - off, strand=sym[f["strand"]], phase=".", attrs=q,
                             name=f["feature_name"], parent=fi))
    return rows


def check_text(lines, expected_groups, desc, qual):
    """lines: decoded text rows (file order); expected_groups: list of expected row lists (one per top-level object)"""
    out = []
    rows = []
    for ln in lines:
        d = decode_row(ln)
        if d is None:
            out.append(("row syntax", f"{desc}: not a 9-column GFF3 row with key=value attributes: {ln!r}", qual))
            return out
        rows.append(d)
    ids = {}
    for i, d in enumerate(rows):
        rid = d["attrs"].get("ID")
        if not rid or len(rid) != 1:
            out.append(("ID", f"{desc}: row without exactly one ID: {d['raw'][:120]!r}", qual))
            return out
        rid = next(iter(rid))
        if rid in ids:
            first = rows[ids[rid]]
            shared_cds = (d["type"] == "CDS" and first["type"] == "CDS" and (first["start"], first["end"]) == (d["start"], d["end"])
                          and first["attrs"].get("Parent") != d["attrs"].get("Parent"))
            if shared_cds:
                out.append(("unique IDs [CDS rows of isoforms that share a coding block]", f"{desc}: ID {rid!r} is written on the CDS rows of two "
                            f"transcripts (Parents {sorted(first['attrs'].get('Parent') or [])} and {sorted(d['attrs'].get('Parent') or [])})",
                            "gene.cds:CDSInterval.to_gff"))
            else:
                out.append(("unique IDs", f"{desc}: ID {rid!r} used twice", qual))
        ids.setdefault(rid, i)
        par = d["attrs"].get("Parent")
        if par:
            for p in par:
                if p not in ids or ids[p] >= i:
                    out.append(("Parent resolves earlier", f"{desc}: row {rid!r} has Parent {p!r} which is not defined earlier in the file", qual))
        if d["order"][0] != "ID":
            out.append(("ID first", f"{desc}: attributes do not start with ID: {d['raw'][:100]!r}", qual))
        if d["start"] > d["end"] or d["start"] < 1:
            out.append(("coordinates", f"{desc}: start {d['start']} > end {d['end']} (or < 1)", qual))
        if (d["type"] == "CDS") != (d["phase"] in ("0", "1", "2")):
            out.append(("phase only on CDS", f"{desc}: type {d['type']} with phase {d['phase']!r}", qual))
    tops = [d for d in rows if "Parent" not in d["attrs"]]
    if [d["start"] for d in rows] != sorted(d["start"] for d in rows):
        out.append(("rows ordered by start", f"{desc}: rows are not ordered by start: {[d['start'] for d in rows]}", qual))
    # match expected rows: by (type, start, end, strand) within the hierarchy
    got_all = [(d["type"], d["start"], d["end"], d["strand"], d["phase"]) for d in rows]
    for grp in expected_groups:
        for er in grp:
            key = (er["type"], er["start"], er["end"], er["strand"], er["phase"])
            cands = [d for d in rows if (d["type"], d["start"], d["end"], d["strand"], d["phase"]) == key]
            want_attrs = dict(er["attrs"])
            hit = None
            for d in cands:
                a = {k: v for k, v in d["attrs"].items() if k not in ("ID", "Parent", "Name")}
                if a == want_attrs:
                    hit = d
                    break
            if hit is None:
                if not cands:
                    out.append((f"{er['type']} row", f"{desc}: no {er['type']} row {key[1]}-{key[2]} {key[3]} phase {key[4]}; rows present: {sorted(set(g for g in got_all if g[0] == er['type']))}", qual))
                else:
                    a = {k: v for k, v in cands[0]["attrs"].items() if k not in ("ID", "Parent", "Name")}
                    diff = {k: (sorted(a.get(k, [])), sorted(want_attrs.get(k, []))) for k in set(a) | set(want_attrs) if a.get(k) != want_attrs.get(k)}
                    out.append((f"{er['type']} attributes", f"{desc}: {er['type']} row {key[1]}-{key[2]}: attributes differ from the model (got, expected): {diff}", qual))
                continue
            nm = hit["attrs"].get("Name")
            wn = vals(er["name"]) if er["name"] is not None else None
            # Name escapes commas, so it is one value
            wn = {er["name"]} if er["name"] is not None else None
            if (nm or None) != wn and not (er["name"] is not None and "," in er["name"] and nm == vals(er["name"])):
                out.append((f"{er['type']} Name", f"{desc}: {er['type']} row Name={nm}; model name is {er['name']!r}", qual))
    nexp = sum(len(g) for g in expected_groups)
    if len(rows) != nexp:
        out.append(("row count", f"{desc}: {len(rows)} rows written, model has {nexp}", qual))
    return out


def _case(repo, it, S, spec):
    parent_kind, chrom_mode, which = spec
    out = []
    n = 0
    q_ac = "gene.collections:AnnotationCollection.to_gff"
    if parent_kind == "chrom":
        parent, off = chrom_parent(it, GENOME, alphabet="NT_EXTENDED"), 0
    elif parent_kind == "none":
        parent, off = None, 0
    else:
        parent, off = chunk_parent(it, GENOME, 2, 49, alphabet="NT_EXTENDED"), (0 if chrom_mode else 2)
    ms = [m for i, m in enumerate(models() + extra_models()) if i in which]
    desc = f"collection {which} parent={parent_kind} mode={'chromosome' if chrom_mode else 'chunk-relative'}"
    try:
        objs = [build(it, S, parent, m) for m in ms]
        genes = [o for o, m in zip(objs, ms) if m["kind"] == "gene"]
        fcs = [o for o, m in zip(objs, ms) if m["kind"] == "fc"]
        ac = mk_collection(it, genes, fcs, sequence_name="chr1", parent_or_seq_chunk_parent=parent)
    except Raised as ex:
        return 1, [("construct", f"{desc}: construction raises {ex.exc_name} {ex.detail}", q_ac)]
    f = repo.fn(q_ac)
    texts = []
    for rep in range(2):
        n += 1
        k, v = run(it, f, [], {"chromosome_relative_coordinates": chrom_mode}, ac)
        if k != "ok":
            out.append(("export", f"{desc}: to_gff raises {v}", q_ac))
            return n, out
        try:
            lines = [it.py_str(r) for r in it.iterate(v)]
        except Raised as ex:
            out.append(("export", f"{desc}: str(GFFRow) raises {ex.exc_name} {ex.detail}", "io.gff3.rows:GFFRow.__str__"))
            return n, out
        if any(not isinstance(x, str) for x in lines):
            out.append(("export", f"{desc}: a row is not plain text", "io.gff3.rows:GFFRow.__str__"))
            return n, out
        texts.append(lines)
    if texts[0] != texts[1]:
        out.append(("export is repeatable", f"{desc}: the second export of the same collection differs from the first "
                    f"(exporting changed the collection): first differing row "
                    f"{[(a, b) for a, b in zip(texts[0], texts[1]) if a != b][:1]}", q_ac))
    # the text must not depend on the hash seed of the process: the same models built and exported with every set iterated in the
    # opposite order (an equally valid order) give the same rows
    from ..interp import other_hash_seed
    n += 1
    try:
        with other_hash_seed():
            objs2 = [build(it, S, parent, m) for m in ms]
            ac2 = mk_collection(it, [o for o, m in zip(objs2, ms) if m["kind"] == "gene"], [o for o, m in zip(objs2, ms) if m["kind"] == "fc"],
                                sequence_name="chr1", parent_or_seq_chunk_parent=parent)
            k, v = run(it, f, [], {"chromosome_relative_coordinates": chrom_mode}, ac2)
            lines2 = [it.py_str(r) for r in it.iterate(v)] if k == "ok" else v
    except Raised as ex:
        k, lines2 = "raise", ex.exc_name
    if k != "ok" or lines2 != texts[0]:
        diff = [(a, b) for a, b in zip(texts[0], lines2) if a != b][:1] if k == "ok" else lines2
        out.append(("export independent of the hash seed", f"{desc}: built and exported with every set iterated in the opposite order, the text differs: {diff}", q_ac))
    out += check_text(texts[0], [expected_rows(m, off) for m in ms], desc, q_ac)
    return n, out


def _cut_case(repo, it, S, spec):
    """chunk-relative export of genes cut by the chunk: every exon row is a source exon clipped to the chunk and shifted, all
    rows lie on the chunk, every CDS row lies inside an exon row of its transcript"""
    mi, (cs, ce) = spec
    out = []
    q_ac = "gene.collections:AnnotationCollection.to_gff"
    m = models()[mi]
    parent = chunk_parent(it, GENOME, cs, ce, alphabet="NT_EXTENDED")
    desc = f"gene {m['gene_id']} on chunk [{cs},{ce}) exported chunk-relative"
    try:
        g = build(it, S, parent, m)
        ac = mk_collection(it, [g], None, sequence_name="chr1", parent_or_seq_chunk_parent=parent)
    except Raised as ex:
        return 1, [("construct on a cutting chunk", f"{desc}: construction raises {ex.exc_name}", q_ac)]
    k, v = run(it, repo.fn(q_ac), [], {"chromosome_relative_coordinates": False}, ac)
    if k != "ok":
        return 1, [("export on a cutting chunk", f"{desc}: to_gff raises {v}", q_ac)]
    try:
        rows = [decode_row(it.py_str(r)) for r in it.iterate(v)]
    except Raised as ex:
        return 1, [("export on a cutting chunk", f"{desc}: str(GFFRow) raises {ex.exc_name}", "io.gff3.rows:GFFRow.__str__")]
    if any(d is None for d in rows):
        return 1, [("row syntax", f"{desc}: a row is not 9-column GFF3", q_ac)]
    L = ce - cs
    for d in rows:
        if not (1 <= d["start"] <= d["end"] <= L):
            out.append(("rows on the chunk", f"{desc}: {d['type']} row {d['start']}-{d['end']} lies outside the chunk sequence 1-{L}",
                        "gene.transcript:TranscriptInterval.to_gff"))
            break
    by_id = {next(iter(d["attrs"]["ID"])): d for d in rows if d["attrs"].get("ID")}
    for t in m["transcripts"]:
        want = sorted((max(s_, cs) - cs + 1, min(e, ce) - cs) for s_, e in t["exons"] if max(s_, cs) < min(e, ce))
        txrows = [d for d in rows if d["type"] == "transcript" and t["transcript_id"] in d["attrs"].get("transcript_id", set())]
        if not want:
            continue
        if len(txrows) != 1:
            out.append(("transcript row on a cutting chunk", f"{desc}: {len(txrows)} transcript rows for {t['transcript_id']}", q_ac))
            continue
        tid = next(iter(txrows[0]["attrs"]["ID"]))
        ex = sorted((d["start"], d["end"]) for d in rows if d["type"] == "exon" and tid in d["attrs"].get("Parent", set()))
        if ex != want:
            out.append(("exon rows on a cutting chunk", f"{desc}: transcript {t['transcript_id']} exon rows {ex}; the source exons clipped to the "
                        f"chunk and shifted are {want}", "gene.transcript:TranscriptInterval.to_gff"))
        if (txrows[0]["start"], txrows[0]["end"]) != (want[0][0], want[-1][1]):
            out.append(("transcript row on a cutting chunk", f"{desc}: transcript {t['transcript_id']} row {txrows[0]['start']}-{txrows[0]['end']}; "
                        f"clipped span is {want[0][0]}-{want[-1][1]}", "gene.transcript:TranscriptInterval.to_gff"))
        for d in rows:
            if d["type"] == "CDS" and tid in d["attrs"].get("Parent", set()):
                if not any(a <= d["start"] and d["end"] <= b for a, b in ex):
                    out.append(("CDS inside an exon on a cutting chunk", f"{desc}: CDS row {d['start']}-{d['end']} of {t['transcript_id']} lies in no "
                                f"exon row {ex}", "gene.cds:CDSInterval.to_gff"))
    return 1, out


def rc_cut_chunks(ctx):
    specs = [(0, w) for w in ((8, 24), (2, 12), (12, 30), (5, 22))] + [(1, w) for w in ((33, 45), (28, 42), (35, 49))]
    results = pmap(_runner(ctx.repo, _cut_case), specs, min_items=2)
    _report(ctx, "C11.RC", results, [("gene.transcript:TranscriptInterval.to_gff", "exon / transcript rows of cut transcripts"),
                                     ("gene.cds:CDSInterval.to_gff", "CDS rows inside exon rows")])


def rk_export(ctx):
    specs = []
    for which in ((0,), (1,), (2,), (0, 1, 2), (1, 2), (3,)):
        specs.append(("chrom", True, which))
        specs.append(("none", True, which))
        specs.append(("chunk", True, which))
        specs.append(("chunk", False, which))
    ctx.r.floor("C11.RK", "export cases", len(specs), 12)
    from ..par import pmap
    results = pmap(_runner(ctx.repo, _case), specs, min_items=4)
    _report(ctx, "C11.RK", results, [
        ("gene.collections:AnnotationCollection.to_gff", "decoded export = model, all structural GFF3 rules"),
        ("io.gff3.rows:GFFRow.__str__", "nine tab-separated columns"),
        ("io.gff3.rows:GFFAttributes.__str__", "escaping decodes to the original text")])


def rk_reserved(ctx):
    """reserved attributes never emitted from qualifiers; the file writer's headers and FASTA section"""
    r, repo = ctx.r, ctx.repo
    it = gene_interp(repo, max_steps=10 ** 10)
    S = strands(it)
    par = chrom_parent(it, GENOME, alphabet="NT_EXTENDED")
    f = repo.fn("gene.feature:FeatureInterval.to_gff")
    for key in ("ID", "Name", "Parent"):
        feat = mk_feature(it, [(3, 9)], S["PLUS"], qualifiers={key: ["evil"], "ok": ["fine"]}, sequence_name="chr1",
                          parent_or_seq_chunk_parent=par, feature_name="nm")
        k, v = run(it, f, [], {"raise_on_reserved_attributes": True}, feat)
        raised = None
        if k == "ok":
            try:
                [it.py_str(x) for x in it.iterate(v)]
            except Raised as ex:
                raised = ex.exc_name
        else:
            raised = v
        r.check(raised == "GFF3ExportException", "C11.RR", "io.gff3.rows:GFFAttributes.__str__", f"reserved key {key} refused",
                f"a qualifier named {key!r} with raise_on_reserved_attributes=True -> {raised}; documented GFF3ExportException",
                repo.fn("io.gff3.rows:GFFAttributes.__str__"))
        k, v = run(it, f, [], {"raise_on_reserved_attributes": False}, feat)
        ok = False
        msg = f"{k}:{v}"
        if k == "ok":
            try:
                rows = [decode_row(it.py_str(x)) for x in it.iterate(v)]
                ok = all(d is not None and "evil" not in d["attrs"].get(key, set()) and d["attrs"].get("ok") == {"fine"} for d in rows)
                msg = str([d["attrs"] for d in rows if d][:1])
            except Raised as ex:
                msg = ex.exc_name
        r.check(ok, "C11.RR", "io.gff3.rows:GFFAttributes.__str__", f"reserved key {key} dropped",
                f"a qualifier named {key!r} with raise_on_reserved_attributes=False is not dropped cleanly: {msg}",
                repo.fn("io.gff3.rows:GFFAttributes.__str__"))
    # file writer: header first, sequence-region per collection, rows, ##FASTA, sequences
    w = repo.fn("io.gff3.writer:collection_to_gff3")
    ms = models()
    objs = [build(it, S, par, m) for m in ms]
    ac = mk_collection(it, [objs[0], objs[1]], [objs[2]], sequence_name="chr1", parent_or_seq_chunk_parent=par)
    for add_seq in (False, True):
        handle = []
        k, v = run(it, w, [[ac], handle], {"add_sequences": add_seq}, None)
        ok = k == "ok" and handle and handle[0] == "##gff-version 3"
        body = [x for x in handle if not x.startswith("##") and not x.startswith(">")] if ok else []
        if ok and add_seq:
            ok = f"##sequence-region chr1 1 {len(GENOME)}" in handle[1:3] and "##FASTA" in handle
            if ok:
                i = handle.index("##FASTA")
                fasta = "\n".join(handle[i + 1:])
                ok = fasta.startswith(">chr1") and "".join(fasta.split("\n")[1:]) == GENOME
                body = [x for x in handle[:i] if not x.startswith("##")]
        if ok:
            ok = all(decode_row(x) is not None for x in body) and len(body) == sum(len(expected_rows(m, 0)) for m in ms)
        r.check(bool(ok), "C11.RR", w.qual, f"file layout add_sequences={add_seq}",
                f"collection_to_gff3(add_sequences={add_seq}) -> {k}:{v if k != 'ok' else ''}; lines {handle[:3]}...: header / "
                f"sequence-region / rows / ##FASTA / sequence layout is wrong", w)
        # the documented argument is any iterable of collections: a one-shot iterator gives the same file as a list
        from ..interp import _Gen
        for how, arg in (("generator", _Gen([ac])), ("tuple", (ac,))):
            h2 = []
            k2, v2 = run(it, w, [arg, h2], {"add_sequences": add_seq}, None)
            r.check(k2 == k and h2 == handle, "C11.RR", w.qual, f"{how} of collections, add_sequences={add_seq}",
                    f"collection_to_gff3 given a {how} of collections (add_sequences={add_seq}) writes {len(h2)} lines ({k2}); given a list it "
                    f"writes {len(handle)}: a one-shot iterable is consumed before the export", w)


    # several collections in one file, one of them without any annotation (an un-annotated contig, or an empty query result): every
    # collection gets its sequence-region line and its FASTA record, in either ordering mode
    GENOME_B = GENOME[::-1]
    par_b = chrom_parent(it, GENOME_B, seq_id="chr0", alphabet="NT_EXTENDED")
    try:
        empty = mk_collection(it, None, None, sequence_name="chr0", parent_or_seq_chunk_parent=par_b)
    except Raised as ex:
        empty = None
        r.note(f"C11.RR: a collection without members on a sequence is refused by the constructor ({ex.exc_name}); the multi-collection layout case is skipped")
    if empty is not None:
        for ordered in (True, False):
            handle = []
            k, v = run(it, w, [[ac, empty], handle], {"add_sequences": True, "ordered": ordered}, None)
            regions = [x for x in handle if x.startswith("##sequence-region")]
            i = handle.index("##FASTA") if "##FASTA" in handle else len(handle)
            records = {}
            cur = None
            for ln in handle[i + 1:]:
                if ln.startswith(">"):
                    cur = ln[1:].split()[0]
                    records[cur] = ""
                elif cur is not None:
                    records[cur] += ln.strip()
            ok = (k == "ok" and sorted(regions) == sorted([f"##sequence-region chr1 1 {len(GENOME)}", f"##sequence-region chr0 1 {len(GENOME_B)}"])
                  and records == {"chr1": GENOME, "chr0": GENOME_B})
            r.check(ok, "C11.RR", w.qual, f"file layout with an un-annotated collection, ordered={ordered}",
                    f"collection_to_gff3([annotated chr1, un-annotated chr0], add_sequences=True, ordered={ordered}) -> {k}:{v if k != 'ok' else ''}; "
                    f"sequence-region lines {regions}, FASTA records {sorted(records)}: every collection must have both", w)


    # sequences whose length sits around the FASTA line width (60): the record spells the whole sequence, the sequence-region
    # line states its length
    for L in (1, 59, 60, 61, 119, 120, 121, 181):
        seqL = (GENOME * 5)[:L]
        try:
            cl = mk_collection(it, None, None, sequence_name=f"s{L}", parent_or_seq_chunk_parent=chrom_parent(it, seqL, seq_id=f"s{L}", alphabet="NT_EXTENDED"))
        except Raised:
            break
        handle = []
        k, v = run(it, w, [[cl], handle], {"add_sequences": True}, None)
        i = handle.index("##FASTA") if "##FASTA" in handle else len(handle)
        rec = "".join(x.strip() for x in handle[i + 2:]) if len(handle) > i + 1 and handle[i + 1].startswith(f">s{L}") else None
        lines_ok = all(len(x) <= 60 for x in handle[i + 2:])
        r.check(k == "ok" and rec == seqL and f"##sequence-region s{L} 1 {L}" in handle and lines_ok, "C11.RR", w.qual,
                f"FASTA record of a sequence of {L} bases",
                f"collection_to_gff3(add_sequences=True) for a sequence of {L} bases -> {k}:{v if k != 'ok' else ''}; the FASTA record spells "
                f"{len(rec) if rec is not None else rec} bases in lines of {[len(x) for x in handle[i + 2:]]}", w)


def r1_escape_tables(ctx):
    r = ctx.r
    it = std_interp(ctx.repo)
    m = "io.gff3.constants"
    plain = module_const(it, m, "ENCODING_MAP")
    comma = module_const(it, m, "ENCODING_MAP_WITH_COMMA")
    where = (ctx.repo.module(m).relpath, ctx.repo.const(m, "ENCODING_MAP"))
    for name, tab in (("ENCODING_MAP", plain), ("ENCODING_MAP_WITH_COMMA", comma)):
        for k, v in tab.items():
            r.check(len(k) == 1 and v == "%%%02X" % ord(k), "C11.R1", f"{m}:{name}", f"entry {k!r}",
                    f"{name}[{k!r}] = {v!r}; the URL escape of that character is {'%%%02X' % ord(k[0])!r}", where)
            r.check(k not in ".^$*+?{}[]\\|()", "C11.R1", f"{m}:{name}", f"key {k!r} usable in an unescaped alternation",
                    f"{k!r} is a regex metacharacter but the pattern is built without re.escape", where)
        for must in ("\t", "\n", "\r", "%", ";", "="):
            r.check(must in tab, "C11.R1", f"{m}:{name}", f"escapes {must!r}", f"{name} does not escape {must!r}", where)
    r.check(set(comma) == set(plain) | {","}, "C11.R1", f"{m}:ENCODING_MAP_WITH_COMMA", "= plain map + comma",
            f"comma map keys {sorted(comma)} != plain map keys + ','", where)
    for pat, tab in (("ENCODING_PATTERN", plain), ("ENCODING_PATTERN_WITH_COMMA", comma)):
        p = module_const(it, m, pat)
        ok = isinstance(p, str) and p.startswith("(") and p.endswith(")") and set(p[1:-1].split("|")) == set(tab)
        r.check(ok, "C11.R1", f"{m}:{pat}", "alternation of exactly the map keys", f"{pat} = {p!r} is not the alternation of the map keys", where)
    hdr = it.enum("GFF3Headers")
    r.check(hdr["HEADER"].value == "##gff-version 3" and hdr["FASTA_HEADER"].value == "##FASTA"
            and hdr["SEQUENCE_HEADER"].value.startswith("##sequence-region {symbol} 1 {length}"), "C11.R1",
            f"{m}:GFF3Headers", "directive texts", f"GFF3 directives changed: {[x.value for x in hdr.values()]}", ctx.repo.cls("GFF3Headers"))


RULES = [
    ("C11.RK", rk_export),
    ("C11.RC", rc_cut_chunks),
    ("C11.RR", rk_reserved),
    ("C11.R1", r1_escape_tables),
]


# ---------------------------------------------------------------------------------------------------------
# RP: re-parse leg.  The exported text is loaded into a small model of gffutils' FeatureDB (assumption: attributes
# are unescaped, comma-split lists; children / parents follow the Parent attribute; region() filters by type in file
# order) and the library's own _parse_genes is interpreted on it.
# ---------------------------------------------------------------------------------------------------------

class GFeature:
    _interp_native_ = True

    def __init__(self, d, idx):
        self.id = next(iter(d["attrs"]["ID"]))
        self.chrom = self.seqid = d["seqid"]
        self.featuretype = d["type"]
        self.start, self.end = d["start"], d["end"]
        self.strand = d["strand"]
        self.frame = d["phase"]
        # gffutils keeps values as lists in file order
        self.attributes = {k: list(v) if not isinstance(v, list) else v for k, v in d["ordered_attrs"].items()}
        self.idx = idx

    def __repr__(self):
        return f"<Feature {self.featuretype} {self.start}-{self.end} {self.id}>"


class GDB:
    _interp_native_ = True

    def __init__(self, lines):
        self.features = []
        for i, ln in enumerate(lines):
            d = decode_row(ln)
            cols = ln.split("\t")
            oa = {}
            for pair in cols[8].split(";"):
                k, v = pair.split("=", 1)
                oa.setdefault(unescape(k), []).extend(unescape(x) for x in v.split(","))
            d["ordered_attrs"] = oa
            self.features.append(GFeature(d, i))
        self.by_id = {f.id: f for f in self.features}

    def region(self, seqid=None, featuretype=None, **kw):
        types = [featuretype] if isinstance(featuretype, str) else list(featuretype or [])
        return iter([f for f in self.features if f.seqid == seqid and (not types or f.featuretype in types)])

    def parents(self, f, level=None, **kw):
        f = self.by_id[f] if isinstance(f, str) else f
        return iter([self.by_id[p] for p in f.attributes.get("Parent", []) if p in self.by_id])

    def children(self, f, level=None, **kw):
        f = self.by_id[f] if isinstance(f, str) else f
        return iter([c for c in self.features if f.id in c.attributes.get("Parent", [])])

    def featuretypes(self):
        return iter(sorted({f.featuretype for f in self.features}))


def _reparse_case(repo, it, S, spec):
    which, = spec
    out = []
    q_ac = "gene.collections:AnnotationCollection.to_gff"
    pq = "io.gff3.parser:_parse_genes"
    ms = [m for i, m in enumerate(models_for_reparse()) if i in which]
    par = chrom_parent(it, GENOME, alphabet="NT_EXTENDED")
    objs = [build(it, S, par, m) for m in ms]
    ac = mk_collection(it, objs, None, sequence_name="chr1", parent_or_seq_chunk_parent=par)
    k, v = run(it, repo.fn(q_ac), [], {}, ac)
    if k != "ok":
        return 1, [("export", f"re-parse {which}: to_gff raises {v}", q_ac)]
    lines = [it.py_str(r) for r in it.iterate(v)]
    db = GDB(lines)
    k, genes = run(it, repo.fn(pq), ["chr1", db], {}, None)
    if k != "ok":
        return 1, [("re-parse", f"re-parse {which}: _parse_genes raises {genes} on the exported text", pq)]
    if len(genes) != len(ms):
        return 1, [("gene count", f"re-parse {which}: {len(genes)} genes parsed from an export of {len(ms)}", pq)]
    by_id = {g.get("gene_id"): g for g in genes}
    for m in ms:
        g = by_id.get(m["gene_id"])
        desc = f"gene {m['gene_id']!r}"
        if g is None:
            out.append(("gene id", f"{desc} not recovered; parsed ids {sorted(map(str, by_id))}", pq))
            continue
        for key, want in (("gene_symbol", m["gene_symbol"]), ("locus_tag", m["locus_tag"]), ("gene_type", m["gene_type"])):
            if g.get(key) != want:
                out.append((f"gene {key}", f"{desc}: re-parsed {key} = {g.get(key)!r}; exported {want!r}", pq))
        if len(g["transcripts"]) != len(m["transcripts"]):
            out.append(("transcript count", f"{desc}: {len(g['transcripts'])} transcripts re-parsed, {len(m['transcripts'])} exported", pq))
            continue
        txs = {t.get("transcript_id"): t for t in g["transcripts"]}
        for t in m["transcripts"]:
            p = txs.get(t["transcript_id"])
            td = f"{desc} transcript {t['transcript_id']}"
            if p is None:
                out.append(("transcript id", f"{td}: not recovered", pq))
                continue
            if list(zip(p["exon_starts"], p["exon_ends"])) != [tuple(b) for b in t["exons"]] or p["strand"] != t["strand"]:
                out.append(("exons", f"{td}: re-parsed exons {list(zip(p['exon_starts'], p['exon_ends']))} {p['strand']}; exported {t['exons']} {t['strand']}", pq))
            if t["cds"]:
                fr = consistent_frames(t["cds"], t["strand"], t["start_frame"])
                names = [["ZERO", "ONE", "TWO"][x] for x in fr]
                if list(zip(p["cds_starts"] or [], p["cds_ends"] or [])) != [tuple(b) for b in t["cds"]] or p["cds_frames"] != names:
                    out.append(("CDS blocks and frames", f"{td}: re-parsed CDS {list(zip(p['cds_starts'] or [], p['cds_ends'] or []))} frames {p['cds_frames']}; exported {t['cds']} {names}", "io.gff3.parser:_convert_features_to_transcript"))
            elif p["cds_starts"]:
                out.append(("CDS blocks and frames", f"{td}: a CDS appeared on a non-coding transcript", pq))
            for key, want in (("transcript_symbol", t["transcript_symbol"]), ("protein_id", t["protein_id"] if t["cds"] else None),
                              ("product", t["product"] if t["cds"] else None)):
                if key in (m["qualifiers"] or {}):
                    continue  # the gene carries a free qualifier of the same name: the merged row is ambiguous by construction
                if want is not None and p.get(key) != want and not ("," in str(want)):
                    out.append((f"transcript {key}", f"{td}: re-parsed {key} = {p.get(key)!r}; exported {want!r}", pq))
            wt = t["transcript_type"]
            if p.get("transcript_type") != (wt if wt else m["gene_type"]):
                out.append(("transcript biotype", f"{td}: re-parsed transcript_type = {p.get('transcript_type')!r}; exported {wt!r} (gene type {m['gene_type']!r})", pq))
            # free qualifiers survive up to documented lower-casing of keys
            wq = {k2 if k2 in GFF3_KEEP_CASE else k2.lower(): sorted(set().union(*[vals(x) for x in v2])) for k2, v2 in (t["qualifiers"] or {}).items()}
            gq = p.get("qualifiers") or {}
            for k2, v2 in wq.items():
                if k2 in ("note", "product"):
                    continue  # merged with gene-level values / reserved by the exporter
                if sorted(gq.get(k2, [])) != v2:
                    out.append(("transcript qualifiers", f"{td}: qualifier {k2!r} re-parsed as {gq.get(k2)}; exported {v2}", "io.gff3.parser:filter_and_sort_qualifiers"))
    return len(lines), out


def models_for_reparse():
    ms = [m for m in models() if m["kind"] == "gene"]
    # a gene whose transcript has another biotype than the gene
    ms.append(dict(kind="gene", gene_id="G3", gene_symbol="g3", gene_type="protein_coding", locus_tag="L3", qualifiers=None,
                   transcripts=[dict(exons=[(42, 48)], strand="PLUS", cds=None, transcript_id="T6", transcript_symbol="t6",
                                     transcript_type="lncRNA", protein_id=None, product=None, qualifiers=None)]))
    return ms


def rp_reparse(ctx):
    from ..par import pmap
    results = pmap(_runner(ctx.repo, _reparse_case), [((0,),), ((1,),), ((2,),), ((0, 1, 2),)], min_items=2)
    _report(ctx, "C11.RP", results, [("io.gff3.parser:_parse_genes", "exported genes are recovered from the exported text"),
                                     ("io.gff3.parser:_convert_features_to_transcript", "exons, CDS blocks, frames, strand"),
                                     ("io.gff3.parser:filter_and_sort_qualifiers", "free qualifiers survive")])


RULES.append(("C11.RP", rp_reparse))
