"""C19 - invalid input is refused with documented errors; nothing ill-formed is built.

RK  the analyser interprets every constructor / deriving operation on systematically corrupted arguments (start > end,
    negative or out-of-sequence coordinates, unequal numbers of starts / ends / frames, CDS outside exons, mixed frame
    and phase, mismatched parents, wrong alphabet, overlapping variants, duplicate children, empty collections,
    undirected strand where direction is needed, invalid window / query arguments): the outcome must be a documented
    exception (a BioCantorException subclass, or ValueError / TypeError), never an internal error and never an object.
    Sibling classes must refuse the same corruption with the same documented class.
R1  raise discipline (structural): every `raise` in the package raises a BioCantorException subclass or
    ValueError / TypeError / NotImplementedError / RuntimeError; nothing raises AttributeError / IndexError / KeyError.
R4  recursion audit (structural): a function that calls itself must recurse along `.parent`, into nested
    dictionaries, or on a strictly smaller syntactic sub-object; recursion that advances through the blocks of a
    location (one call per block) is data-sized and reaches RecursionError.
R7  optional-attribute discipline (structural): an attribute assigned from a constructor parameter whose default is
    None and dereferenced under a guard somewhere in the class must be guarded at every dereference."""
import ast

from ..astutil import Facts, call_tail, calls_in, dotted, fact_atoms, src, walk_shallow
from ..genekernel import (chrom_parent, chunk_parent, gene_interp, mk_collection, mk_feature, mk_feature_collection,
                          mk_gene, mk_parent, mk_sequence, mk_transcript)
from ..interp import ClassTok, Obj, Raised, Uninterpretable
from ..lockernel import blocks_of, run, strands, well_formed
from .c05 import GENOME, _report, _runner
from .c06 import optional_deref_guarded

EXPLANATION = (
    "RK: about 80 corrupted constructions / operations are interpreted by the analyser and must end in the documented "
    "exception class (BioCantorException subclass or ValueError/TypeError), sibling constructors refusing alike. R1: "
    "all raise sites in the package use documented classes. R4: every self-recursive function is classified; recursion "
    "that consumes one block / list element per call is reported (RecursionError on long inputs). R7: inconsistent None "
    "checks on optional constructor attributes. Not decided: absence of internal errors on arbitrary inputs (a general "
    "may-raise analysis of Python is out of reach); only these structural sources and the enumerated corruptions are."
)

INTERNAL = {"AttributeError", "IndexError", "KeyError", "RecursionError", "ZeroDivisionError", "StopIteration", "AssertionError",
            "Exception", "UnboundLocalError", "NameError"}


def documented(it, name):
    if name in ("ValueError", "TypeError", "NotImplementedError"):
        return True
    if not it.repo.has_cls(name):
        return False
    return any(k.name == "BioCantorException" for k in it.repo.mro(it.repo.cls(name)))


def cases(it, S):
    """(label, construct qualname, thunk, expected exception class names or None for 'any documented')"""
    F, P = it.enum("CDSFrame"), it.enum("CDSPhase")
    A = it.enum("Alphabet")
    st = it.enum("SequenceType")
    LOC = "location.location_impl"
    par = chrom_parent(it, GENOME, alphabet="NT_EXTENDED")
    si = lambda *a, **k: it.apply(ClassTok("SingleInterval"), list(a), k, None, 0)  # noqa: E731
    ci = lambda *a, **k: it.apply(ClassTok("CompoundInterval"), list(a), k, None, 0)  # noqa: E731
    out = []
    add = lambda label, qual, thunk, want=None: out.append((label, qual, thunk, want))  # noqa: E731
    # --- locations
    add("SingleInterval start > end", f"{LOC}:SingleInterval.__init__", lambda: si(5, 3, S["PLUS"]), {"InvalidPositionException"})
    add("SingleInterval negative start", f"{LOC}:SingleInterval.__init__", lambda: si(-1, 3, S["PLUS"]), {"InvalidPositionException"})
    add("SingleInterval beyond the parent sequence", f"{LOC}:SingleInterval.__init__", lambda: si(3, len(GENOME) + 1, S["PLUS"], parent=par), {"InvalidPositionException"})
    add("CompoundInterval without blocks", f"{LOC}:CompoundInterval.__init__", lambda: ci([], [], S["PLUS"]), {"LocationException"})
    add("CompoundInterval unequal starts / ends", f"{LOC}:CompoundInterval.__init__", lambda: ci([1, 5], [3], S["PLUS"]), {"LocationException"})
    add("CompoundInterval block start > end", f"{LOC}:CompoundInterval.__init__", lambda: ci([1, 9], [3, 7], S["PLUS"]), {"InvalidPositionException"})
    add("CompoundInterval negative start", f"{LOC}:CompoundInterval.__init__", lambda: ci([-5, 10], [3, 12], S["PLUS"]), {"InvalidPositionException"})
    add("CompoundInterval beyond the parent sequence", f"{LOC}:CompoundInterval.__init__",
        lambda: it.getattr(ci([1, 10], [3, len(GENOME) + 4], S["PLUS"], parent=par), "blocks", None, 0), {"InvalidPositionException"})
    add("shift_position below zero", f"{LOC}:SingleInterval.shift_position", lambda: it.call_func(it.repo.fn(f"{LOC}:SingleInterval.shift_position"), [-9], {}, si(3, 8, S["PLUS"]), 0), {"InvalidPositionException"})
    # shifting past the end of the sequence the location sits on: every block is checked, also a long block that is not
    # the last one in start order (nested / overlapping layouts)
    for lay, shift in (([(0, 9), (2, 4)], 43), ([(0, 9), (2, 4)], 42), ([(1, 5), (8, 12)], 40), ([(0, 30), (3, 5), (7, 9)], 25)):
        for sn in ("PLUS", "MINUS"):
            add(f"compound shift_position past the parent sequence {lay}+{shift} {sn}", f"{LOC}:CompoundInterval.shift_position",
                (lambda lay=lay, shift=shift, sn=sn: it.call_func(it.repo.fn(f"{LOC}:CompoundInterval.shift_position"), [shift], {},
                                                                  ci([b[0] for b in lay], [b[1] for b in lay], S[sn], parent=par), 0)),
                {"InvalidPositionException"})
    add("single shift_position past the parent sequence", f"{LOC}:SingleInterval.shift_position",
        lambda: it.call_func(it.repo.fn(f"{LOC}:SingleInterval.shift_position"), [len(GENOME)], {}, si(3, 8, S["PLUS"], parent=par), 0),
        {"InvalidPositionException"})
    # a refused codon spelling is refused every time (the intern table must not keep the half-built object)
    for bad_codon in ("A-G", "AT", "XYZ", "ATGA"):
        def twice(c=bad_codon):
            try:
                it.apply(ClassTok("Codon"), [c], {}, None, 0)
            except Raised:
                pass
            return it.apply(ClassTok("Codon"), [c], {}, None, 0)
        add(f"Codon({bad_codon!r}) constructed a second time", "gene.codon:Codon.__init__", twice, {"ValueError"})
        add(f"Codon({bad_codon!r})", "gene.codon:Codon.__init__", (lambda c=bad_codon + "": it.apply(ClassTok("Codon"), [c.lower()], {}, None, 0)), {"ValueError"})
    add("compound shift_position below zero", f"{LOC}:CompoundInterval.shift_position", lambda: it.call_func(it.repo.fn(f"{LOC}:CompoundInterval.shift_position"), [-9], {}, ci([3, 12], [8, 15], S["PLUS"]), 0), {"InvalidPositionException"})
    add("extend_absolute negative", f"{LOC}:SingleInterval.extend_absolute", lambda: it.call_func(it.repo.fn(f"{LOC}:SingleInterval.extend_absolute"), [-1, 2], {}, si(3, 8, S["PLUS"]), 0), {"ValueError"})
    add("extend_absolute below zero", f"{LOC}:SingleInterval.extend_absolute", lambda: it.call_func(it.repo.fn(f"{LOC}:SingleInterval.extend_absolute"), [5, 0], {}, si(3, 8, S["PLUS"]), 0), {"InvalidPositionException"})
    for cls, mk in (("SingleInterval", lambda: si(3, 9, S["UNSTRANDED"], parent=par)), ("CompoundInterval", lambda: ci([3, 12], [8, 15], S["UNSTRANDED"], parent=par))):
        for meth, args in (("extract_sequence", []), ("relative_to_parent_pos", [1]), ("parent_to_relative_pos", [4]),
                           ("relative_interval_to_parent_location", [0, 2, S["PLUS"]]), ("extend_relative", [1, 1])):
            add(f"{cls}.{meth} on an unstranded location", f"{LOC}:{cls}.{meth}",
                (lambda cls=cls, mk=mk, meth=meth, args=args: it.call_func(it.repo.fn(f"{LOC}:{cls}.{meth}"), list(args), {}, mk(), 0)),
                {"InvalidStrandException"})
    add("scan_windows on an unstranded location", "location.location:Location.scan_windows",
        lambda: it.iterate(it.call_func(it.repo.fn("location.location:Location.scan_windows"), [3, 3], {}, si(3, 12, S["UNSTRANDED"]), 0)), {"InvalidStrandException"})
    for label, args in (("window larger than the location", [20, 1]), ("zero step", [3, 0]), ("start position outside", [3, 3, 40]),
                        ("start + window beyond the end", [5, 1, 6]), ("negative start position", [3, 3, -1])):
        add(f"scan_windows {label}", "location.location:Location.scan_windows",
            (lambda args=args: it.iterate(it.call_func(it.repo.fn("location.location:Location.scan_windows"), list(args), {}, si(3, 12, S["PLUS"]), 0))), {"ValueError"})
    add("union of different strands", f"{LOC}:SingleInterval.union", lambda: it.call_func(it.repo.fn(f"{LOC}:SingleInterval.union"), [si(5, 9, S["MINUS"])], {}, si(3, 8, S["PLUS"]), 0), {"ValueError"})
    add("location_relative_to without overlap", "location.location:Location.location_relative_to",
        lambda: it.call_func(it.repo.fn("location.location:Location.location_relative_to"), [si(20, 25, S["PLUS"])], {}, si(3, 8, S["PLUS"]), 0), {"LocationOverlapException"})
    # distances are only defined inside one coordinate system: every distance type refuses mismatched parents, on both classes
    DT = it.enum("DistanceType")
    other_par = mk_parent(it, id="another_chromosome")
    for dt in ("INNER", "OUTER", "STARTS", "ENDS"):
        for rcls, rmk in (("SingleInterval", lambda p_: si(3, 8, S["PLUS"], parent=p_)), ("CompoundInterval", lambda p_: ci([3, 12], [8, 15], S["PLUS"], parent=p_))):
            for acls, amk in (("single", lambda p_: si(20, 25, S["PLUS"], parent=p_)), ("compound", lambda p_: ci([20, 30], [25, 33], S["PLUS"], parent=p_))):
                add(f"{rcls}.distance_to({acls}, {dt}) across different parents", f"{LOC}:{rcls}.distance_to",
                    (lambda rcls=rcls, rmk=rmk, amk=amk, dt=dt: it.call_func(it.repo.fn(f"{LOC}:{rcls}.distance_to"), [amk(other_par), DT[dt]], {}, rmk(par), 0)),
                    {"MismatchedParentException", "NullParentException"})
    add("set algebra with mismatched parents (strict)", f"{LOC}:SingleInterval.intersection",
        lambda: it.call_func(it.repo.fn(f"{LOC}:SingleInterval.intersection"), [si(5, 9, S["PLUS"], parent="other")], {"strict_parent_compare": True}, si(3, 8, S["PLUS"], parent=par), 0), {"MismatchedParentException"})
    add("lift-over without such ancestor", "location.location:Location.lift_over_to_first_ancestor_of_type",
        lambda: it.call_func(it.repo.fn("location.location:Location.lift_over_to_first_ancestor_of_type"), ["nothing"], {}, si(3, 8, S["PLUS"], parent=par), 0), {"NoSuchAncestorException"})
    add("lift-over without parent", "location.location:Location.lift_over_to_first_ancestor_of_type",
        lambda: it.call_func(it.repo.fn("location.location:Location.lift_over_to_first_ancestor_of_type"), ["chromosome"], {}, si(3, 8, S["PLUS"]), 0), {"NoSuchAncestorException"})
    # --- parents and sequences
    add("Parent strand contradicts its location", "parent.parent:Parent.__init__", lambda: mk_parent(it, strand=S["MINUS"], location=si(1, 4, S["PLUS"])), {"InvalidStrandException"})
    add("Parent location beyond its sequence", "parent.parent:Parent.__init__", lambda: mk_parent(it, location=si(1, 40, S["PLUS"]), sequence=mk_sequence(it, "ACGT", "NT_STRICT")), {"InvalidPositionException"})
    add("Parent with two different ids", "parent.parent:Parent.__init__", lambda: mk_parent(it, id="a", sequence=mk_sequence(it, "ACGT", "NT_STRICT", id="b")), {"ParentException"})
    add("Parent longer than its own parent", "parent.parent:Parent.__init__",
        lambda: mk_parent(it, sequence=mk_sequence(it, "ACGTACGT", "NT_STRICT"), parent=mk_parent(it, sequence=mk_sequence(it, "ACG", "NT_STRICT"))), {"LocationException"})
    add("Sequence violating its alphabet", "sequence.sequence:Sequence.__init__", lambda: mk_sequence(it, "ACGTX", "NT_STRICT"), {"AlphabetError"})
    # characters that are not letters of the alphabet are refused wherever they stand: blanks, line ends, digits, at either end or inside
    for label, text in (("trailing newline", "ACGT\n"), ("leading newline", "\nACGT"), ("trailing blank", "ACGT "), ("inner blank", "AC GT"),
                        ("trailing CRLF", "ACGT\r\n"), ("inner newline", "AC\nGT"), ("tab", "ACGT\t"), ("digit", "ACG7"), ("lower-case stranger", "acgx"),
                        ("newline only", "\n")):
        for alpha in ("NT_STRICT", "NT_EXTENDED_GAPPED"):
            add(f"Sequence with a {label} ({alpha})", "sequence.sequence:Sequence.__init__", (lambda text=text, alpha=alpha: mk_sequence(it, text, alpha)), {"AlphabetError"})
        add(f"validate_alphabet with a {label}", "sequence.sequence:Sequence.validate_alphabet",
            (lambda text=text: it.call_func(it.repo.fn("sequence.sequence:Sequence.validate_alphabet"), [text, it.enum("Alphabet")["NT_STRICT"]], {}, None, 0)), {"AlphabetError"})
    add("variant allele with a trailing newline", "gene.variants:VariantInterval.__init__",
        lambda: it.apply(ClassTok("VariantInterval"), [3, 4, "T\n", "SNV"], {"parent_or_seq_chunk_parent": par}, None, 0), {"AlphabetError"})
    add("Sequence length differs from its parent location", "sequence.sequence:Sequence.__init__",
        lambda: mk_sequence(it, "ACGT", "NT_STRICT", parent=mk_parent(it, location=si(0, 9, S["PLUS"]))), {"MismatchedParentException"})
    add("reverse complement of a protein", "sequence.sequence:Sequence.reverse_complement",
        lambda: it.call_func(it.repo.fn("sequence.sequence:Sequence.reverse_complement"), [], {}, mk_sequence(it, "MKL", "AA"), 0), {"AlphabetError"})
    add("append of different alphabets", "sequence.sequence:Sequence.append",
        lambda: it.call_func(it.repo.fn("sequence.sequence:Sequence.append"), [mk_sequence(it, "AC", "NT_EXTENDED")], {}, mk_sequence(it, "AC", "NT_STRICT"), 0), {"ValueError"})

    def located(s, e, strand):
        loc = si(s, e, S[strand], parent=par)
        seq = it.call_func(it.repo.fn(f"{LOC}:SingleInterval.extract_sequence"), [], {}, loc, 0)
        return mk_sequence(it, seq.fields["sequence"], "NT_EXTENDED", parent=mk_parent(it, location=loc))
    for strand, a, b, label in (("PLUS", (3, 9), (7, 12), "overlapping (+)"), ("PLUS", (9, 12), (3, 9), "wrong order (+)"),
                                ("MINUS", (7, 12), (3, 9), "overlapping (-)"), ("MINUS", (5, 12), (5, 9), "nested (-)"),
                                ("MINUS", (3, 9), (9, 12), "wrong order (-)"), ("MINUS", (5, 9), (5, 9), "identical (-)")):
        add(f"append of located sequences: {label}", "sequence.sequence:Sequence.append",
            (lambda strand=strand, a=a, b=b: it.call_func(it.repo.fn("sequence.sequence:Sequence.append"), [located(b[0], b[1], strand)], {}, located(a[0], a[1], strand), 0)), {"ValueError"})
    # --- CDS / transcripts / features
    fr = lambda *v: [F[x] for x in v]  # noqa: E731
    cds = lambda **k: it.apply(ClassTok("CDSInterval"), [], k, None, 0)  # noqa: E731
    add("CDS frames fewer than blocks", "gene.cds:CDSInterval.__init__", lambda: cds(cds_starts=[3, 12], cds_ends=[9, 18], strand=S["PLUS"], frames_or_phases=fr("ZERO")), {"MismatchedFrameException"})
    add("CDS of zero length", "gene.cds:CDSInterval.__init__", lambda: cds(cds_starts=[3], cds_ends=[3], strand=S["PLUS"], frames_or_phases=fr("ZERO")), {"InvalidCDSIntervalError"})
    add("CDS mixing frame then phase", "gene.cds:CDSInterval.__init__", lambda: cds(cds_starts=[3, 12], cds_ends=[9, 18], strand=S["PLUS"], frames_or_phases=[F["ZERO"], P["ONE"]]), {"MismatchedFrameException"})
    add("CDS mixing phase then frame", "gene.cds:CDSInterval.__init__", lambda: cds(cds_starts=[3, 12], cds_ends=[9, 18], strand=S["PLUS"], frames_or_phases=[P["ZERO"], F["ONE"]]), {"MismatchedFrameException"})
    add("CDS mixing frame, frame, phase", "gene.cds:CDSInterval.__init__", lambda: cds(cds_starts=[3, 12, 20], cds_ends=[9, 18, 25], strand=S["PLUS"], frames_or_phases=[F["ZERO"], F["ZERO"], P["ONE"]]), {"MismatchedFrameException"})
    add("CDS unequal starts / ends", "gene.cds:CDSInterval.__init__", lambda: cds(cds_starts=[3, 12], cds_ends=[9], strand=S["PLUS"], frames_or_phases=fr("ZERO", "ZERO")), {"ValidationException"})
    tx = "gene.transcript:TranscriptInterval.__init__"
    add("transcript CDS starts without ends", tx, lambda: mk_transcript(it, [(3, 20)], S["PLUS"], cds_starts=[5]), {"InvalidCDSIntervalError"})
    add("transcript CDS ends without starts", tx, lambda: mk_transcript(it, [(3, 20)], S["PLUS"], cds_ends=[9]), {"InvalidCDSIntervalError"})
    add("transcript CDS starts before the exons", tx, lambda: mk_transcript(it, [(3, 20)], S["PLUS"], [(1, 9)], fr("ZERO")), {"InvalidCDSIntervalError"})
    add("transcript CDS ends after the exons", tx, lambda: mk_transcript(it, [(3, 20)], S["PLUS"], [(5, 22)], fr("ZERO")), {"InvalidCDSIntervalError"})
    add("transcript CDS without frames", tx, lambda: mk_transcript(it, [(3, 20)], S["PLUS"], cds_starts=[5], cds_ends=[9]), {"InvalidCDSIntervalError"})
    add("transcript CDS frames count", tx, lambda: mk_transcript(it, [(3, 20)], S["PLUS"], [(5, 9)], fr("ZERO", "ONE")), {"InvalidCDSIntervalError"})
    add("transcript unequal CDS starts / ends", tx, lambda: mk_transcript(it, [(3, 20)], S["PLUS"], cds_starts=[5, 12], cds_ends=[9], cds_frames=fr("ZERO", "ZERO")), {"InvalidCDSIntervalError"})
    add("transcript unequal exon starts / ends", tx, lambda: it.apply(ClassTok("TranscriptInterval"), [], dict(exon_starts=[3, 9], exon_ends=[5], strand=S["PLUS"]), None, 0), {"ValidationException"})
    add("transcript exon start > end", tx, lambda: mk_transcript(it, [(9, 3)], S["PLUS"]), {"InvalidPositionException"})
    add("feature unequal starts / ends", "gene.feature:FeatureInterval.__init__", lambda: it.apply(ClassTok("FeatureInterval"), [], dict(interval_starts=[3], interval_ends=[5, 9], strand=S["PLUS"]), None, 0), {"ValidationException"})
    add("feature negative start", "gene.feature:FeatureInterval.__init__", lambda: mk_feature(it, [(-3, 5), (7, 9)], S["PLUS"]), {"InvalidPositionException"})
    add("feature beyond the chromosome", "gene.feature:FeatureInterval.__init__", lambda: mk_feature(it, [(3, len(GENOME) + 5)], S["PLUS"], parent_or_seq_chunk_parent=par), {"InvalidPositionException"})
    add("qualifiers not a dictionary", "gene.feature:FeatureInterval.__init__", lambda: mk_feature(it, [(3, 9)], S["PLUS"], qualifiers=["a"]), {"ValidationException"})
    add("qualifier values not lists", "gene.feature:FeatureInterval.__init__", lambda: mk_feature(it, [(3, 9)], S["PLUS"], qualifiers={"a": "b"}), {"ValidationException"})
    add("non-coding transcript asked for its CDS", "gene.transcript:TranscriptInterval.cds_pos_to_sequence",
        lambda: it.call_func(it.repo.fn("gene.transcript:TranscriptInterval.cds_pos_to_sequence"), [0], {}, mk_transcript(it, [(3, 20)], S["PLUS"]), 0), {"NoncodingTranscriptError"})
    add("chunk-relative export without a chunk", "gene.transcript:TranscriptInterval.to_gff",
        lambda: it.iterate(it.call_func(it.repo.fn("gene.transcript:TranscriptInterval.to_gff"), [], {"chromosome_relative_coordinates": False}, mk_transcript(it, [(3, 20)], S["PLUS"], sequence_name="c"), 0)), {"NoSuchAncestorException"})
    add("GFF export without a sequence name", "gene.transcript:TranscriptInterval.to_gff",
        lambda: it.iterate(it.call_func(it.repo.fn("gene.transcript:TranscriptInterval.to_gff"), [], {}, mk_transcript(it, [(3, 20)], S["PLUS"]), 0)), {"GFF3MissingSequenceNameError"})
    # --- collections (siblings must agree)
    t1 = lambda: mk_transcript(it, [(3, 20)], S["PLUS"], transcript_id="t")  # noqa: E731
    f1 = lambda: mk_feature(it, [(3, 20)], S["PLUS"], feature_name="f")  # noqa: E731
    var = lambda s, e, alt="A": it.apply(ClassTok("VariantInterval"), [s, e, alt, "x"], {}, None, 0)  # noqa: E731
    add("empty gene", "gene.gene:GeneInterval.__init__", lambda: mk_gene(it, []), {"InvalidAnnotationError"})
    add("empty feature collection", "gene.feature:FeatureIntervalCollection.__init__", lambda: mk_feature_collection(it, []), {"InvalidAnnotationError"})
    add("empty variant collection", "gene.variants:VariantIntervalCollection.__init__", lambda: it.apply(ClassTok("VariantIntervalCollection"), [[]], {}, None, 0), {"InvalidAnnotationError"})
    add("gene with the same transcript twice", "gene.gene:GeneInterval.__init__", lambda: mk_gene(it, [t1(), t1()]), {"DuplicateTranscriptError"})
    # children that carry the same identifier (given explicitly, as from_dict does with serialised identifiers) and differ in content
    import uuid as _uuid
    same = _uuid.UUID(int=0x5a5a)
    add("gene with two different transcripts under one guid", "gene.gene:GeneInterval.__init__",
        lambda: mk_gene(it, [mk_transcript(it, [(3, 20)], S["PLUS"], transcript_id="a", guid=same), mk_transcript(it, [(5, 30)], S["PLUS"], transcript_id="b", guid=same)]),
        {"DuplicateTranscriptError"})
    add("gene with two transcripts under one guid that differ in their id only", "gene.gene:GeneInterval.__init__",
        lambda: mk_gene(it, [mk_transcript(it, [(3, 20)], S["PLUS"], transcript_id="a", guid=same), mk_transcript(it, [(3, 20)], S["PLUS"], transcript_id="b", guid=same)]),
        {"DuplicateTranscriptError"})
    add("feature collection with two different features under one guid", "gene.feature:FeatureIntervalCollection.__init__",
        lambda: mk_feature_collection(it, [mk_feature(it, [(3, 20)], S["PLUS"], feature_name="a", guid=same), mk_feature(it, [(5, 30)], S["MINUS"], feature_name="b", guid=same)]),
        {"DuplicateFeatureError"})
    add("feature collection with the same feature twice", "gene.feature:FeatureIntervalCollection.__init__", lambda: mk_feature_collection(it, [f1(), f1()]), {"DuplicateFeatureError"})
    add("variant collection with the same variant twice", "gene.variants:VariantIntervalCollection.__init__",
        lambda: it.apply(ClassTok("VariantIntervalCollection"), [[var(3, 4), var(3, 4)]], {}, None, 0), {"DuplicateFeatureError", "LocationOverlapException"})
    add("overlapping variants", "gene.variants:VariantIntervalCollection.__init__", lambda: it.apply(ClassTok("VariantIntervalCollection"), [[var(3, 8), var(6, 9)]], {}, None, 0), {"LocationOverlapException"})
    # the refusal does not depend on the order the variants are supplied in (overlapping pair apart / nested pair around a third)
    for label, lst in (("overlapping variants supplied apart", [(2, 6), (20, 22), (4, 8)]), ("overlapping variants, reverse order", [(20, 22), (4, 8), (2, 6)]),
                       ("nested variants supplied apart", [(10, 20), (30, 31), (12, 14)]), ("overlapping variants among four", [(30, 31), (5, 9), (40, 42), (8, 12)])):
        add(label, "gene.variants:VariantIntervalCollection.__init__",
            lambda lst=lst: it.apply(ClassTok("VariantIntervalCollection"), [[var(a, b) for a, b in lst]], {}, None, 0), {"LocationOverlapException"})
    add("variant of zero length", "gene.variants:VariantInterval.__init__", lambda: var(3, 3), {"EmptyLocationException"})
    add("two primary transcripts", "gene.gene:GeneInterval.__init__",
        lambda: mk_gene(it, [mk_transcript(it, [(3, 20)], S["PLUS"], is_primary_tx=True, transcript_id="a"), mk_transcript(it, [(4, 20)], S["PLUS"], is_primary_tx=True, transcript_id="b")]), {"ValidationException"})
    add("annotation collection with start but no end", "gene.collections:AnnotationCollection.__init__", lambda: mk_collection(it, None, None, start=3), {"InvalidAnnotationError"})
    add("annotation collection with end but no start", "gene.collections:AnnotationCollection.__init__", lambda: mk_collection(it, None, None, end=3), {"InvalidAnnotationError"})
    add("annotation collection with two equal genes", "gene.collections:AnnotationCollection.hierarchical_children_guids",
        lambda: it.getattr(mk_collection(it, [mk_gene(it, [t1()], gene_id="g"), mk_gene(it, [t1()], gene_id="g")], None), "hierarchical_children_guids", None, 0), {"InvalidAnnotationError"})
    # moving an interval to a parent of another chromosome is refused - with and without sequence on either side
    ST = it.enum("SequenceType")
    fmv = "gene.interval:AbstractInterval.liftover_to_parent_or_seq_chunk_parent"
    bare1 = lambda: mk_parent(it, id="chr1", sequence_type=ST["CHROMOSOME"])  # noqa: E731
    bare2 = lambda: mk_parent(it, id="chr2", sequence_type=ST["CHROMOSOME"])  # noqa: E731
    add("interval moved to another chromosome (no sequences)", fmv,
        lambda: it.call_func(it.repo.fn(fmv), [bare2()], {}, mk_feature(it, [(3, 9)], S["PLUS"], parent_or_seq_chunk_parent=bare1()), 0), {"MismatchedParentException"})
    add("interval moved to another chromosome (target has sequence)", fmv,
        lambda: it.call_func(it.repo.fn(fmv), [chrom_parent(it, GENOME, seq_id="chr2")], {}, mk_feature(it, [(3, 9)], S["PLUS"], parent_or_seq_chunk_parent=bare1()), 0),
        {"MismatchedParentException"})
    add("interval moved to another chromosome (both have sequence)", fmv,
        lambda: it.call_func(it.repo.fn(fmv), [chrom_parent(it, GENOME, seq_id="chr2")], {}, mk_feature(it, [(3, 9)], S["PLUS"], parent_or_seq_chunk_parent=par), 0),
        {"MismatchedParentException"})
    # the data model of a sequence-chunk parent: name, start and end are each required
    pm = lambda **kw: it.call_func(it.repo.fn("io.models:ParentModel.to_parent"), [], {},  # noqa: E731
                                   it.apply(ClassTok("ParentModel"), [], dict(seq="ACGTACGT", type="SEQUENCE_CHUNK", **kw), None, 0), 0)
    add("chunk parent model without a start", "io.models:ParentModel.to_parent", lambda: pm(sequence_name="c", end=8), {"InvalidInputError"})
    add("chunk parent model without an end", "io.models:ParentModel.to_parent", lambda: pm(sequence_name="c", start=0), {"InvalidInputError"})
    add("chunk parent model without start and end", "io.models:ParentModel.to_parent", lambda: pm(sequence_name="c"), {"InvalidInputError"})
    add("chunk parent model without a sequence name", "io.models:ParentModel.to_parent", lambda: pm(start=0, end=8), {"InvalidInputError"})
    add("chunk parent without a chromosome", "gene.interval:AbstractInterval.liftover_location_to_seq_chunk_parent",
        lambda: mk_feature(it, [(3, 9)], S["PLUS"], parent_or_seq_chunk_parent=mk_parent(it, id="x", sequence=mk_sequence(it, "ACGTACGTACGT", "NT_STRICT", type=st["SEQUENCE_CHUNK"]))), {"NoSuchAncestorException"})
    return out


def rk_corruptions(ctx):
    r, repo = ctx.r, ctx.repo
    it = gene_interp(repo, max_steps=10 ** 10)
    S = strands(it)
    n = 0
    for label, qual, thunk, want in cases(it, S):
        n += 1
        try:
            where = repo.fn(qual)
        except Exception:
            where = None
        try:
            v = thunk()
            outcome = ("ok", v)
        except Raised as ex:
            outcome = ("raise", ex.exc_name)
        except Uninterpretable as ex:
            r.undecide("C19.RK", qual, label, f"not interpretable: {ex}", where)
            continue
        if outcome[0] == "ok":
            shown = outcome[1]
            if isinstance(shown, Obj) and shown.cls_name in ("SingleInterval", "CompoundInterval"):
                shown = f"{shown.cls_name}{blocks_of(shown)} ({well_formed(shown) or 'accepted'})"
            r.violation("C19.RK", qual, label, f"{label}: accepted, returns {str(shown)[:120]}; documented refusal is {sorted(want) if want else 'a BioCantor exception'}", where)
        elif outcome[1] in INTERNAL or not documented(it, outcome[1]):
            r.violation("C19.RK", qual, label, f"{label}: raises internal {outcome[1]} instead of a documented exception ({sorted(want) if want else ''})", where)
        elif want and outcome[1] not in want and not any(it.exc_matches(outcome[1], w) for w in want):
            r.violation("C19.RK", qual, label, f"{label}: raises {outcome[1]}; its siblings / the documentation use {sorted(want)}", where)
        else:
            r.ok("C19.RK", qual, label, where, f"raises {outcome[1]}")
    r.floor("C19.RK", "corrupted inputs", n, 70)


def rb_built_objects_well_formed(ctx):
    """valid constructor calls at extreme coordinates (at and around the upper limit of the binning scheme) build well-formed
    objects: the stored bin is one integer bin id, start / end are the given integers, the location has that span"""
    r, repo = ctx.r, ctx.repo
    it = gene_interp(repo, max_steps=10 ** 9)
    S = strands(it)
    top = 2 ** 29
    n = 0
    for lo, hi in ((top - 100, top), (top - 100, top - 1), (top - 1, top), (top, top + 50), (top - 50, top + 50), (0, top), (131072, 262144)):
        for kind in ("TranscriptInterval", "FeatureInterval", "GeneInterval", "FeatureIntervalCollection", "VariantInterval", "AnnotationCollection"):
            n += 1
            mod = {"TranscriptInterval": "gene.transcript", "FeatureInterval": "gene.feature", "GeneInterval": "gene.gene",
                   "FeatureIntervalCollection": "gene.feature", "VariantInterval": "gene.variants", "AnnotationCollection": "gene.collections"}[kind]
            q = f"{mod}:{kind}.__init__"
            try:
                tx = mk_transcript(it, [(lo, hi)], S["PLUS"])
                ft = mk_feature(it, [(lo, hi)], S["MINUS"])
                o = {"TranscriptInterval": lambda: tx, "FeatureInterval": lambda: ft, "GeneInterval": lambda: mk_gene(it, [tx]),
                     "FeatureIntervalCollection": lambda: mk_feature_collection(it, [ft]),
                     "VariantInterval": lambda: it.apply(ClassTok("VariantInterval"), [lo, hi, "A", "x"], {}, None, 0),
                     "AnnotationCollection": lambda: mk_collection(it, [mk_gene(it, [tx])], None, start=lo, end=hi)}[kind]()
            except Raised as ex:
                r.violation("C19.RB", q, f"[{lo},{hi}) accepted", f"{kind} over the valid interval [{lo},{hi}) is refused with {ex.exc_name}", repo.where(q))
                continue
            b = o.fields.get("bin")
            ok = isinstance(b, int) and not isinstance(b, bool) and o.fields.get("start") == lo and o.fields.get("end") == hi
            r.check(ok, "C19.RB", q, f"well-formed at [{'2^29' if lo == top else lo if lo < 10 ** 6 else '2^29-' + str(top - lo)},"
                    f"{'2^29' if hi == top else '2^29+' + str(hi - top) if hi > top else hi if hi < 10 ** 6 else '2^29-' + str(top - hi)})",
                    f"{kind} over [{lo},{hi}) is built with bin={b!r} (type {type(b).__name__}), start={o.fields.get('start')}, end={o.fields.get('end')}: "
                    f"the stored bin must be one integer bin id", repo.where(q))
    r.floor("C19.RB", "objects built at extreme coordinates", n, 30)


def ri_intersect(ctx):
    """TranscriptInterval.intersect / FeatureInterval.intersect: a well-formed interval covering exactly the shared bases on the
    interval's own strand (the query's strand is ignored, as documented), or the documented refusal when nothing is shared"""
    r, repo = ctx.r, ctx.repo
    it = gene_interp(repo, max_steps=10 ** 9)
    S = strands(it)
    si = lambda a, b, sn: it.apply(ClassTok("SingleInterval"), [a, b, S[sn]], {}, None, 0)  # noqa: E731
    ci = lambda bl, sn: it.apply(ClassTok("CompoundInterval"), [[x[0] for x in bl], [x[1] for x in bl], S[sn]], {}, None, 0)  # noqa: E731
    n = 0
    layouts = [[(4, 10)], [(4, 10), (14, 20)], [(2, 5), (8, 12), (20, 26)]]
    queries = [[(0, 3)], [(0, 5)], [(6, 16)], [(9, 15)], [(10, 14)], [(0, 30)], [(3, 9), (11, 22)], [(24, 30)], [(19, 20)]]
    for kind, mod, mk in (("TranscriptInterval", "gene.transcript", mk_transcript), ("FeatureInterval", "gene.feature", mk_feature)):
        fn = repo.fn(f"{mod}:{kind}.intersect")
        for lay in layouts:
            for sn in ("PLUS", "MINUS"):
                for q in queries:
                    for qs in ("PLUS", "MINUS", "UNSTRANDED"):
                        if qs == "UNSTRANDED" and len(q) + len(lay) > 2:
                            continue
                        n += 1
                        # (an interval that carries qualifiers of its own and is given no new ones is refused with ValidationException on
                        # the reviewed tree - its qualifier sets are handed to a constructor that wants lists. A documented class, so
                        # outside this property; the cases here pass new qualifiers or carry none)
                        obj = mk(it, lay, S[sn], qualifiers={"k": ["v"]} if n % 2 else None)
                        loc = si(q[0][0], q[0][1], qs) if len(q) == 1 else ci(q, qs)
                        k, v = run(it, fn, [loc], {"new_qualifiers": {"n": ["1"]}} if n % 2 else {}, obj)
                        A = {p for a, b in lay for p in range(a, b)}
                        B = {p for a, b in q for p in range(a, b)}
                        desc = f"{kind} {lay}:{sn} intersect {q}:{qs}"
                        if not (A & B):
                            r.check(k == "raise" and v == "EmptyLocationException", "C19.RI", fn.qual, "disjoint intersect refused",
                                    f"{desc} -> {k}:{v if k == 'raise' else 'an object'}; nothing is shared: documented EmptyLocationException", fn)
                            continue
                        if k != "ok":
                            r.violation("C19.RI", fn.qual, "overlapping intersect answers", f"{desc} raises {v}; shared bases {sorted(A & B)}", fn)
                            continue
                        got = {p for a, b in zip(v.fields["_genomic_starts"], v.fields["_genomic_ends"]) for p in range(a, b)}
                        gs = v.fields["_strand"].name if hasattr(v.fields.get("_strand"), "name") else None
                        r.check(v.cls_name == kind and got == (A & B) and gs == sn and well_formed(v.fields["_location"]) in (None, ""),
                                "C19.RI", fn.qual, "intersect = shared bases on the interval's strand",
                                f"{desc} -> {v.cls_name} covering {sorted(got)} on {gs}; the shared bases are {sorted(A & B)} on {sn}", fn)
    r.floor("C19.RI", "intersect cases", n, 200)


def r1_raise_discipline(ctx):
    r, repo = ctx.r, ctx.repo
    it = gene_interp(repo)
    n = 0
    for fn in repo.all_funcs():
        for node in walk_shallow(fn.node):
            if not isinstance(node, ast.Raise) or node.exc is None:
                continue
            e = node.exc
            nm = (dotted(e.func) if isinstance(e, ast.Call) else dotted(e)) or ""
            nm = nm.split(".")[-1]
            if not nm or nm[0].islower():
                continue  # re-raise of a caught exception object
            n += 1
            ok = documented(it, nm) or nm in ("RuntimeError", "StopIteration") or nm.endswith("Warning")
            r.check(ok and nm not in INTERNAL, "C19.R1", fn.qual, f"raise {nm}",
                    f"`{src(node)[:90]}` raises {nm}, which is neither a BioCantorException subclass nor a documented built-in", (fn, node))
    r.floor("C19.R1", "raise sites", n, 200)


def r4_recursion(ctx):
    r, repo = ctx.r, ctx.repo
    n = 0
    for fn in repo.all_funcs():
        selfcalls = []
        for c in calls_in(fn.node, shallow=False):
            f = c.func
            if isinstance(f, ast.Name) and f.id == fn.name and fn.parent is not None:
                selfcalls.append(c)
            elif isinstance(f, ast.Name) and f.id == fn.name and fn.cls is None and fn.name in fn.module.funcs:
                selfcalls.append(c)
            elif isinstance(f, ast.Attribute) and f.attr == fn.name and fn.cls is not None:
                recv = src(f.value)
                # delegation to another object's method of the same name is recursion only if that object can be
                # of the same class and is not structurally smaller
                selfcalls.append(c)
        for c in selfcalls:
            n += 1
            f = c.func
            recv = src(f.value) if isinstance(f, ast.Attribute) else ""
            args = [src(a) for a in c.args]
            kind = None
            if ".parent" in recv or recv.endswith("parent") or "lifted_to_grandparent" in recv:
                kind = "ancestor chain"
            elif recv in ("other", "block", "self._full_span_interval", "fs", "intersect_other_strand", "single_interval", "interval",
                          "self_single_interval", "child", "tx", "self.cds", "left_flank", "extended", "self.reset_parent(None)._full_span_interval"):
                kind = "dispatch to another object / a block"
            elif isinstance(f, ast.Attribute) and recv not in ("self",):
                kind = "delegation"
            elif isinstance(f, ast.Name) and fn.name.startswith("_order_dict"):
                kind = "nested dictionary"
            elif isinstance(f, ast.Name) and any(a in ("val",) for a in args):
                kind = "nested dictionary"
            if kind is None and any(".parent" in a for a in args):
                kind = "ancestor chain"
            if kind is None:
                # one call per consumed element of a sequence: the callee advances an iterator it hands on (`next(it)` ... `f(it)`),
                # or hands on the rest of a sequence (`xs[1:]`, `first, *rest = xs` ... `f(rest)`)
                params = set(fn.params)
                advanced = {dotted(x.args[0]) for x in calls_in(fn.node, shallow=False)
                            if isinstance(x.func, ast.Name) and x.func.id == "next" and x.args}
                rests = {t_.value.id for st_ in ast.walk(fn.node) if isinstance(st_, ast.Assign) for tg_ in st_.targets
                         if isinstance(tg_, (ast.Tuple, ast.List)) for t_ in tg_.elts if isinstance(t_, ast.Starred) and isinstance(t_.value, ast.Name)}
                sized = False
                for a_ in c.args:
                    if isinstance(a_, ast.Name) and (a_.id in advanced & params or a_.id in rests):
                        sized = True
                    if isinstance(a_, ast.Subscript) and isinstance(a_.slice, ast.Slice) and a_.slice.lower is not None and dotted(a_.value) in params:
                        sized = True
                if sized:
                    r.violation("C19.R4", fn.qual, f"data-sized recursion `{src(c)[:70]}`",
                                f"`{src(c)[:90]}`: {fn.name} calls itself once per consumed element (no structural measure such as the ancestor "
                                f"chain): a location with more blocks than the interpreter's recursion limit raises RecursionError", (fn, c))
                else:
                    r.note(f"C19.R4: {fn.qual} `{src(c)[:70]}`: self-call of a form this rule does not classify (neither ancestor chain / "
                           f"delegation nor one call per consumed element); not decided")
            else:
                r.ok("C19.R4", fn.qual, f"recursion `{src(c)[:50]}`: {kind}", (fn, c))
    r.floor("C19.R4", "self-referential calls classified", n, 8)


def r7_optional_attrs(ctx):
    """contradiction rule: an Optional constructor attribute that is guarded at some dereference must be guarded at all"""
    r, repo = ctx.r, ctx.repo
    n = 0
    for cname in ("GeneInterval", "TranscriptInterval", "FeatureIntervalCollection", "FeatureInterval", "AnnotationCollection",
                  "CDSInterval", "VariantInterval", "VariantIntervalCollection"):
        cls = repo.cls(cname)
        init = cls.methods.get("__init__")
        if init is None:
            continue
        optional = set()
        for node in ast.walk(init.node):
            if isinstance(node, ast.Assign) and len(node.targets) == 1 and dotted(node.targets[0]) and dotted(node.targets[0]).startswith("self.") \
                    and isinstance(node.value, ast.Name) and node.value.id in init.params:
                d = init.param_default(node.value.id)
                if isinstance(d, ast.Constant) and d.value is None:
                    optional.add(dotted(node.targets[0])[5:])
        for attr in sorted(optional):
            derefs, guarded = [], 0
            for fn in cls.methods.values():
                uses = [x for x in walk_shallow(fn.node) if isinstance(x, ast.Attribute) and dotted(x.value) == f"self.{attr}"]
                if not uses:
                    continue
                bad = optional_deref_guarded(fn, attr, set())
                guarded += len(uses) - len(bad)
                derefs += [(fn, b) for b in bad]
            if guarded and derefs:
                for fn, b in derefs:
                    n += 1
                    r.violation("C19.R7", fn.qual, f"unguarded `{src(b)}`",
                                f"`{src(b)}`: self.{attr} defaults to None and is tested before use elsewhere in {cname} ({guarded} guarded "
                                f"uses), but not here: AttributeError for objects built without {attr}", (fn, b))
            elif guarded:
                r.ok("C19.R7", cls.qual, f"self.{attr}: every dereference guarded", cls)
    r.ok("C19.R7", "gene", "optional constructor attributes", None, f"{n} unguarded dereferences")


def rv_validators(ctx):
    """the validation helpers every refusal goes through: each require_* accepts what it names and refuses the rest with its
    documented class (a helper that stops refusing disarms every caller at once)"""
    r, repo = ctx.r, ctx.repo
    it = gene_interp(repo, max_steps=10 ** 9)
    S = strands(it)
    st = it.enum("SequenceType")
    OV = "util.object_validation:ObjectValidation"
    si = lambda a, b, sn="PLUS", p=None: it.apply(ClassTok("SingleInterval"), [a, b, S[sn]], {"parent": p} if p is not None else {}, None, 0)  # noqa: E731
    seq = mk_sequence(it, "ACGTACGTACGTACGTACGT")
    seq2 = mk_sequence(it, "TTTTACGTACGTACGTACGT")
    p_id = mk_parent(it, id="chr1", sequence_type=st["CHROMOSOME"])
    p_other = mk_parent(it, id="chr2", sequence_type=st["CHROMOSOME"])
    p_seq = mk_parent(it, id="chr1", sequence_type=st["CHROMOSOME"], sequence=seq)
    p_seq2 = mk_parent(it, id="chr1", sequence_type=st["CHROMOSOME"], sequence=seq2)
    p_loc = mk_parent(it, id="chr1", sequence_type=st["CHROMOSOME"], location=si(2, 8))
    p_par = mk_parent(it, id="c", sequence_type=st["SEQUENCE_CHUNK"], parent=p_id)
    p_parloc = mk_parent(it, id="c", sequence_type=st["SEQUENCE_CHUNK"], parent=p_loc)
    table = [
        ("require_location_nonempty", [si(3, 4)], None), ("require_location_nonempty", [si(3, 3)], "LocationException"),
        ("require_location_has_parent", [si(3, 9, "PLUS", p_id)], None), ("require_location_has_parent", [si(3, 9)], "NullParentException"),
        ("require_location_has_parent_with_sequence", [si(3, 9, "PLUS", p_seq)], None),
        ("require_location_has_parent_with_sequence", [si(3, 9, "PLUS", p_id)], "NullSequenceException"),
        ("require_location_has_parent_with_sequence", [si(3, 9)], "NullParentException"),
        ("require_parent_has_location", [p_loc], None), ("require_parent_has_location", [p_id], "NullParentException"),
        ("require_parent_has_parent", [p_par], None), ("require_parent_has_parent", [p_id], "NullParentException"),
        ("require_parent_has_parent_with_location", [p_parloc], None), ("require_parent_has_parent_with_location", [p_par], "NullParentException"),
        ("require_parent_has_parent_with_location", [p_id], "NullParentException"),
        ("require_parents_equal_except_location", [None, None], None), ("require_parents_equal_except_location", [p_id, p_loc], None),
        ("require_parents_equal_except_location", [None, p_id], "MismatchedParentException"),
        ("require_parents_equal_except_location", [p_id, None], "MismatchedParentException"),
        ("require_parents_equal_except_location", [p_id, p_other], "MismatchedParentException"),
        ("require_parents_equal_except_location", [p_seq, p_seq2], "MismatchedParentException"),
        ("require_parents_equal_except_location_and_sequence", [p_seq, p_seq2], None),
        ("require_parents_equal_except_location_and_sequence", [p_seq, p_other], "MismatchedParentException"),
        ("require_locations_have_same_nonempty_parent", [si(1, 5, "PLUS", p_id), si(7, 9, "MINUS", p_loc)], None),
        ("require_locations_have_same_nonempty_parent", [si(1, 5, "PLUS", p_id), si(7, 9)], "NullParentException"),
        ("require_locations_have_same_nonempty_parent", [si(1, 5), si(7, 9, "PLUS", p_id)], "NullParentException"),
        ("require_locations_have_same_nonempty_parent", [si(1, 5, "PLUS", p_id), si(7, 9, "PLUS", p_other)], "MismatchedParentException"),
        ("require_locations_overlap", [si(1, 5), si(4, 9)], None), ("require_locations_overlap", [si(1, 5), si(5, 9)], "LocationOverlapException"),
        ("require_locations_overlap", [si(1, 5), si(4, 9, "MINUS"), True], "LocationOverlapException"),
        ("require_locations_overlap", [si(1, 5), si(4, 9, "MINUS")], None),
        ("require_locations_do_not_overlap", [si(1, 5), si(5, 9)], None), ("require_locations_do_not_overlap", [si(1, 5), si(4, 9)], "LocationOverlapException"),
        ("require_locations_do_not_overlap", [si(1, 5), si(4, 9, "MINUS"), True], None),
        ("require_locations_do_not_overlap", [si(1, 5), si(4, 9, "MINUS")], "LocationOverlapException"),
    ]
    n = 0
    seen = set()
    for name, args, want in table:
        if not repo.has_fn(f"{OV}.{name}"):
            r.note(f"C19.RV: {OV}.{name} no longer exists")
            continue
        fn = repo.fn(f"{OV}.{name}")
        seen.add(name)
        n += 1
        try:
            k, v = run(it, fn, list(args), {}, None)
        except Uninterpretable as ex:
            r.undecide("C19.RV", fn.qual, f"{name} #{n}", f"not interpretable: {ex}", fn)
            continue
        label = f"{name}({', '.join(_brief(it, a) for a in args)})"
        if want is None:
            r.check(k == "ok", "C19.RV", fn.qual, f"{label} accepted", f"{label} -> {k}:{v}; a valid argument must be accepted", fn)
        else:
            r.check(k == "raise" and (v == want or it.exc_matches(v, want)), "C19.RV", fn.qual, f"{label} refused",
                    f"{label} -> {k}:{v if k == 'raise' else 'accepted'}; documented refusal {want}", fn)
    r.floor("C19.RV", "validator cases", n, 30)


def _brief(it, a):
    if isinstance(a, Obj) and a.cls_name in ("SingleInterval", "CompoundInterval"):
        p = a.fields.get("parent")
        return f"{blocks_of(a)}{a.fields['strand'].name[0]}" + (f"@{p.fields.get('id')}" + ("+seq" if p.fields.get("sequence") is not None else "") if isinstance(p, Obj) else "")
    if isinstance(a, Obj) and a.cls_name == "Parent":
        return (f"Parent({a.fields.get('id')}" + (",seq" if a.fields.get("sequence") is not None else "") + (",loc" if a.fields.get("location") is not None else "")
                + (",parent" if a.fields.get("parent") is not None else "") + ")")
    return repr(a)


RULES = [
    ("C19.RK", rk_corruptions),
    ("C19.RV", rv_validators),
    ("C19.RI", ri_intersect),
    ("C19.RB", rb_built_objects_well_formed),
    ("C19.R1", r1_raise_discipline),
    ("C19.R4", r4_recursion),
    ("C19.R7", r7_optional_attrs),
]
