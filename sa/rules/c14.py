"""C14 - BED12 export is valid BED and reproduces the interval in both coordinate modes.

RK  the analyser interprets to_bed12() and str(BED12) for every small transcript (coding / non-coding) and feature,
    both strands, on the whole chromosome and on every chunk window containing the interval, in both coordinate
    modes; the produced text is decoded by an independent 12-column reader inside the checker and compared with the
    format invariants and with the exported blocks, strand, name and CDS bounds."""
from ..genekernel import chrom_parent, chunk_parent, gene_interp, mk_feature, mk_transcript
from ..interp import Obj, Raised, Uninterpretable
from ..lockernel import run, strands
from .c05 import GENOME, _report, _runner
from .c07 import LAYOUTS, consistent_frames

EXPLANATION = (
    "TranscriptInterval.to_bed12 / FeatureInterval.to_bed12 and BED12.__str__ are interpreted by the analyser for every "
    "enumerated interval (1-3 blocks incl. adjacent blocks, both strands, coding with every CDS placement class or not), "
    "on the chromosome and on every chunk window containing it, in chromosome and chunk-relative mode. The text is decoded "
    "by an independent reader: 12 tab-separated columns, blockCount = #sizes = #starts, first start 0, ascending starts, "
    "last start + size = end - start, thick range inside [start, end], and decoded blocks / strand / name / CDS bounds "
    "equal the exported ones in the coordinates of the mode. Complete for the structural shape of the two exporters."
)


def decode(text):
    cols = text.split("\t")
    if len(cols) != 12:
        return None, f"{len(cols)} columns"
    try:
        start, end = int(cols[1]), int(cols[2])
        thick = (int(cols[6]), int(cols[7]))
        count = int(cols[9])
        sizes = [int(x) for x in cols[10].split(",") if x != ""]
        starts = [int(x) for x in cols[11].split(",") if x != ""]
    except ValueError as e:
        return None, f"non-integer column: {e}"
    return dict(chrom=cols[0], start=start, end=end, name=cols[3], score=cols[4], strand=cols[5], thick=thick,
                rgb=cols[8], count=count, sizes=sizes, starts=starts), ""


def invariants(d):
    if d["count"] != len(d["sizes"]) or d["count"] != len(d["starts"]):
        return f"blockCount {d['count']} but {len(d['sizes'])} sizes / {len(d['starts'])} starts"
    if not d["starts"] or d["starts"][0] != 0:
        return f"first block start is {d['starts'][:1]}, not 0"
    if d["starts"] != sorted(d["starts"]):
        return f"block starts not ascending: {d['starts']}"
    if d["starts"][-1] + d["sizes"][-1] != d["end"] - d["start"]:
        return f"last start + last size = {d['starts'][-1] + d['sizes'][-1]} != end - start = {d['end'] - d['start']}"
    if d["thick"] != (0, 0) and not (d["start"] <= d["thick"][0] <= d["thick"][1] <= d["end"]):
        return f"thick range {d['thick']} outside [{d['start']},{d['end']}]"
    if any(s <= 0 for s in d["sizes"]):
        return f"non-positive block size: {d['sizes']}"
    return ""


def _case(repo, it, S, spec):
    kind, exons, sn, cds, window = spec
    out = []
    n = 0
    cls = "gene.transcript:TranscriptInterval" if kind == "tx" else "gene.feature:FeatureInterval"
    f = repo.fn(f"{cls}.to_bed12")
    parent = chrom_parent(it, GENOME, alphabet="NT_EXTENDED") if window is None else chunk_parent(
        it, GENOME, window[0], window[1], alphabet="NT_EXTENDED")
    F = it.enum("CDSFrame")
    nm = {0: "ZERO", 1: "ONE", 2: "TWO"}
    # the name column carries the symbol as it is (columns are tab separated: blanks inside a name are legal and kept)
    the_name = "the_name" if sn == "PLUS" else "heat shock protein 70"
    try:
        if kind == "tx":
            kw = dict(parent_or_seq_chunk_parent=parent, sequence_name="chr1", transcript_symbol=the_name)
            if cds:
                fr = consistent_frames(cds, sn, 0)
                obj = mk_transcript(it, exons, S[sn], list(cds), [F[nm[x]] for x in fr], **kw)
            else:
                obj = mk_transcript(it, exons, S[sn], **kw)
        else:
            obj = mk_feature(it, exons, S[sn], parent_or_seq_chunk_parent=parent, sequence_name="chr1", feature_name=the_name)
    except Raised as ex:
        return 1, [("construct", f"{kind} {exons} cds={cds} window={window}: {ex.exc_name}", f"{cls}.__init__")]
    # the same interval built through the alternate constructor (from_location / from_chunk_relative_location) exports the
    # same lines; only when the whole interval lies on the parent (a cut interval is legitimately a different object)
    alt = None
    adjacent = any(a[1] == b[0] for a, b in zip(exons, exons[1:]))  # (lifting a location merges blocks with a 0-bp gap)
    if not adjacent and (window is None or (window[0] <= exons[0][0] and exons[-1][1] <= window[1])):
        loc = obj.fields["_location"]
        ctor = "from_location" if window is None else "from_chunk_relative_location"
        kwa = dict(sequence_name="chr1")
        if kind == "tx":
            kwa.update(transcript_symbol=the_name, cds=obj.fields.get("cds"))
        else:
            kwa.update(feature_name=the_name)
        ka, alt = run(it, repo.fn(f"{cls}.{ctor}"), [loc], kwa, None)
        if ka != "ok":
            out.append((f"{ctor}", f"{kind} {exons} {sn} cds={cds} window={window}: {ctor}(own location) raises {alt}", f"{cls}.{ctor}"))
            alt = None
    modes = [True] + ([False] if window is not None else [])
    first_text = {}
    # each mode is exported again after the others on the same object: a line is a function of the object and the mode, not
    # of earlier exports (memoised generators, cached blocks)
    for rep, chrom_mode in enumerate(modes + list(reversed(modes)) + modes):
        if rep >= len(modes):
            k, v = run(it, f, [], {"chromosome_relative_coordinates": chrom_mode}, obj)
            n += 1
            try:
                text = it.builtin("str", [v], {}, None, 0) if k == "ok" else f"raise:{v}"
            except Raised as ex:
                text = f"raise:{ex.exc_name}"
            if chrom_mode in first_text and text != first_text[chrom_mode]:
                out.append((("chromosome mode" if chrom_mode else "chunk-relative mode") + " repeated export",
                            f"{'transcript' if kind == 'tx' else 'feature'} {list(exons)} {sn} window={window}: exporting again on the same "
                            f"object gives {text!r}; the first export gave {first_text[chrom_mode]!r}", f.qual))
            continue
        n += 1
        off = 0 if chrom_mode else window[0]
        desc = f"{'transcript' if kind == 'tx' else 'feature'} {list(exons)} {sn} cds={list(cds) if cds else None} " \
               f"{'chromosome' if window is None else 'chunk ' + str(list(window))} mode={'chromosome' if chrom_mode else 'chunk-relative'}"
        key = "chromosome mode" if chrom_mode else "chunk-relative mode"
        k, v = run(it, f, [], {"chromosome_relative_coordinates": chrom_mode}, obj)
        if k != "ok":
            out.append((key, f"{desc}: to_bed12 raises {v}", f.qual))
            continue
        try:
            text = it.builtin("str", [v], {}, None, 0)
        except Raised as ex:
            out.append((key, f"{desc}: str(BED12) raises {ex.exc_name}", "io.bed.bed:BED12.__str__"))
            continue
        if not isinstance(text, str):
            out.append((key, f"{desc}: str(BED12) is not plain text", "io.bed.bed:BED12.__str__"))
            continue
        first_text[chrom_mode] = text
        if alt is not None:
            n += 1
            k2, v2 = run(it, f, [], {"chromosome_relative_coordinates": chrom_mode}, alt)
            try:
                text2 = it.builtin("str", [v2], {}, None, 0) if k2 == "ok" else f"raise:{v2}"
            except Raised as ex:
                text2 = f"raise:{ex.exc_name}"
            if text2 != text:
                out.append((key + " alternate constructor", f"{desc}: the twin built by {ctor}(location) exports {text2!r}; the directly "
                            f"constructed object exports {text!r}", f"{cls}.{ctor}"))
        d, why = decode(text)
        if d is None:
            out.append((key + " format", f"{desc}: {text!r} is not a 12-column BED line ({why})", "io.bed.bed:BED12.__str__"))
            continue
        inv = invariants(d)
        if inv:
            out.append((key + " invariants", f"{desc}: {text!r}: {inv}", f.qual))
            continue
        blocks = [(d["start"] + s, d["start"] + s + z) for s, z in zip(d["starts"], d["sizes"])]
        want_blocks = [(s - off, e - off) for s, e in exons]
        if blocks != want_blocks or (d["start"], d["end"]) != (want_blocks[0][0], want_blocks[-1][1]):
            out.append((key + " blocks", f"{desc}: decoded blocks {blocks} span ({d['start']},{d['end']}); exported blocks are {want_blocks}", f.qual))
        want_thick = (cds[0][0] - off, cds[-1][1] - off) if (kind == "tx" and cds) else (0, 0)
        if d["thick"] != want_thick:
            out.append((key + " thick", f"{desc}: thickStart/End {d['thick']}; CDS bounds are {want_thick}", f.qual))
        sym = {"PLUS": "+", "MINUS": "-"}[sn]
        if d["strand"] != sym or d["name"] != the_name or d["chrom"] != "chr1" or d["score"] != "0" or d["rgb"] != "0,0,0":
            out.append((key + " columns", f"{desc}: columns chrom/name/score/strand/rgb = {d['chrom']},{d['name']},{d['score']},{d['strand']},{d['rgb']}", "io.bed.bed:BED12.__str__"))
    # the mode flag is a truth value: 1 selects what True selects, 0 and None what False selects (as in every sibling exporter)
    for flag, like in ((1, True), (0, False), (None, False)):
        if like not in first_text:
            continue
        n += 1
        k, v = run(it, f, [], {"chromosome_relative_coordinates": flag}, obj)
        try:
            text = it.builtin("str", [v], {}, None, 0) if k == "ok" else f"raise:{v}"
        except Raised as ex:
            text = f"raise:{ex.exc_name}"
        if text != first_text[like]:
            out.append(("mode flag given as another truth value", f"{'transcript' if kind == 'tx' else 'feature'} {list(exons)} {sn} window={window}: "
                        f"to_bed12(chromosome_relative_coordinates={flag!r}) gives {text!r}; {like!r} gives {first_text[like]!r}", f.qual))
    # the `name` argument (documented: the attribute of the record to use - "feature_name to guid" - and, when the string is not
    # an attribute, the string itself)
    if window is None:
        import uuid
        gid = uuid.UUID(int=0xabcdef)
        try:
            if kind == "tx":
                named = mk_transcript(it, exons, S[sn], parent_or_seq_chunk_parent=parent, sequence_name="chr1", transcript_symbol="sym",
                                      transcript_id="tid-9", guid=gid)
                asks = [("transcript_id", "tid-9"), ("transcript_symbol", "sym"), ("guid", str(gid)), ("sequence_name", "chr1"), ("a free label", "a free label")]
            else:
                named = mk_feature(it, exons, S[sn], parent_or_seq_chunk_parent=parent, sequence_name="chr1", feature_name="fname", feature_id="fid-9", guid=gid)
                asks = [("feature_id", "fid-9"), ("feature_name", "fname"), ("guid", str(gid)), ("sequence_name", "chr1"), ("a free label", "a free label")]
            for arg, want_name in asks:
                n += 1
                kn, vn = run(it, f, [], {"name": arg}, named)
                tn = it.builtin("str", [vn], {}, None, 0) if kn == "ok" else f"raise:{vn}"
                dn = decode(tn)[0] if kn == "ok" else None
                if dn is None or dn["name"] != want_name:
                    out.append(("name argument", f"{'transcript' if kind == 'tx' else 'feature'} {list(exons)} {sn}: to_bed12(name={arg!r}) writes name column "
                                f"{dn['name'] if dn else tn!r}; documented: the value of that attribute ({want_name!r})", f.qual))
        except Raised:
            pass
    # an unnamed record: the name column is the text of the (absent) symbol every time - not something picked from a set
    if kind == "tx" and window is None:
        from ..interp import other_hash_seed
        try:
            anon = mk_transcript(it, exons, S[sn], parent_or_seq_chunk_parent=parent, sequence_name="chr1", transcript_id="tid-1", protein_id="pid-1")
            n += 1
            k1, v1 = run(it, f, [], {}, anon)
            t1 = it.builtin("str", [v1], {}, None, 0) if k1 == "ok" else f"raise:{v1}"
            with other_hash_seed():
                anon2 = mk_transcript(it, exons, S[sn], parent_or_seq_chunk_parent=parent, sequence_name="chr1", transcript_id="tid-1", protein_id="pid-1")
                k2, v2 = run(it, f, [], {}, anon2)
                t2 = it.builtin("str", [v2], {}, None, 0) if k2 == "ok" else f"raise:{v2}"
            d1 = decode(t1)[0] if k1 == "ok" else None
            if t1 != t2 or d1 is None or d1["name"] != "None":
                out.append(("name of a transcript without symbol", f"transcript {list(exons)} {sn} with ids but no symbol: name column "
                            f"{d1['name'] if d1 else t1!r} (and {decode(t2)[0]['name'] if k2 == 'ok' and decode(t2)[0] else t2!r} with sets iterated in the "
                            f"opposite order); the exported name is the text of the requested attribute, here 'None'", f.qual))
        except Raised:
            pass
    return n, out


def rk_bed(ctx):
    specs = []
    lays = LAYOUTS + [((6, 11), (13, 17), (17, 28))]
    for exons in lays:
        lo, hi = exons[0][0], exons[-1][1]
        windows = [None, (0, len(GENOME)), (lo, hi), (lo - 2, hi + 3), (lo - 1, hi)]
        pos = [p for s, e in exons for p in range(s, e)]
        cds_opts = [None, tuple(exons)]
        # CDS strictly inside, starting / ending at exon boundaries
        inner = pos[1:-1]
        if len(inner) >= 3:
            cs, ce = inner[0], inner[-1] + 1
            cds_opts.append(tuple((max(s, cs), min(e, ce)) for s, e in exons if max(s, cs) < min(e, ce)))
        if len(exons) > 1:
            cds_opts.append(tuple(exons[1:]))
            cds_opts.append(tuple(exons[:1]))
        # a CDS shorter than one codon: one base, two bases in one block, two bases split over an exon junction
        cds_opts.append(((exons[0][0] + 1, exons[0][0] + 2),))
        cds_opts.append(((exons[-1][1] - 2, exons[-1][1]),))
        if len(exons) > 1 and exons[0][1] < exons[1][0]:
            cds_opts.append(((exons[0][1] - 1, exons[0][1]), (exons[1][0], exons[1][0] + 1)))
        for sn in ("PLUS", "MINUS"):
            for w in windows:
                if w is not None and w[0] < 0:
                    continue
                specs.append(("feat", exons, sn, None, w))
                for cds in cds_opts:
                    specs.append(("tx", exons, sn, cds, w))
    ctx.r.floor("C14.RK", "BED12 export cases", len(specs), 200)
    results = pmap_cases(ctx, specs)
    _report(ctx, "C14.RK", results, [
        ("gene.transcript:TranscriptInterval.to_bed12", "decoded text reproduces the interval, both modes"),
        ("gene.feature:FeatureInterval.to_bed12", "decoded text reproduces the interval, both modes"),
        ("io.bed.bed:BED12.__str__", "12 columns in specification order")])


def pmap_cases(ctx, specs):
    from ..par import pmap
    return pmap(_runner(ctx.repo, _case), specs)


RULES = [("C14.RK", rk_bed)]
