"""C16 - genomic bin assignment never hides a contained (or overlapping) feature.

RK  the analyser interprets bins() for every (start, end) pair in bands around every bin boundary of every level
    (2^17 .. 2^29), both coordinate conventions, both modes, and compares with a geometric model of the bin
    hierarchy: the single bin is the smallest bin that contains the interval (1 when out of range); the query's
    bin set contains the assigned bin of every interval contained in or overlapping the query.
R1  stored bins (interpreted): every class that assigns self.bin is constructed by the analyser, without parent and on
    a chunk with a large offset, at layouts on / across level-17 boundaries; the stored bin is the smallest bin that
    contains the object's own chromosome interval.  A class that stores a bin and has no builder here fails the run.
R2  non-interference (structural): inside bins() no update of start/stop is control-dependent on `one`.
R3  query site (interpreted): query_by_position, strict and relaxed, at bin-boundary coordinates returns exactly the
    members the coordinates select - including a relaxed query that overlaps only the span of a gene whose
    transcripts are far apart (a pre-filter applied outside strict mode would hide it).
R4  constants: FIRST_SHIFT, NEXT_SHIFT, OFFSETS[i] = 8*OFFSETS[i+1] + 1, MAX_CHROM_SIZE = 2^(17+3*4)."""
import ast

from ..astutil import Facts, bind_args, call_tail, calls_in, dotted, fact_atoms, names_in, src, walk_shallow
from ..genekernel import gene_interp, mk_collection, mk_feature, mk_feature_collection, mk_gene, mk_transcript
from ..interp import ClassTok, Raised, Uninterpretable, module_const, std_interp
from ..lockernel import run, strands
from .c05 import _report

EXPLANATION = (
    "RK: bins() is interpreted by the analyser on every (start,end) pair in bands around each bin boundary of each "
    "level and around 0 and 2^29, for fmt bed/gff and one True/False, against a geometric model of the five-level "
    "hierarchy (smallest containing bin; query set contains the assigned bin of every contained or overlapping "
    "interval, exhaustively over the band pairs). R1-R4: call-site conventions (also by interpreting chunk-built "
    "twins with large offsets), non-interference of `one` with the shifting arithmetic, strict-mode-only pre-filter, "
    "constant relations. With the monotonicity of x -> (x-c)>>k, R1+R2 extend 'never hides a contained feature' to all "
    "coordinates. Not decided: identity with kent's numbering (gffutils offsets are used, stop is inclusive)."
)

BINS = "util.bins:bins"
_W = {}


def _runner(repo, fn):
    def work(spec):
        if _W.get("repo") is not repo:
            _W["it"] = gene_interp(repo, max_steps=10 ** 12)
            _W["repo"] = repo
        it = _W["it"]
        try:
            return fn(repo, it, strands(it), spec)
        except Uninterpretable as ex:
            return 0, [("uninterpretable", str(ex), BINS)]
    return work

LEVELS = [(17, 4681), (20, 585), (23, 73), (26, 9), (29, 1)]


def model_one(start, stop, fmt):
    """smallest bin of the hierarchy whose span contains [start - off, stop] (stop inclusive, as the library treats it)"""
    if start >= 2 ** 29 or stop >= 2 ** 29 or start < 0 or stop < 0:
        return 1
    a = start - (1 if fmt == "gff" else 0)
    for shift, off in LEVELS:
        if a >> shift == stop >> shift:
            return off + (a >> shift)
    return 1


def model_all(start, stop, fmt):
    if start >= 2 ** 29 or start < 0 or stop < 0:
        return {1}
    if stop >= 2 ** 29:
        # a range that starts inside the scheme and reaches beyond it overlaps every bin from its start to the top of the
        # scheme (among them bin 1, where everything beyond lives)
        stop = 2 ** 29 - 1
    a = start - (1 if fmt == "gff" else 0)
    out = {1}
    for shift, off in LEVELS:
        out.update(range(off + (a >> shift), off + (stop >> shift) + 1))
    return out


def band_points(thorough):
    pts = {0, 1, 2}
    w = 2 if thorough else 1
    for shift, _ in LEVELS:
        size = 1 << shift
        for mult in (1, 2, 3, 8, 9) if shift < 29 else (1,):
            b = size * mult
            if b <= 2 ** 29 + 2:
                pts.update(range(b - w, b + w + 1))
    pts.update({2 ** 29 - 1, 2 ** 29, 2 ** 29 + 1, 2 ** 30, 2 ** 17 * 5 + 77, 2 ** 20 * 3 + 5, 12345678})
    return sorted(p for p in pts if p >= 0)


def _pairs_case(repo, it, S, spec):
    """all (start, end) pairs with this start: returns the interpreted answers so that the cross-interval check can be
    done once, outside the interpreter"""
    i, pts = spec
    f = repo.fn(BINS)
    out = []
    n = 0
    s = pts[i]
    table = {}
    for e in pts:
        if e < s:
            continue
        for fmt in ("bed", "gff"):
            if fmt == "gff" and s == 0:
                continue  # 1-based coordinates start at 1
            n += 2
            k1, one = run(it, f, [s, e], {"fmt": fmt, "one": True}, None)
            k2, allb = run(it, f, [s, e], {"fmt": fmt, "one": False}, None)
            if k1 != "ok" or one != model_one(s, e, fmt):
                out.append((f"single bin ({fmt})", f"bins({s},{e},fmt={fmt!r},one=True) -> {k1}:{one}; the smallest bin containing the interval is {model_one(s, e, fmt)}", BINS))
            got = set(int(x) for x in allb) if k2 == "ok" else None
            if got != model_all(s, e, fmt):
                out.append((f"bin set ({fmt})", f"bins({s},{e},fmt={fmt!r},one=False) -> {k2}:{sorted(got)[:8] if got else got}...; overlapping bins are {sorted(model_all(s, e, fmt))[:8]}...", BINS))
            elif k1 == "ok" and isinstance(one, int) and one not in got:
                out.append((f"own bin in own set ({fmt})", f"bins({s},{e},{fmt!r}): assigned bin {one} not in the interval's own bin set", BINS))
            if fmt == "bed":
                table[e] = (one if k1 == "ok" else None, got)
    for neg in (-1, -5):
        n += 2
        k1, one = run(it, f, [neg, s], {"fmt": "bed", "one": True}, None)
        k2, allb = run(it, f, [neg, s], {"fmt": "bed", "one": False}, None)
        if k1 != "ok" or one != 1 or k2 != "ok" or set(allb) != {1}:
            out.append(("out of range", f"bins({neg},{s}) -> {one} / {allb}; out-of-range coordinates belong to bin 1", BINS))
    return n, out, (s, table)


def rk_bins(ctx):
    pts = band_points(ctx.thorough)
    ctx.r.floor("C16.RK", "band points", len(pts), 40)
    from ..par import pmap
    results = pmap(_runner(ctx.repo, _pairs_case), [(i, pts) for i in range(len(pts))])
    bad = [x for x in results if len(x) == 2]
    tables = dict(x[2] for x in results if len(x) == 3)
    _report(ctx, "C16.RK", [(x[0], x[1]) for x in results], [(BINS, f"{len(pts)}^2/2 (start,end) pairs x fmt x one against the geometric model")])
    # cross check on the interpreted answers: the bin set of a query contains the assigned bin of every interval that is
    # contained in it or overlaps it (half-open intervals, stop < 2^29)
    r = ctx.r
    n = 0
    first = None
    lim = 2 ** 29
    ivs = [(s, e, tables[s][e][0]) for s in tables for e in tables[s] if s < e < lim and tables[s][e][0] is not None]
    for qs in tables:
        for qe, (_one, qset) in tables[qs].items():
            if not (qs < qe) or qs >= lim or qset is None:
                continue
            for s, e, one in ivs:
                if s < qe and qs < e:
                    n += 1
                    if one not in qset and first is None:
                        kind = "contained in" if (qs <= s and e <= qe) else "overlapping"
                        where = "" if qe < lim else " (query reaching beyond 2^29)"
                        first = (f"{kind} interval hidden{where}", f"interval [{s},{e}) (bin {one}) is {kind} query [{qs},{qe}) but the query's bin set "
                                 f"{sorted(qset)[:12]} does not contain its bin")
    r.count(n)
    if first:
        r.violation("C16.RH", BINS, first[0], first[1], ctx.repo.fn(BINS))
    else:
        r.ok("C16.RH", BINS, "query bin set contains the bin of every contained / overlapping interval", ctx.repo.fn(BINS),
             f"{n} (query, interval) pairs over the band points")


STORING = {  # classes that store a bin at construction -> builder(it, S, layout, parent) (confirmed by reading; a class
    # that assigns self.bin and is not listed here fails the run as analysis-broken)
    "TranscriptInterval": lambda it, S, lay, p: mk_transcript(it, lay, S["MINUS"], parent_or_seq_chunk_parent=p),
    "FeatureInterval": lambda it, S, lay, p: mk_feature(it, lay, S["PLUS"], parent_or_seq_chunk_parent=p),
    "GeneInterval": lambda it, S, lay, p: mk_gene(it, [mk_transcript(it, [b], S["PLUS"], parent_or_seq_chunk_parent=p) for b in lay],
                                                 parent_or_seq_chunk_parent=p),
    "FeatureIntervalCollection": lambda it, S, lay, p: mk_feature_collection(
        it, [mk_feature(it, [b], S["MINUS"], parent_or_seq_chunk_parent=p) for b in lay], parent_or_seq_chunk_parent=p),
    "VariantInterval": lambda it, S, lay, p: it.apply(ClassTok("VariantInterval"), [lay[0][0], lay[-1][1], "A", "x"],
                                                      {"parent_or_seq_chunk_parent": p}, None, 0),
    "AnnotationCollection": lambda it, S, lay, p: mk_collection(
        it, genes=[mk_gene(it, [mk_transcript(it, [b], S["PLUS"], parent_or_seq_chunk_parent=p) for b in lay], parent_or_seq_chunk_parent=p)],
        start=lay[0][0], end=lay[-1][1], parent_or_seq_chunk_parent=p),
}
# layouts: own start on a level-17 boundary (a 1-based convention or a start-1 shift changes the level), a block across a
# level-17 boundary, two blocks in different level-17 bins; the chunk offset makes chunk-relative coordinates fall into
# other bins than chromosome coordinates
R1_LAYOUTS = [[(262144, 262244)], [(393116, 393316)], [(262100, 262200), (393000, 393300)], [(300000, 301900)],
              # two members that each sit inside one level-17 bin, in different bins: the container's bin is one level up
              [(140000, 140100), (270000, 270100)]]
R1_CHUNK = (250000, 400000)


def _stored_case(repo, it, S, spec):
    cls, lay = spec
    par = it.call_func(repo.fn("io.parser:seq_chunk_to_parent"), ["A" * (R1_CHUNK[1] - R1_CHUNK[0]), "chr1", R1_CHUNK[0], R1_CHUNK[1]],
                       {}, None, 0)
    want = model_one(lay[0][0], lay[-1][1], "bed")
    out = []
    n = 0
    for which, p in (("without parent", None), (f"on chunk chr1:{R1_CHUNK[0]}-{R1_CHUNK[1]}", par)):
        n += 1
        try:
            o = STORING[cls](it, S, lay, p)
        except Raised as ex:
            out.append((f"stored bin {which.split()[0]}", f"{cls} {lay} {which}: construction raises {ex.exc_name}", _cls_init(repo, cls)))
            continue
        got = o.fields.get("bin")
        if got != want:
            out.append((f"stored bin {which.split()[0]}", f"{cls} {lay} {which}: stored bin is {got}; the smallest bin containing its own "
                        f"chromosome interval [{lay[0][0]},{lay[-1][1]}) is {want}", _cls_init(repo, cls)))
    return n, out


def _cls_init(repo, cls):
    return f"{repo.cls(cls).module.name}:{cls}.__init__"


def _query_case(repo, it, S, spec):
    """strict queries around bin boundaries return every gene they contain; relaxed queries return every gene whose span they
    overlap even when none of its transcripts shares a bin with the query"""
    genes_lay, queries = spec[:2]
    top = spec[2] if len(spec) > 2 else 1100000
    genes = [mk_gene(it, [mk_transcript(it, [b], S["PLUS"]) for b in lay], gene_id=f"g{i}") for i, lay in enumerate(genes_lay)]
    # every kind of member takes part in a range query: a feature collection and a variant collection next to the first gene
    a0, b0 = genes_lay[0][0]
    from ..genekernel import mk_feature, mk_feature_collection
    fc = mk_feature_collection(it, [mk_feature(it, [(a0 + 10, a0 + 40)], S["MINUS"], feature_name="f")], feature_collection_id="fc0")
    mkv = lambda s_, e: it.apply(ClassTok("VariantInterval"), [s_, e, "T", "SNV"], {"variant_name": f"v{s_}"}, None, 0)  # noqa: E731
    vc = it.apply(ClassTok("VariantIntervalCollection"), [[mkv(a0 + 20, a0 + 21), mkv(a0 + 50, a0 + 52)]], {"variant_collection_id": "vc0"}, None, 0)
    others = {"fc0": (a0 + 10, a0 + 40), "vc0": (a0 + 20, a0 + 52)}
    ac = mk_collection(it, genes=genes, feature_collections=[fc], variant_collections=[vc], start=0, end=top)  # explicit bounds: every query below lies inside them
    f = repo.fn("gene.collections:AnnotationCollection.query_by_position")
    out = []
    n = 0
    for qs, qe in queries:
        for strict in (True, False):
            n += 1
            k, res = run(it, f, [qs, qe], {"completely_within": strict}, ac)
            spans = [(lay[0][0], lay[-1][1]) for lay in genes_lay]
            if strict:
                want = {f"g{i}" for i, (a, b) in enumerate(spans) if qs <= a and b <= qe}
            else:
                want = {f"g{i}" for i, (a, b) in enumerate(spans) if a < qe and qs < b}
            got = {g.fields.get("gene_id") for g in res.fields.get("genes")} if k == "ok" else k + ":" + str(res)
            if k == "ok":
                got |= {x.fields.get("feature_collection_id") for x in res.fields.get("feature_collections") or []}
                got |= {x.fields.get("variant_collection_id") for x in res.fields.get("variant_collections") or []}
                for oid, (a, b) in others.items():
                    if (qs <= a and b <= qe) if strict else (a < qe and qs < b):
                        want.add(oid)
            if got != want:
                out.append((f"query ({'strict' if strict else 'relaxed'})", f"genes {genes_lay}: query_by_position({qs},{qe}, completely_within="
                            f"{strict}) returns {sorted(got) if isinstance(got, set) else got}; by coordinates the answer is {sorted(want)}",
                            "gene.collections:AnnotationCollection._query_by_position"))
    return n, out


QUERY_SPECS = [
    # genes at / across level-17 boundaries, queries whose ends sit on the same boundaries
    ([[(262144, 262244)], [(393116, 393316)], [(262100, 262200), (393000, 393300)], [(131000, 131071)]],
     [(262144, 262244), (262143, 262245), (393116, 393316), (393000, 393317), (262100, 393300), (262144, 393216), (131072, 393216),
      (130999, 131072), (1, 524288), (262150, 262160), (393216, 393217)]),
    # a gene whose two transcripts are far apart: a relaxed query between them overlaps the gene span only
    ([[(1000, 1100), (1000000, 1000100)], [(500000, 500050)]],
     [(400000, 600000), (500000, 500050), (1000, 1000100), (1050, 1000050), (200000, 200100)]),
    # a chromosome longer than the binning scheme (2^29): members beyond the limit, windows that start below, at and beyond it
    ([[(2 ** 29 + 1000, 2 ** 29 + 2000)], [(2 ** 29 - 500, 2 ** 29 + 300)], [(700000000, 700000400)], [(5000, 6000)]],
     [(2 ** 29 + 500, 2 ** 29 + 3000), (2 ** 29, 2 ** 29 + 2000), (2 ** 29 - 1000, 2 ** 29 + 2500), (600000000, 800000000), (2 ** 29 + 1000, 2 ** 29 + 2000),
      (1, 900000000), (4000, 2 ** 29 + 400)], 900000000),
]


def r1_call_sites(ctx):
    r, repo = ctx.r, ctx.repo
    sites = 0
    storing = set()
    for fn in repo.all_funcs():
        if fn.module.name.startswith("util.bins"):
            continue
        for call in calls_in(fn.node):
            if call_tail(call) == "bins" and dotted(call.func) in ("bins",):
                sites += 1
        for n in walk_shallow(fn.node):
            tg = n.targets if isinstance(n, ast.Assign) else [n.target] if isinstance(n, (ast.AnnAssign, ast.AugAssign)) else []
            for t in tg:
                for x in ast.walk(t):
                    if isinstance(x, ast.Attribute) and x.attr == "bin" and dotted(x.value) == "self" and fn.cls is not None:
                        storing.add(fn.cls.name)
    r.note(f"C16.R1: {sites} bins() call sites outside util.bins")
    # an assignment in a shared base class (or a helper method of it) stores the bin of every concrete class deriving from it
    covered = set()
    unknown = set()
    for name in storing:
        if name in STORING:
            covered.add(name)
            continue
        desc = {c.name for m in repo.modules.values() for c in m.classes.values()
                if c.name in STORING and any(k.name == name for k in repo.mro(c)[1:])}
        if desc:
            covered |= desc
        else:
            unknown.add(name)
    if unknown:
        r.error(f"C16.R1: classes {sorted(unknown)} assign self.bin and have no builder in the checker: the stored-bin rule does not cover them")
    r.floor("C16.R1", "classes that store a bin", len(covered), 6)
    from ..par import pmap
    specs = [(cls, lay) for cls in sorted(STORING) for lay in R1_LAYOUTS if not (cls == "VariantInterval" and len(lay) > 1)]
    results = pmap(_runner(repo, _stored_case), specs, min_items=4)
    _report(ctx, "C16.R1", results, [(_cls_init(repo, c), "stored bin = smallest bin containing the object's own chromosome interval "
                                      "(chromosome-built and chunk-built)") for c in sorted(STORING)])


def r3_query_sites(ctx):
    from ..par import pmap
    results = pmap(_runner(ctx.repo, _query_case), QUERY_SPECS, min_items=1)
    _report(ctx, "C16.R3", results, [("gene.collections:AnnotationCollection._query_by_position",
                                      "strict and relaxed range queries at bin boundaries return exactly the members the coordinates select")])
    ctx.r.floor("C16.R3", "query evaluations", sum(x[0] for x in results), 30)


def r2_non_interference(ctx):
    r = ctx.r
    # strengthening: RK interprets bins() in both modes over the bands; when the level walk has the recognised form (updates of
    # start / stop that do not depend on `one`) the assigned bin and the bin set are computed on the same grid for ALL
    # coordinates.  A rewritten walk is not an alarm.
    r.soften("C16.R2")
    fn = ctx.repo.fn(BINS)
    facts = Facts(fn.node)
    bad = []
    updates = 0
    for n in walk_shallow(fn.node):
        tgt = None
        if isinstance(n, ast.Assign) and len(n.targets) == 1 and isinstance(n.targets[0], ast.Name):
            tgt = n.targets[0].id
        elif isinstance(n, ast.AugAssign) and isinstance(n.target, ast.Name):
            tgt = n.target.id
        if tgt in ("start", "stop"):
            updates += 1
            for t, _pol in fact_atoms(facts.facts_at(n)):
                if "one" in names_in(t):
                    bad.append(n)
            val = n.value
            if "one" in names_in(val):
                bad.append(n)
    r.check(not bad, "C16.R2", fn.qual, "start/stop updates independent of `one`",
            f"`{src(bad[0]) if bad else ''}` depends on `one`: assigned bins and query bin sets would be computed on different grids", fn)
    r.floor("C16.R2", "start/stop updates in bins()", updates, 4)
    # no statement under `if one:` other than returns
    for n in walk_shallow(fn.node):
        if isinstance(n, ast.If) and "one" in names_in(n.test):
            for st in ast.walk(n):
                if isinstance(st, (ast.Assign, ast.AugAssign)) or (isinstance(st, ast.Call) and call_tail(st) in ("update", "add")):
                    r.violation("C16.R2", fn.qual, "state change under a test on `one`",
                                f"`{src(st)[:80]}` is executed only for one value of `one`", (fn, st))
    r.ok("C16.R2", fn.qual, "structure of the level walk", fn)


def r4_constants(ctx):
    r = ctx.r
    it = std_interp(ctx.repo)
    m = "util.bins"
    first, nxt = module_const(it, m, "FIRST_SHIFT"), module_const(it, m, "NEXT_SHIFT")
    offs, mx, co = module_const(it, m, "OFFSETS"), module_const(it, m, "MAX_CHROM_SIZE"), module_const(it, m, "COORD_OFFSETS")
    where = (ctx.repo.module(m).relpath, ctx.repo.const(m, "OFFSETS"))
    r.check(first == 17 and nxt == 3, "C16.R4", f"{m}:FIRST_SHIFT", "17 / 3", f"FIRST_SHIFT={first}, NEXT_SHIFT={nxt}", where)
    r.check(list(offs) == [4681, 585, 73, 9, 1], "C16.R4", f"{m}:OFFSETS", "[4681, 585, 73, 9, 1]", f"OFFSETS = {offs}", where)
    r.check(all(offs[i] == 8 * offs[i + 1] + 1 for i in range(len(offs) - 1)), "C16.R4", f"{m}:OFFSETS", "OFFSETS[i] = 8*OFFSETS[i+1]+1",
            f"OFFSETS = {offs}", where)
    r.check(mx == 2 ** (first + nxt * (len(offs) - 1)), "C16.R4", f"{m}:MAX_CHROM_SIZE", "2^(FIRST_SHIFT + NEXT_SHIFT*(levels-1))",
            f"MAX_CHROM_SIZE = {mx}", where)
    r.check(co == {"bed": 0, "gff": 1}, "C16.R4", f"{m}:COORD_OFFSETS", "bed 0 / gff 1", f"COORD_OFFSETS = {co}", where)


RULES = [
    ("C16.RK", rk_bins),
    ("C16.R1", r1_call_sites),
    ("C16.R2", r2_non_interference),
    ("C16.R3", r3_query_sites),
    ("C16.R4", r4_constants),
]
