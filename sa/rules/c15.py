"""C15 - built-in tables and enumerated algebras: decided completely (finite domains).

Tables are folded from the AST (E2); the table-driven functions are interpreted by the analyser's own
abstract interpreter (E3) on every element of their finite domains; `CDSFrame.shift` is additionally
decided for all integers by a mod-3 normal form (E4)."""
import ast
import itertools

from ..astutil import affine, Aff, NotAffine, src, calls_in, call_tail
from ..interp import ClassTok, std_interp, module_const, Obj, EnumVal, Raised, Uninterpretable

EXPLANATION = (
    "Finite-domain decision: gencode/extended_gencode/aacodons/start-codon/complement tables folded from the AST "
    "and compared with reference tables embedded in the checker (standard code in TCAG order, IUPAC expansion and "
    "complement, NCBI tables 1/11); Codon.translate/synonymous_codons/is_stop_codon, CDSPhase/CDSFrame conversions, "
    "CDSFrame.shift, Strand.reverse/relative_to/from_symbol/to_symbol/from_int/__lt__/assert_directional and "
    "Alphabet.is_nucleotide_alphabet interpreted by the analyser on every element of their finite domains "
    "(64 strict codons, 16^3 IUPAC triplets, all letters/cases, frames x shifts, strand pairs); shift also decided "
    "mod 3 symbolically for all integers. Nothing is executed by Python."
)

BASES = "TCAG"
AAS = "FFLLSSSSYY**CC*WLLLLPPPPHHQQRRRRIIIMTTTTNNKKSSRRVVVVAAAADDEEGGGG"
REF_GENCODE = {a + b + c: AAS[16 * i + 4 * j + k] for i, a in enumerate(BASES) for j, b in enumerate(BASES)
               for k, c in enumerate(BASES)}
IUPAC = {"A": "A", "C": "C", "G": "G", "T": "T", "U": "T", "R": "AG", "Y": "CT", "S": "CG", "W": "AT", "K": "GT",
         "M": "AC", "B": "CGT", "D": "AGT", "H": "ACT", "V": "ACG", "N": "ACGT"}
IUPAC_COMPLEMENT = {"A": "T", "C": "G", "G": "C", "T": "A", "U": "A", "R": "Y", "Y": "R", "S": "S", "W": "W",
                    "K": "M", "M": "K", "B": "V", "V": "B", "D": "H", "H": "D", "N": "N", "-": "-"}
NCBI_STARTS = {"DEFAULT": {"ATG"}, "STANDARD": {"TTG", "CTG", "ATG"},
               "PROKARYOTE": {"TTG", "CTG", "ATT", "ATC", "ATA", "ATG", "GTG"}}
NT_LETTERS = set("ATUCGNWSMKRYBDHV-")


def expansions(codon):
    return ["".join(p) for p in itertools.product(*(IUPAC[c] for c in codon))]


def r1_gencode(ctx):
    r, it = ctx.r, std_interp(ctx.repo)
    g = module_const(it, "constants", "gencode")
    where = (ctx.repo.module("constants").relpath, ctx.repo.const("constants", "gencode"))
    r.floor("C15.R1", "gencode rows", len(g), 64)
    for codon, aa in sorted(REF_GENCODE.items()):
        r.check(g.get(codon) == aa, "C15.R1", "constants:gencode", codon,
                f"gencode[{codon!r}] is {g.get(codon)!r}, the standard genetic code says {aa!r}", where)
    for k in g:
        r.check(k in REF_GENCODE, "C15.R1", "constants:gencode", f"key {k}",
                f"gencode has a key that is not one of the 64 strict codons: {k!r}", where)


def r2_extended(ctx):
    r, it = ctx.r, std_interp(ctx.repo)
    eg = module_const(it, "constants", "extended_gencode")
    where = (ctx.repo.module("constants").relpath, ctx.repo.const("constants", "extended_gencode"))
    r.floor("C15.R2", "extended_gencode rows", len(eg), 1)
    for k, aa in sorted(eg.items()):
        ok = len(k) == 3 and all(c in IUPAC for c in k)
        if ok:
            exp = {REF_GENCODE[e] for e in expansions(k)}
            ok = exp == {aa}
        r.check(ok, "C15.R2", "constants:extended_gencode", k,
                f"extended_gencode[{k!r}]={aa!r} but its IUPAC expansions do not all encode {aa!r}", where)


def r3_aacodons(ctx):
    r, it = ctx.r, std_interp(ctx.repo)
    ac = module_const(it, "constants", "aacodons")
    where = (ctx.repo.module("constants").relpath, ctx.repo.const("constants", "aacodons"))
    seen = {}
    for aa, codons in ac.items():
        for c in codons:
            r.check(REF_GENCODE.get(c) == aa and c not in seen, "C15.R3", "constants:aacodons", f"{aa}:{c}",
                    f"aacodons lists {c!r} under {aa!r} (standard code: {REF_GENCODE.get(c)!r}; "
                    f"already listed under {seen.get(c)!r})", where)
            seen.setdefault(c, aa)
    for c, aa in sorted(REF_GENCODE.items()):
        r.check(seen.get(c) == aa, "C15.R3", "constants:aacodons", f"covers {c}",
                f"codon {c!r} ({aa}) is listed under {seen.get(c)!r} in aacodons", where)
    # start codons
    st = module_const(it, "gene.codon", "START_CODONS_BY_TRANSLATION_TABLE")
    where2 = (ctx.repo.module("gene.codon").relpath, ctx.repo.const("gene.codon", "START_CODONS_BY_TRANSLATION_TABLE"))
    tt = it.enum("TranslationTable")
    got = {}
    for k, v in st.items():
        got[k.name if isinstance(k, EnumVal) else str(k)] = {x.fields["_val"] for x in v}
    for name, ref in NCBI_STARTS.items():
        r.check(got.get(name) == ref, "C15.R3", "gene.codon:START_CODONS_BY_TRANSLATION_TABLE", name,
                f"start codons for table {name} are {sorted(got.get(name, []))}, NCBI says {sorted(ref)}", where2)
    for name in tt:
        r.check(name in got, "C15.R3", "gene.codon:START_CODONS_BY_TRANSLATION_TABLE", f"member {name}",
                f"TranslationTable.{name} has no start-codon set (lookup raises KeyError)", where2)
    vals = {m.name: m.value for m in tt.values()}
    r.check(vals.get("STANDARD") == 1 and vals.get("PROKARYOTE") == 11, "C15.R3", "gene.codon:TranslationTable",
            "NCBI indices", f"TranslationTable values {vals} do not carry the NCBI table numbers 1 and 11",
            ctx.repo.cls("TranslationTable"))


def r3b_codon_functions(ctx):
    """Codon.translate / synonymous_codons / is_stop_codon / is_strict_codon / start test on the full IUPAC domain"""
    r, it = ctx.r, std_interp(ctx.repo, max_steps=50_000_000)
    translate = ctx.repo.fn("gene.codon:Codon.translate")
    syn = ctx.repo.fn("gene.codon:Codon.synonymous_codons")
    is_stop = ctx.repo.fn("gene.codon:Codon.is_stop_codon")
    is_strict = ctx.repo.fn("gene.codon:Codon.is_strict_codon")
    is_start = ctx.repo.fn("gene.codon:Codon.is_start_codon_in_specific_translation_table")
    is_canon = ctx.repo.fn("gene.codon:Codon.is_canonical_start_codon")
    letters = "ATUCGNWSMKRYBDHV"
    n = 0
    bad = {}

    def fail(rule_subject, construct, msg, where):
        if rule_subject not in bad:
            bad[rule_subject] = (construct, msg, where)

    for trip in itertools.product(letters, repeat=3):
        c = "".join(trip)
        try:
            o = it.apply(ClassTok("Codon"), [c], {}, None, 0)  # the library's own __new__ / __init__ (interning included)
        except Raised as e:
            fail(f"construct {c}", "gene.codon:Codon.__init__", f"Codon({c!r}) raises {e.exc_name} for an IUPAC triplet", ctx.repo.fn("gene.codon:Codon.__init__"))
            continue
        strict_ref = REF_GENCODE.get(c)
        for strict in (True, False):
            n += 1
            try:
                aa = it.call_func(translate, [], {"strict": strict}, o)
            except Raised as e:
                fail(f"translate {c}", translate.qual, f"Codon({c!r}).translate(strict={strict}) raises {e.exc_name}", translate)
                continue
            if strict_ref is not None:
                if aa != strict_ref:
                    fail(f"translate {c}", translate.qual,
                         f"Codon({c!r}).translate(strict={strict}) = {aa!r}, standard code says {strict_ref!r}", translate)
            elif strict:
                if aa != "X":
                    fail(f"translate strict {c}", translate.qual,
                         f"non-strict codon {c!r} translates to {aa!r} in strict mode (must be 'X')", translate)
            else:
                if aa != "X" and {REF_GENCODE[e] for e in expansions(c)} != {aa}:
                    fail(f"translate ambiguous {c}", translate.qual,
                         f"ambiguous codon {c!r} translates to {aa!r} but not every IUPAC expansion encodes it", translate)
        n += 1
        try:
            stop = it.call_func(is_stop, [], {}, o)
            if bool(stop) != (strict_ref == "*"):
                fail(f"is_stop {c}", is_stop.qual, f"Codon({c!r}).is_stop_codon = {stop}", is_stop)
            st = it.call_func(is_strict, [], {}, o)
            if bool(st) != (strict_ref is not None):
                fail(f"is_strict {c}", is_strict.qual, f"Codon({c!r}).is_strict_codon = {st}", is_strict)
            cn = it.call_func(is_canon, [], {}, o)
            if bool(cn) != (c == "ATG"):
                fail(f"is_canonical_start {c}", is_canon.qual, f"Codon({c!r}).is_canonical_start_codon = {cn}", is_canon)
        except Raised as e:
            fail(f"predicates {c}", is_stop.qual, f"codon predicate raises {e.exc_name} for {c!r}", is_stop)
        if strict_ref is not None:
            for inc in (True, False):
                n += 1
                try:
                    res = it.call_func(syn, [], {"include_self": inc}, o)
                    got = sorted(x.fields["_val"] for x in res)
                    want = sorted(k for k, v in REF_GENCODE.items() if v == strict_ref and (inc or k != c))
                    if got != want:
                        fail(f"synonymous {c}", syn.qual,
                             f"Codon({c!r}).synonymous_codons(include_self={inc}) = {got}, expected {want}", syn)
                except Raised as e:
                    fail(f"synonymous {c}", syn.qual, f"synonymous_codons raises {e.exc_name} for {c!r}", syn)
            for tname, ref in NCBI_STARTS.items():
                n += 1
                try:
                    tv = it.enum("TranslationTable")[tname]
                    res = it.call_func(is_start, [tv], {}, o)
                    if bool(res) != (c in ref):
                        fail(f"is_start {tname} {c}", is_start.qual, f"Codon({c!r}).is_start_codon_in_specific_translation_table({tname}) = {res}; "
                             f"NCBI start set of the table {'contains' if c in ref else 'does not contain'} {c}", is_start)
                    if set(c) <= set("ACGT") and isinstance(tv.value, int):
                        # the table named by its NCBI number (the enumeration is an IntEnum: 1 and 11 are the tables)
                        n += 1
                        res_i = it.call_func(is_start, [tv.value], {}, o)
                        if bool(res_i) != (c in ref):
                            fail(f"is_start table given by number {tname}", is_start.qual, f"Codon({c!r}).is_start_codon_in_specific_translation_table("
                                 f"{tv.value}) = {res_i}; the table's NCBI start set {'contains' if c in ref else 'does not contain'} {c} "
                                 f"(asked with the member {tname}: {res})", is_start)
                except Raised as e:
                    fail(f"is_start {tname}", is_start.qual, f"start-codon test raises {e.exc_name} for table {tname}", is_start)
    r.count(n)
    for subj, (construct, msg, where) in bad.items():
        r.violation("C15.R3b", construct, subj, msg, where)
    if not bad:
        r.ok("C15.R3b", translate.qual, "4096 IUPAC triplets x {strict, relaxed}", translate,
             f"{n} interpreted evaluations agree with the reference code")
        r.ok("C15.R3b", syn.qual, "64 strict codons x include_self", syn)
        r.ok("C15.R3b", is_stop.qual, "4096 triplets: stop / strict / canonical-start predicates", is_stop)


def r3c_start_membership(ctx):
    """codon objects are interned: an answer obtained from a codon must not depend on which other spellings (lower case, RNA
    letters, malformed text) were constructed before or after it.  Interpreted: every question is asked on a fresh
    interpreter (only that codon constructed) and again after a barrage of other constructions; refused spellings are
    refused every time."""
    r = ctx.r
    repo = ctx.repo
    qs = {"translate": repo.fn("gene.codon:Codon.translate"), "is_stop": repo.fn("gene.codon:Codon.is_stop_codon"),
          "is_strict": repo.fn("gene.codon:Codon.is_strict_codon"), "is_canon": repo.fn("gene.codon:Codon.is_canonical_start_codon"),
          "syn": repo.fn("gene.codon:Codon.synonymous_codons")}
    is_start = repo.fn("gene.codon:Codon.is_start_codon_in_specific_translation_table")
    new = repo.fn("gene.codon:Codon.__new__")

    def answers(it, o):
        out = {"str": it.py_str(o), "hash text": o.fields.get("_val")}
        for k, f in qs.items():
            try:
                v = it.call_func(f, [], {}, o)
                out[k] = sorted(x.fields["_val"] for x in v) if isinstance(v, list) else v
            except Raised as e:
                out[k] = ("raise", e.exc_name)
        for t in ("DEFAULT", "STANDARD", "PROKARYOTE"):
            try:
                out[f"start {t}"] = bool(it.call_func(is_start, [it.enum("TranslationTable")[t]], {}, o))
            except Raised as e:
                out[f"start {t}"] = ("raise", e.exc_name)
        return out

    probes = ["ATG", "TTG", "CTG", "GTG", "ATT", "TAA", "TGA", "GCT", "AAA", "NNN"]
    barrage = ["AUG", "aug", "atg", "UUG", "uug", "CUG", "GUG", "AUU", "UAA", "UGA", "GCU", "gcu", "nnn", "A-G", "AT", "XYZ", "ATGA", "A-G", "AT"]
    n = 0
    bad = None
    for order in ("before", "after"):
        it = std_interp(repo, max_steps=50_000_000)
        held = {}
        if order == "after":
            for c in probes:
                held[c] = it.apply(ClassTok("Codon"), [c], {}, None, 0)
        refused = {}
        for c in barrage:
            try:
                it.apply(ClassTok("Codon"), [c], {}, None, 0)
                refused.setdefault(c, []).append("ok")
            except Raised as e:
                refused.setdefault(c, []).append(e.exc_name)
        for c, outcomes in refused.items():
            n += 1
            if len(set(outcomes)) > 1 and bad is None:
                bad = (f"repeated construction of {c!r}", f"Codon({c!r}) is {outcomes[0]} the first time and {outcomes[1]} the second: a refused "
                       f"spelling stays in the intern table")
        for c in probes:
            n += 1
            fresh_it = std_interp(repo, max_steps=50_000_000)
            want = answers(fresh_it, fresh_it.apply(ClassTok("Codon"), [c], {}, None, 0))
            o = held.get(c) or it.apply(ClassTok("Codon"), [c], {}, None, 0)
            got = answers(it, o)
            if got != want and bad is None:
                k = [x for x in want if got.get(x) != want[x]][0]
                bad = (f"codon {c} held {order} other spellings were constructed",
                       f"Codon({c!r}) {'obtained before' if order == 'after' else 'constructed after'} constructing {barrage[:6]}...: `{k}` answers "
                       f"{got.get(k)!r}; on its own it answers {want[k]!r}")
    r.count(n)
    if bad:
        r.violation("C15.R3c", new.qual, bad[0], bad[1], new)
    else:
        r.ok("C15.R3c", new.qual, "answers of interned codons independent of other constructions; refusals repeatable", new,
             f"{n} comparisons against fresh interpreters")


def r4_complement(ctx):
    r, it = ctx.r, std_interp(ctx.repo)
    table = module_const(it, "sequence.alphabet", "ALPHABET_TO_NUCLEOTIDE_COMPLEMENT")
    where = (ctx.repo.module("sequence.alphabet").relpath, ctx.repo.const("sequence.alphabet", "ALPHABET_TO_NUCLEOTIDE_COMPLEMENT"))
    alph = it.enum("Alphabet")
    isnt = ctx.repo.fn("sequence.alphabet:Alphabet.is_nucleotide_alphabet")
    nt = []
    for name, m in alph.items():
        want = set(m.value.upper()) <= NT_LETTERS
        try:
            got = it.call_func(isnt, [], {}, m)
        except Raised as e:
            r.violation("C15.R4", isnt.qual, name, f"Alphabet.{name}.is_nucleotide_alphabet() raises {e.exc_name}", isnt)
            continue
        r.check(bool(got) == want, "C15.R4", isnt.qual, name,
                f"Alphabet.{name}.is_nucleotide_alphabet() = {got}, but its letters {'are' if want else 'are not'} all nucleotide codes", isnt)
        if want:
            nt.append(m)
    r.floor("C15.R4", "nucleotide alphabets", len(nt), 5)
    tab = {(k.name if isinstance(k, EnumVal) else str(k)): v for k, v in table.items()}
    for m in nt:
        cm = tab.get(m.name)
        if not r.check(cm is not None, "C15.R4", "sequence.alphabet:ALPHABET_TO_NUCLEOTIDE_COMPLEMENT", m.name,
                       f"nucleotide alphabet {m.name} has no complement table", where):
            continue
        for ch in m.value:
            for c in sorted({ch.upper(), ch.lower()}):
                ref = IUPAC_COMPLEMENT[ch.upper()]
                ref = ref.lower() if c.islower() else ref
                r.check(cm.get(c) == ref, "C15.R4", "sequence.alphabet:ALPHABET_TO_NUCLEOTIDE_COMPLEMENT", f"{m.name}[{c}]",
                        f"complement of {c!r} in {m.name} is {cm.get(c)!r}, IUPAC complement is {ref!r}", where)
        for c, v in cm.items():
            # involution on the quotient identifying U with T; extra keys must still be IUPAC-correct
            vv = cm.get(v)
            inv = vv == c or (c in "Uu" and vv in "Tt" and vv.islower() == c.islower())
            r.check(inv, "C15.R4", "sequence.alphabet:ALPHABET_TO_NUCLEOTIDE_COMPLEMENT", f"{m.name} involution {c}",
                    f"complement is not an involution at {c!r} in {m.name}: {c!r}->{v!r}->{vv!r}", where)
    for name in tab:
        r.check(any(m.name == name for m in nt), "C15.R4", "sequence.alphabet:ALPHABET_TO_NUCLEOTIDE_COMPLEMENT",
                f"key {name}", f"complement table defined for non-nucleotide alphabet {name}", where)


def r4b_reverse_complement(ctx):
    """the consumer of the complement tables: Sequence.reverse_complement is the letter-wise IUPAC complement, reversed, for
    every 1- and 2-letter sequence (both cases) and for one sequence holding every letter, over every nucleotide alphabet -
    a letter's complement does not depend on which other letters are present"""
    from ..genekernel import gene_interp, mk_sequence
    r, repo = ctx.r, ctx.repo
    it = gene_interp(repo, max_steps=10 ** 9)
    f = repo.fn("sequence.sequence:Sequence.reverse_complement")
    alph = it.enum("Alphabet")
    n = 0
    bad = None
    for name, m in alph.items():
        letters = [c for c in m.value if c.upper() in IUPAC_COMPLEMENT]
        if set(m.value.upper()) - NT_LETTERS:
            continue
        both = sorted({c.upper() for c in letters} | {c.lower() for c in letters if c.isalpha()})
        seqs = list(both) + [a + b for a in both for b in both] + ["".join(both), "".join(reversed(both))]
        for sq in seqs:
            n += 1
            try:
                o = mk_sequence(it, sq, name)
                k, v = "ok", it.call_func(f, [], {}, o)
            except Raised as e:
                k, v = "raise", e.exc_name
            want = "".join((IUPAC_COMPLEMENT[c.upper()].lower() if c.islower() else IUPAC_COMPLEMENT[c.upper()]) for c in reversed(sq))
            got = v.fields.get("sequence") if k == "ok" else v
            if got != want and bad is None:
                bad = (name, sq, got, want)
    r.count(n)
    r.floor("C15.R4b", "sequences reverse-complemented", n, 2000)
    if bad:
        r.violation("C15.R4b", f.qual, f"letter-wise complement ({bad[0]})", f"Sequence({bad[1]!r}, {bad[0]}).reverse_complement() = {bad[2]!r}; "
                    f"the letter-wise IUPAC complement, reversed, is {bad[3]!r}", f)
    else:
        r.ok("C15.R4b", f.qual, "letter-wise IUPAC complement reversed, all 1-/2-letter sequences of every nucleotide alphabet", f, f"{n} sequences")


def r5_frames(ctx):
    r, it = ctx.r, std_interp(ctx.repo)
    to_frame = ctx.repo.fn("gene.cds_frame:CDSPhase.to_frame")
    to_phase = ctx.repo.fn("gene.cds_frame:CDSFrame.to_phase")
    shift = ctx.repo.fn("gene.cds_frame:CDSFrame.shift")
    ph, fr = it.enum("CDSPhase"), it.enum("CDSFrame")
    r.check({m.name: m.value for m in ph.values()} == {"NONE": -1, "ZERO": 0, "ONE": 1, "TWO": 2}, "C15.R5",
            "gene.cds_frame:CDSPhase", "member values", "CDSPhase members are not NONE=-1, ZERO=0, ONE=1, TWO=2", ctx.repo.cls("CDSPhase"))
    r.check({m.name: m.value for m in fr.values()} == {"NONE": -1, "ZERO": 0, "ONE": 1, "TWO": 2}, "C15.R5",
            "gene.cds_frame:CDSFrame", "member values", "CDSFrame members are not NONE=-1, ZERO=0, ONE=1, TWO=2", ctx.repo.cls("CDSFrame"))
    for m in ph.values():
        try:
            f = it.call_func(to_frame, [], {}, m)
            want = -1 if m.value == -1 else (-m.value) % 3
            ok = isinstance(f, EnumVal) and f.cls == "CDSFrame" and f.value == want
            r.check(ok, "C15.R5", to_frame.qual, m.name, f"CDSPhase.{m.name}.to_frame() = {f}, expected frame value {want}", to_frame)
            if ok:
                back = it.call_func(to_phase, [], {}, f)
                r.check(back == m, "C15.R5", to_phase.qual, f"inverse of {m.name}",
                        f"to_phase(to_frame({m.name})) = {back}", to_phase)
        except Raised as e:
            r.violation("C15.R5", to_frame.qual, m.name, f"conversion raises {e.exc_name}", to_frame)
    for m in fr.values():
        try:
            p = it.call_func(to_phase, [], {}, m)
            want = -1 if m.value == -1 else (-m.value) % 3
            r.check(isinstance(p, EnumVal) and p.cls == "CDSPhase" and p.value == want, "C15.R5", to_phase.qual, m.name,
                    f"CDSFrame.{m.name}.to_phase() = {p}, expected phase value {want}", to_phase)
        except Raised as e:
            r.violation("C15.R5", to_phase.qual, m.name, f"conversion raises {e.exc_name}", to_phase)
    # shift: the property's stated finite domain, interpreted
    lim = 300 if ctx.thorough else 30
    bad = None
    n = 0
    for m in fr.values():
        for s in range(-lim, lim + 1):
            n += 1
            try:
                got = it.call_func(shift, [s], {}, m)
            except Raised as e:
                bad = bad or (m, s, f"raises {e.exc_name}")
                continue
            want = m.value if m.value == -1 else (m.value + s) % 3
            if not (isinstance(got, EnumVal) and got.cls == "CDSFrame" and got.value == want):
                bad = bad or (m, s, f"= {got}, expected frame value {want}")
    r.count(n)
    if bad:
        r.violation("C15.R5", shift.qual, "shift table", f"CDSFrame.{bad[0].name}.shift({bad[1]}) {bad[2]}", shift)
    else:
        r.ok("C15.R5", shift.qual, f"frames x shifts in [-{lim},{lim}]", shift, f"{n} interpreted evaluations")
    # shift: symbolic mod-3 normal form of every from_int(<e> % 3) return, for all integers
    want = Aff.sym("self.value") + Aff.sym("shift")
    k = 0
    for ret in [x for x in ast.walk(shift.node) if isinstance(x, ast.Return)]:
        v = ret.value
        if isinstance(v, ast.Call) and call_tail(v) in ("from_int", "CDSFrame") and len(v.args) == 1:
            e = v.args[0]
            if isinstance(e, ast.BinOp) and isinstance(e.op, ast.Mod) and isinstance(e.right, ast.Constant) and e.right.value == 3:
                k += 1
                try:
                    nf = _affine_mod3(e.left)
                    # strengthening only: a recognised form extends the table above to all integers; an unrecognised one
                    # (locals, helpers) is a note - the behaviour is decided by the interpreted table either way
                    if nf == want.mod(3):
                        r.ok("C15.R5", shift.qual, f"mod-3 normal form of `{src(e.left)}` is self.value + shift for all integers", (shift, ret))
                    else:
                        r.note(f"C15.R5: shift branch `{src(e)}` has normal form {nf} over names the rule does not resolve; "
                               f"decided by the interpreted table only")
                except NotAffine as ex:
                    r.note(f"C15.R5: shift branch `{src(e)}` not in mod-3 affine form ({ex}); decided by enumeration only")
    r.note(f"C15.R5: {k} shift branches decided symbolically mod 3")


def _affine_mod3(node):
    """affine normal form in Z/3 where `(e) % 3` may be replaced by e"""

    def strip(n):
        if isinstance(n, ast.BinOp) and isinstance(n.op, ast.Mod) and isinstance(n.right, ast.Constant) and n.right.value == 3:
            return strip_all(n.left)
        return None

    def strip_all(n):
        class T(ast.NodeTransformer):
            def visit_BinOp(self, b):
                self.generic_visit(b)
                if isinstance(b.op, ast.Mod) and isinstance(b.right, ast.Constant) and b.right.value == 3:
                    return b.left
                return b
        import copy
        return T().visit(copy.deepcopy(n))

    return affine(strip_all(node)).mod(3)


def r6_strand(ctx):
    r, it = ctx.r, std_interp(ctx.repo)
    S = it.enum("Strand")
    cls = ctx.repo.cls("Strand")
    r.check({m.name: m.value for m in S.values()} == {"PLUS": 1, "MINUS": -1, "UNSTRANDED": 0}, "C15.R6", cls.qual,
            "member values", "Strand members are not PLUS=1, MINUS=-1, UNSTRANDED=0 (Biopython's integers)", cls)
    rev = ctx.repo.fn("location.strand:Strand.reverse")
    rel = ctx.repo.fn("location.strand:Strand.relative_to")
    fsym = ctx.repo.fn("location.strand:Strand.from_symbol")
    tsym = ctx.repo.fn("location.strand:Strand.to_symbol")
    fint = ctx.repo.fn("location.strand:Strand.from_int")
    lt = ctx.repo.fn("location.strand:Strand.__lt__")
    ad = ctx.repo.fn("location.strand:Strand.assert_directional")
    sign = {"PLUS": 1, "MINUS": -1, "UNSTRANDED": 0}
    byval = {v: k for k, v in sign.items()}
    for m in S.values():
        try:
            x = it.call_func(rev, [], {}, m)
            r.check(isinstance(x, EnumVal) and x.name == byval[-sign[m.name]], "C15.R6", rev.qual, m.name,
                    f"Strand.{m.name}.reverse() = {x}", rev)
            xx = it.call_func(rev, [], {}, x)
            r.check(xx == m, "C15.R6", rev.qual, f"involution {m.name}", f"reverse(reverse({m.name})) = {xx}", rev)
        except Raised as e:
            r.violation("C15.R6", rev.qual, m.name, f"reverse raises {e.exc_name}", rev)
        for o in S.values():
            try:
                x = it.call_func(rel, [o], {}, m)
                want = byval[sign[m.name] * sign[o.name]]
                r.check(isinstance(x, EnumVal) and x.name == want, "C15.R6", rel.qual, f"{m.name} x {o.name}",
                        f"Strand.{m.name}.relative_to({o.name}) = {x}, sign product is {want}", rel)
            except Raised as e:
                r.violation("C15.R6", rel.qual, f"{m.name} x {o.name}", f"relative_to raises {e.exc_name}", rel)
        try:
            sym = it.call_func(tsym, [], {}, m)
            want = {"PLUS": "+", "MINUS": "-", "UNSTRANDED": "."}[m.name]
            r.check(sym == want, "C15.R6", tsym.qual, m.name, f"Strand.{m.name}.to_symbol() = {sym!r}", tsym)
            back = it.call_func(fsym, [sym], {}, None)
            r.check(back == m, "C15.R6", fsym.qual, f"round trip {m.name}", f"from_symbol(to_symbol({m.name})) = {back}", fsym)
            fi = it.call_func(fint, [m.value], {}, None)
            r.check(fi == m, "C15.R6", fint.qual, f"round trip {m.name}", f"from_int({m.value}) = {fi}", fint)
        except Raised as e:
            r.violation("C15.R6", tsym.qual, m.name, f"symbol/int conversion raises {e.exc_name}", tsym)
        try:
            it.call_func(ad, [], {}, m)
            raised = None
        except Raised as e:
            raised = e.exc_name
        want = "InvalidStrandException" if m.name == "UNSTRANDED" else None
        r.check(raised == want, "C15.R6", ad.qual, m.name,
                f"assert_directional on {m.name}: raised {raised}, expected {want}", ad)
    for bad in ("?", "", "++", "1"):
        try:
            x = it.call_func(fsym, [bad], {}, None)
            r.violation("C15.R6", fsym.qual, f"invalid symbol {bad!r}", f"from_symbol({bad!r}) returns {x} instead of raising ValueError", fsym)
        except Raised as e:
            r.check(e.exc_name == "ValueError", "C15.R6", fsym.qual, f"invalid symbol {bad!r}",
                    f"from_symbol({bad!r}) raises {e.exc_name}, documented ValueError", fsym)
    for bad in (2, -2, 5):
        try:
            x = it.call_func(fint, [bad], {}, None)
            r.violation("C15.R6", fint.qual, f"invalid int {bad}", f"from_int({bad}) returns {x}", fint)
        except Raised as e:
            r.check(e.exc_name == "ValueError", "C15.R6", fint.qual, f"invalid int {bad}", f"from_int({bad}) raises {e.exc_name}", fint)
    # strict total order
    ms = list(S.values())
    try:
        rel_lt = {(a.name, b.name): bool(it.call_func(lt, [b], {}, a)) for a in ms for b in ms}
        ok = all(not rel_lt[(a.name, a.name)] for a in ms)
        ok = ok and all(rel_lt[(a.name, b.name)] != rel_lt[(b.name, a.name)] for a in ms for b in ms if a != b)
        ok = ok and all(not (rel_lt[(a.name, b.name)] and rel_lt[(b.name, c.name)]) or rel_lt[(a.name, c.name)]
                        for a in ms for b in ms for c in ms)
        r.check(ok, "C15.R6", lt.qual, "strict total order", f"Strand.__lt__ is not a strict total order: {rel_lt}", lt)
    except Raised as e:
        r.violation("C15.R6", lt.qual, "strict total order", f"__lt__ raises {e.exc_name}", lt)


def r7_biotype(ctx):
    r = ctx.r
    m = ctx.repo.module("gene.biotype")
    node = ctx.repo.const("gene.biotype", "Biotype")
    # the member table as the library builds it (the functional Enum call is interpreted, however its names list is written)
    it = std_interp(ctx.repo)
    try:
        members = it.enum("Biotype")
    except Uninterpretable as ex:
        from ..model import AnalysisError
        raise AnalysisError(f"Biotype member table not interpretable: {ex}")
    names = [(n, mv.value) for n, mv in members.items()]
    where = (m.relpath, node)
    r.floor("C15.R7", "biotype names", len(names), 30)
    explicit = {"mrna": "proteincoding", "pseudo": "pseudogene"}

    def group(n):
        k = n.lower().replace("_", "").replace("-", "")
        return explicit.get(k, k)

    seen_names = set()
    by_group, by_value = {}, {}
    for n, v in names:
        r.check(n not in seen_names, "C15.R7", "gene.biotype:Biotype", f"duplicate {n}", f"biotype name {n!r} listed twice", where)
        seen_names.add(n)
        by_group.setdefault(group(n), set()).add(v)
        by_value.setdefault(v, set()).add(group(n))
    for g, vals in sorted(by_group.items()):
        r.check(len(vals) == 1, "C15.R7", "gene.biotype:Biotype", f"synonyms {g}",
                f"synonymous biotype spellings of {g!r} carry different values {sorted(vals)}", where)
    for v, gs in sorted(by_value.items()):
        r.check(len(gs) == 1, "C15.R7", "gene.biotype:Biotype", f"value {v}",
                f"distinct biotypes {sorted(gs)} share value {v} (they would compare equal)", where)
    for must in ("protein_coding", "protein-coding", "mRNA", "misc_RNA", "miscRNA", "pseudogene", "pseudo", "lncRNA", "lnc_RNA"):
        r.check(must in seen_names, "C15.R7", "gene.biotype:Biotype", f"spelling {must}", f"biotype spelling {must!r} missing", where)
    # membership questions agree with look-up, for every spelling (synonyms are names too) and for non-members - on every
    # enumeration that offers them
    from ..interp import ClassTok, Raised
    from ..lockernel import run
    asked = 0
    for cname in ("Biotype", "GFF3ReservedQualifiers", "BioCantorGFF3ReservedQualifiers", "TranscriptFeatures", "GeneFeatures"):
        try:
            mem = it.enum(cname)
        except Exception:
            continue
        for meth, universe in (("has_name", list(mem) + ["no_such_name", "", "Protein_Coding"]),
                               ("has_value", [mv.value for mv in mem.values()] + ["no such value", -1])):
            try:
                fm = ctx.repo.fn("util.enum:HasMemberMixin." + meth)
            except Exception:
                continue
            for x in universe:
                asked += 1
                want = (x in mem) if meth == "has_name" else any(mv.value == x and type(mv.value) is type(x) for mv in mem.values())
                k, v = run(it, fm, [x], {}, ClassTok(cname))
                r.check(k == "ok" and v is want, "C15.R7", fm.qual, f"{cname}.{meth}({x!r})",
                        f"{cname}.{meth}({x!r}) -> {k}:{v}; {cname}[...] / {cname}(...) look-up says {want}", fm)
    r.floor("C15.R7", "membership questions", asked, 60)


def r8_tables_in_use(ctx):
    """the consumer of the tables: CDSInterval.translate applies exactly the start set of the table it is given (ATG only when
    none is given) - shared kernel with C05.RT"""
    from .c05 import rt_designed_translation
    rt_designed_translation(ctx, "C15.R8")


RULES = [
    ("C15.R1", r1_gencode),
    ("C15.R2", r2_extended),
    ("C15.R3", r3_aacodons),
    ("C15.R3b", r3b_codon_functions),
    ("C15.R3c", r3c_start_membership),
    ("C15.R4", r4_complement),
    ("C15.R4b", r4b_reverse_complement),
    ("C15.R5", r5_frames),
    ("C15.R6", r6_strand),
    ("C15.R7", r7_biotype),
    ("C15.R8", r8_tables_in_use),
]
