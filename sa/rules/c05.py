"""C05 - CDS codons, frame bookkeeping and translation follow one reading-frame model.

RK  the analyser interprets CDSInterval (on a chromosome parent carrying sequence) for every order type of
    1..2 exon layouts (thorough 3), both strands, every annotated frame vector in {0,1,2}^k, and compares codon
    locations, coding sequence, translation and codon windows with the reference walker written from the property
    statement (5'->3' walk, skip the start offset, re-synchronise dropping the incomplete codon at a frame
    disagreement).  Return types are part of the answer (extract_sequence must be a Sequence in every history).
RF  construct_frames_from_location describes one uninterrupted reading frame.
R1  CDSFrame.shift / phase tables: C15.R5 (shared)."""
import itertools

from ..genekernel import chrom_parent, gene_interp
from ..interp import ClassTok, Obj, Raised, Uninterpretable
from ..lockernel import blocks_of, is_empty_obj, run, strand_of, strands
from ..model import AnalysisError
from ..par import pmap
from .c01 import enum_positions
from .c06 import _exon_layouts
from .c15 import NCBI_STARTS, REF_GENCODE

EXPLANATION = (
    "RK: CDSInterval objects on a sequence-carrying chromosome parent are interpreted by the analyser for every order "
    "type of 1-2 exon layouts (3 in thorough; 0-bp gaps included), both strands and every frame vector in {0,1,2}^k; "
    "chromosome/chunk-relative codon locations, extract_sequence (before and after the codon cache is filled, value and "
    "type), translate for every translation table, num_codons and chromosome-window restrictions are compared with a "
    "reference walker written from the property statement. RF: construct_frames_from_location for every layout and "
    "start offset yields frames under which the walker never re-synchronises. Table/shift algebra is decided in C15. "
    "Not decided: larger exon counts."
)

CDS = "gene.cds:CDSInterval"
GENOME = "ATGGCATTGTAACCGATGAAATAGCTTGACCATGGTTAAGCGTACGTTGA"


def rc(s):
    return s[::-1].translate(str.maketrans("ACGTacgt", "TGCAtgca"))


def walker(exons, strand_name, frames, carry_offsets=True):
    """reference reading-frame model: list of codons, each a list of 3 chromosome positions (5'->3').
    carry_offsets=False: an offset longer than its exon ends with that exon (what the library does, pinned by
    tests/minimal/gene/test_cds.py::test_optimize_blocks[cds0]) instead of continuing in the next exon"""
    order = list(range(len(exons)))
    if strand_name == "MINUS":
        order.reverse()
    kept = []
    running = 0
    carry = 0  # bases of an offset that a shorter exon left to be skipped in the next one
    for i in order:
        pos = enum_positions([exons[i]], strand_name)
        f = frames[i]
        # while an offset is still being skipped, the codon position of the exon's first base is 3 - (bases left to skip)
        expected = (3 - carry) % 3 if carry else running
        if f != expected:
            r = len(kept) % 3
            if r:
                kept = kept[:len(kept) - r]
            skip = f
        else:
            skip = carry
        carry = max(0, skip - len(pos)) if carry_offsets else 0
        kept += pos[skip:]
        running = len(kept) % 3
    n = len(kept) // 3
    return [kept[3 * i:3 * i + 3] for i in range(n)]


def bases(pos_list, strand_name, genome=GENOME):
    s = "".join(genome[p] for p in pos_list)
    if strand_name == "MINUS":
        s = "".join(rc(genome[p]) for p in pos_list)
    return s


def translate_ref(seq, table):
    out = []
    for i in range(0, len(seq), 3):
        c = seq[i:i + 3]
        if i == 0 and c in NCBI_STARTS[table]:
            out.append("M")
        else:
            out.append(REF_GENCODE[c])
    return "".join(out)


def consistent_frames_of(exons, sn, start):
    """the frame vector of one uninterrupted reading frame that starts with offset `start` at the 5' end"""
    order = list(range(len(exons)))
    if sn == "MINUS":
        order.reverse()
    fr = {}
    before = -start
    for j, i in enumerate(order):
        fr[i] = start if j == 0 else before % 3
        before += exons[i][1] - exons[i][0]
    return [fr[i] for i in range(len(exons))]


def mk_cds(it, exons, strand, frames, parent):
    F = it.enum("CDSFrame")
    names = {0: "ZERO", 1: "ONE", 2: "TWO"}
    return it.apply(ClassTok("CDSInterval"), [], dict(
        cds_starts=[b[0] for b in exons], cds_ends=[b[1] for b in exons], strand=strand,
        frames_or_phases=[F[names[f]] for f in frames], parent_or_seq_chunk_parent=parent), None, 0)


def loc_positions(v):
    return [] if is_empty_obj(v) else enum_positions(blocks_of(v), strand_of(v).name)


def _case(repo, it, S, spec):
    exons, sn, frames = spec
    out = []
    n = 0
    par = chrom_parent(it, GENOME, alphabet="NT_EXTENDED")
    desc = f"CDS exons={list(exons)} {sn} frames={list(frames)}"
    try:
        cds = mk_cds(it, exons, S[sn], frames, par)
    except Raised as ex:
        return 1, [("construct", f"{desc}: construction raises {ex.exc_name}", f"{CDS}.__init__")]
    want = walker(list(exons), sn, list(frames))

    def q(m):
        return repo.fn(f"{CDS}.{m}")

    pinned = walker(list(exons), sn, list(frames), carry_offsets=False)
    if pinned != want:
        # an offset of 2 annotated on a 1-base exon: by the statement the rest of the offset is skipped in the next exon.
        # The library ends the offset with the exon (known finding); everything derived is then compared with that reading,
        # so that the other answers are still checked for consistency.
        k, v = run(it, q("chromosome_codon_locations"), [], {}, mk_cds(it, exons, S[sn], frames, par))
        if k == "ok" and [loc_positions(c) for c in v] == pinned:
            out.append(("codons [offset longer than its exon]", f"{desc}: codons {pinned}; skipping the whole annotated offset "
                        f"(continuing in the next exon) gives {want}", f"{CDS}._prepare_multi_exon_window_for_scan_codon_locations"))
            want = pinned
    want_seq = "".join(bases(c, sn) for c in want)

    def seq_value(v):
        if isinstance(v, Obj) and v.cls_name == "Sequence":
            return "Sequence", v.fields["sequence"]
        if isinstance(v, str):
            return "str", v
        return type(v).__name__, None

    # extract_sequence on a fresh object (fast path)
    n += 1
    k, v = run(it, q("extract_sequence"), [], {}, cds)
    if k != "ok":
        if want_seq or v in ("AttributeError", "IndexError", "KeyError", "TypeError"):
            out.append(("extract_sequence", f"{desc}: extract_sequence raises {v}; the reading-frame model gives {want_seq!r}", q("extract_sequence").qual))
    else:
        ty, sv = seq_value(v)
        if sv is None or sv.upper() != want_seq or len(sv) % 3:
            out.append(("extract_sequence", f"{desc}: extract_sequence = {sv!r}; the reading-frame model gives {want_seq!r}", q("extract_sequence").qual))
        if ty != "Sequence":
            out.append(("extract_sequence type", f"{desc}: extract_sequence returns {ty}, not Sequence", q("extract_sequence").qual))
    # codon locations (chromosome and chunk-relative agree without a chunk)
    for acc in ("chromosome_codon_locations", "chunk_relative_codon_locations"):
        n += 1
        k, v = run(it, q(acc), [], {}, cds)
        if k != "ok":
            # a CDS whose frames leave no complete codon may be refused with a documented exception
            if want or v in ("AttributeError", "IndexError", "KeyError", "TypeError", "RecursionError"):
                out.append((acc, f"{desc}: {acc} raises {v}", q(acc).qual))
            continue
        got = [loc_positions(c) for c in v]
        if got != want:
            out.append((acc, f"{desc}: {acc} = {got}; the reading-frame model gives {want}", q(acc).qual))
    n += 1
    k, v = run(it, q("num_codons"), [], {}, cds)
    if (k != "ok" and want) or (k == "ok" and v != len(want)):
        out.append(("num_codons", f"{desc}: num_codons -> {k}:{v}; expected {len(want)}", q("num_codons").qual))
    # extract_sequence again, after the codon cache has been filled: same value, same type
    cds2 = mk_cds(it, exons, S[sn], frames, par)
    run(it, q("chunk_relative_codon_locations"), [], {}, cds2)
    n += 1
    k, v = run(it, q("extract_sequence"), [], {}, cds2)
    if k == "ok":
        ty, sv = seq_value(v)
        if sv is None or sv.upper() != want_seq:
            out.append(("extract_sequence after codon listing", f"{desc}: after listing codon locations extract_sequence = {sv!r}; expected {want_seq!r}", q("extract_sequence").qual))
        if ty != "Sequence":
            out.append(("extract_sequence type after codon listing", f"{desc}: after chunk_relative_codon_locations was read, extract_sequence returns {ty} instead of Sequence (answer depends on call history)", q("extract_sequence").qual))
    elif want_seq:
        out.append(("extract_sequence after codon listing", f"{desc}: raises {v}", q("extract_sequence").qual))
    # translation for every table
    if want_seq:
        for table in ("DEFAULT", "STANDARD", "PROKARYOTE"):
            n += 1
            tt = it.enum("TranslationTable")[table]
            k, v = run(it, q("translate"), [], {"translation_table": tt}, mk_cds(it, exons, S[sn], frames, par))
            wp = translate_ref(want_seq, table)
            if k != "ok" or seq_value(v)[1] != wp:
                out.append((f"translate {table}", f"{desc}: translate(table={table}) -> {k}:{seq_value(v)[1] if k == 'ok' else v}; standard-code translation of the codons is {wp!r}", q("translate").qual))
        n += 1
        k, v = run(it, q("translate"), [], {"truncate_at_in_frame_stop": True}, mk_cds(it, exons, S[sn], frames, par))
        wp = translate_ref(want_seq, "DEFAULT")
        cut = wp.find("*")
        wt = wp if cut < 0 else wp[:cut + 1]
        if k != "ok" or seq_value(v)[1] != wt:
            out.append(("translate truncated", f"{desc}: translate(truncate_at_in_frame_stop=True) -> {k}:{seq_value(v)[1] if k == 'ok' else v}; expected {wt!r}", q("translate").qual))
        n += 1
        k, v = run(it, q("has_valid_stop"), [], {}, mk_cds(it, exons, S[sn], frames, par))
        if k != "ok" or bool(v) != (want_seq[-3:] in ("TAA", "TAG", "TGA")):
            out.append(("has_valid_stop", f"{desc}: has_valid_stop -> {k}:{v}; last codon is {want_seq[-3:]}", q("has_valid_stop").qual))
    # chromosome windows keep frame: exactly the codons lying fully inside the window
    lo, hi = exons[0][0], exons[-1][1]
    wins = [(lo + 1, hi), (lo, hi - 1), (lo + 2, hi - 2), (lo + 4, None), (None, hi - 4)]
    # windows inside an intron (no coding base: no codon, also when a codon is split by that intron) and across its edges
    for (_s0, e0), (s1, _e1) in zip(exons, exons[1:]):
        if s1 > e0:
            wins += [(e0, s1), (e0 - 1, s1), (e0, s1 + 1)]
    for ws, we in wins:
        if ws is not None and we is not None and ws >= we:
            continue
        n += 1
        k, v = run(it, q("scan_chromosome_codon_locations"), [ws, we], {}, mk_cds(it, exons, S[sn], frames, par))
        a, b = (lo if ws is None else ws), (hi if we is None else we)
        wantw = [c for c in want if all(a <= p < b for p in c)]
        first_frame = frames[0] if sn == "PLUS" else frames[-1]
        cuts5 = (a > lo) if sn == "PLUS" else (b < hi)
        wkey = (f"codon window [{'single' if len(exons) == 1 else 'multi'}-exon, start frame "
                f"{'0' if first_frame == 0 else 'nonzero'}, 5' end {'cut' if cuts5 else 'kept'}]")
        if k != "ok":
            if wantw:
                out.append((wkey + " raises", f"{desc}: scan_chromosome_codon_locations({ws},{we}) raises {v}; codons inside the window: {wantw}", q("scan_chromosome_codon_locations").qual))
        else:
            got = [loc_positions(c) for c in v]
            if got != wantw:
                out.append((wkey, f"{desc}: scan_chromosome_codon_locations({ws},{we}) = {got}; codons of the reading frame inside the window: {wantw}", q("scan_chromosome_codon_locations").qual))
        # the documented flag: a codon cut by a window edge is retained whole
        n += 1
        k, v = run(it, q("scan_chromosome_codon_locations"), [ws, we], {"expand_window_to_partial_codons": True}, mk_cds(it, exons, S[sn], frames, par))
        wante = [c for c in want if any(a <= p < b for p in c)]
        consistent = list(frames) == consistent_frames_of(exons, sn, first_frame)
        ekey = (f"expanded codon window [{'single' if len(exons) == 1 else 'multi'}-exon, start frame "
                f"{'0' if first_frame == 0 else 'nonzero'}, {'one reading frame' if consistent else 'annotated frameshift'}]")
        if k != "ok":
            if wante:
                out.append((ekey + " raises", f"{desc}: scan_chromosome_codon_locations({ws},{we}, expand_window_to_partial_codons=True) raises {v}; "
                            f"codons touching the window: {wante}", q("_expand_coordinates_to_codons").qual))
            continue
        got = [loc_positions(c) for c in v]
        if got != wante:
            out.append((ekey, f"{desc}: scan_chromosome_codon_locations({ws},{we}, expand_window_to_partial_codons=True) = {got}; the codons of the "
                        f"reading frame with a base inside the window are {wante}", q("_expand_coordinates_to_codons").qual))
    # the deprecated spelling answers like the chunk-relative scan without a window
    n += 1
    k1, v1 = run(it, q("scan_codon_locations"), [], {}, mk_cds(it, exons, S[sn], frames, par))
    k2, v2 = run(it, q("scan_chunk_relative_codon_locations"), [], {}, mk_cds(it, exons, S[sn], frames, par))
    g1 = [loc_positions(c) for c in v1] if k1 == "ok" else v1
    g2 = [loc_positions(c) for c in v2] if k2 == "ok" else v2
    if (k1, g1) != (k2, g2):
        out.append(("scan_codon_locations (deprecated spelling)", f"{desc}: scan_codon_locations() -> {k1}:{g1}; scan_chunk_relative_codon_locations() "
                    f"-> {k2}:{g2}", q("scan_codon_locations").qual))
    return n, out


def _frames_case(repo, it, S, spec):
    exons, sn, start = spec
    out = []
    f = repo.fn(f"{CDS}.construct_frames_from_location")
    F = it.enum("CDSFrame")
    names = {0: "ZERO", 1: "ONE", 2: "TWO"}
    if len(exons) == 1:
        loc = it.apply(ClassTok("SingleInterval"), [exons[0][0], exons[0][1], S[sn]], {}, None, 0)
    else:
        loc = it.apply(ClassTok("CompoundInterval"), [[b[0] for b in exons], [b[1] for b in exons], S[sn]], {}, None, 0)
    k, v = run(it, f, [loc, F[names[start]]], {}, None)
    desc = f"construct_frames_from_location({list(exons)}:{sn}, start={start})"
    if k != "ok":
        return 1, [("construct_frames", f"{desc} raises {v}", f.qual)]
    got = [x.value for x in v]
    # one uninterrupted frame: frame of an exon = (coding bases before it, after the start offset) mod 3
    order = list(range(len(exons)))
    if sn == "MINUS":
        order.reverse()
    want = {}
    before = -start
    for j, i in enumerate(order):
        want[i] = start if j == 0 else before % 3
        before += exons[i][1] - exons[i][0]
    wl = [want[i] for i in range(len(exons))]
    if got != wl:
        out.append(("construct_frames", f"{desc} = {got}; one uninterrupted reading frame has frames {wl}", f.qual))
    else:
        # and under those frames the walker never re-synchronises: codons = skip offset, then consecutive triples
        pos = [p for i in order for p in enum_positions([exons[i]], sn)][start:]
        simple = [pos[3 * i:3 * i + 3] for i in range(len(pos) // 3)]
        if walker(list(exons), sn, wl) != simple and sum(e - s for s, e in exons) - start >= 3:
            out.append(("construct_frames", f"{desc}: frames {wl} make the reading-frame model re-synchronise", f.qual))
    return 1, out


_W = {}


def _runner(repo, fn):
    def work(spec):
        if _W.get("repo") is not repo:
            _W["it"] = gene_interp(repo, max_steps=10 ** 12)
            _W["repo"] = repo
        it = _W["it"]
        try:
            return fn(repo, it, strands(it), spec)
        except Uninterpretable as ex:
            if "hash order" in str(ex) and "HASH.update" in str(ex):
                # a digest (identifier) is fed the str() of a set / of a list in set-iteration order: its value differs
                # between interpreter runs.  This is a decided answer, not an analysis gap.
                return 1, [("identifier depends on hash order", f"a digest takes the text of an unordered collection: {ex}",
                            "util.hashing:digest_object")]
            return 0, [("uninterpretable", str(ex), f"{CDS}.extract_sequence")]
    return work


def _where(repo, q):
    return repo.where(q)


def _report(ctx, rule, results, oks):
    r, repo = ctx.r, ctx.repo
    n = sum(x[0] for x in results)
    r.count(n)
    first = {}
    for _, outs in results:
        for key, msg, q in outs:
            first.setdefault((q, key), msg)
    if any(k[1] == "uninterpretable" for k in first):
        raise AnalysisError(f"{rule}: " + [m for k, m in first.items() if k[1] == "uninterpretable"][0])
    for (q, key), msg in sorted(first.items()):
        r.violation(rule, q, key, msg, _where(repo, q))
    done = {q for (q, _k) in first}
    for q, what in oks:
        if q not in done:
            r.ok(rule, q, what, _where(repo, q), f"{n} interpreted evaluations")


def _designed_case(repo, it, S, spec):
    """translation is per codon position: the start rule applies to codon 0 only, every later codon - also a copy of the
    first one, also another initiator of the table - reads through the standard code"""
    table, first, other, sn = spec
    coding = first + "GCT" + first + "AAA" + other + first + "TAA"
    flank5, flank3 = "CC", "G"
    plus = flank5 + coding + flank3
    genome = plus if sn == "PLUS" else rc(plus)
    a = len(flank5) if sn == "PLUS" else len(flank3)
    exons = [(a, a + len(coding))]
    par = chrom_parent(it, genome, alphabet="NT_EXTENDED")
    out = []
    n = 0
    q = repo.fn(f"{CDS}.translate")
    tt = it.enum("TranslationTable")[table] if table is not None else None
    # single exon, and the same CDS split inside the second copy of the first codon
    for lay, frames in ((exons, [0]), ([(a, a + 7), (a + 7, a + len(coding))], None)):
        if frames is None:
            if sn == "PLUS":
                frames = [0, 7 % 3]
            else:
                frames = [(len(coding) - 7) % 3, 0]
        for trunc in (False, True):
            n += 1
            try:
                cds = mk_cds(it, lay, S[sn], frames, par)
                kw = {"truncate_at_in_frame_stop": trunc}
                if tt is not None:
                    kw["translation_table"] = tt
                k, v = run(it, q, [], kw, cds)
            except Raised as ex:
                k, v = "raise", ex.exc_name
            wp = translate_ref(coding, table or "DEFAULT")
            got = v.fields.get("sequence") if k == "ok" and isinstance(v, Obj) else v
            if k != "ok" or got != wp:
                out.append((f"translate {table or 'no table argument'} start rule", f"coding sequence {coding} ({sn} strand, exons {lay}) translate(table={table}, "
                            f"truncate_at_in_frame_stop={trunc}) -> {k}:{got}; start rule on codon 0 only gives {wp!r}", q.qual))
    return n, out


def _ambiguous_case(repo, it, S, spec):
    """a codon with an ambiguity letter that no single amino acid covers: refused under strict translation wherever it stands (also
    as the first codon), written X otherwise"""
    table, pos, amb, sn = spec
    codons = ["ATG", "GCT", "AAA", "CCC", "TAA"]
    codons[pos] = amb
    coding = "".join(codons)
    plus = "CC" + coding + "G"
    genome = plus if sn == "PLUS" else rc(plus).replace("N", "N")
    a = 2 if sn == "PLUS" else 1
    par = chrom_parent(it, genome, alphabet="NT_EXTENDED")
    q = repo.fn(f"{CDS}.translate")
    tt = it.enum("TranslationTable")[table]
    out, n = [], 0
    for lay, frames in (([(a, a + 15)], [0]), ([(a, a + 4), (a + 4, a + 15)], [0, 4 % 3] if sn == "PLUS" else [(15 - 4) % 3, 0])):
        for strict in (True, False, None):
            n += 1
            kw = {"translation_table": tt}
            if strict is not None:
                kw["strict"] = strict
            try:
                k, v = run(it, q, [], kw, mk_cds(it, lay, S[sn], frames, par))
            except Raised as ex:
                k, v = "raise", ex.exc_name
            got = v.fields.get("sequence") if k == "ok" and isinstance(v, Obj) else v
            if strict in (True, None):
                if not (k == "raise" and v == "ValueError"):
                    out.append((f"strict translation refuses an ambiguous codon [{'first codon' if pos == 0 else 'later codon'}]",
                                f"coding sequence {coding} ({sn}, exons {lay}, table {table}): translate({'strict=True' if strict else 'strict left out'}) -> {k}:{got}; "
                                f"codon {pos} ({amb}) is not a strict codon: documented ValueError", q.qual))
            else:
                ref = list(translate_ref("".join(c if i != pos else "AAA" for i, c in enumerate(codons)), table))
                ref[pos] = "X"
                want = "".join(ref)
                if k != "ok" or got != want:
                    out.append((f"non-strict translation writes X [{'first codon' if pos == 0 else 'later codon'}]",
                                f"coding sequence {coding} ({sn}, exons {lay}, table {table}): translate(strict=False) -> {k}:{got}; expected {want!r}", q.qual))
    return n, out


def rt_designed_translation(ctx, rule="C05.RT"):
    amb_specs = [(t, pos, amb, sn) for t in ("DEFAULT", "PROKARYOTE") for pos in (0, 1, 3) for amb in ("NTG", "NNN", "ANG") for sn in ("PLUS", "MINUS")
                 if not (pos and amb == "NTG" and sn == "MINUS")]
    amb_results = pmap(_runner(ctx.repo, _ambiguous_case), amb_specs, min_items=4)
    specs = []
    every = sorted(set().union(*NCBI_STARTS.values()))
    for table, starts in sorted(NCBI_STARTS.items()):
        ss = sorted(starts)
        # first codon: every initiator of ANY table (it reads as M only under a table that lists it)
        for i, first in enumerate(every):
            other = ss[(i + 1) % len(ss)]
            for sn in ("PLUS", "MINUS"):
                specs.append((table, first, other, sn))
        # a first codon that is not an initiator is read through the standard code, initiators later on as well
        specs.append((table, "AAG", ss[0], "PLUS"))
    # no table argument = the ATG-only default
    for first in every:
        specs.append((None, first, "ATG", "PLUS"))
    ctx.r.floor(rule, "designed coding sequences", len(specs), 40)
    results = pmap(_runner(ctx.repo, _designed_case), specs, min_items=4) + amb_results
    _report(ctx, rule, results, [(f"{CDS}.translate", "start rule on codon 0 only, for every initiator under every table (and with the table "
                                  "argument omitted), both strands, one- and two-exon layouts")])


def rc_chunk_frames(ctx):
    """frames generated for the chunk-relative view (construct_frames_from_location on the first on-chunk exon) describe
    the same uninterrupted reading frame; evaluated by C07's chunk-twin kernel on plus- and minus-strand chunks, only
    the frame answers are reported here"""
    from . import c07
    specs = []
    for lay in c07.LAYOUTS[:4]:
        for sn in ("PLUS", "MINUS"):
            for start in (0, 1, 2):
                for j, (cs, ce) in enumerate(c07._windows(lay, False)):
                    if ctx.thorough or (j + start) % 2 == 0:
                        specs.append((lay, sn, start, cs, ce, "MINUS" if (j // 2) % 2 else "PLUS", False, "frames"))
    ctx.r.floor("C05.RC", "chunk frame cases", len(specs), 150)
    results = pmap(_runner(ctx.repo, c07._cds_case), specs)
    results = [(n, [o for o in outs if o[0].startswith("chunk frames") or o[0] == "uninterpretable"]) for n, outs in results]
    _report(ctx, "C05.RC", results, [(f"{CDS}.chunk_relative_frames", "frames of the chunk-relative blocks continue the reading frame of the "
                                      "whole CDS (plus- and minus-strand chunks)")])


def cds_layouts(thorough):
    for ne in ([1, 2, 3] if thorough else [1, 2]):
        for lay in _exon_layouts(ne):
            lay = tuple((s + 1, e + 1) for s, e in lay)
            if lay[-1][1] > len(GENOME):
                continue
            yield lay
    # a longer two-exon and a three-exon layout with a 0-bp gap, always included
    yield ((2, 12), (15, 26))
    yield ((3, 10), (10, 17), (21, 30))
    # exons shorter than a codon (1 and 2 bases), first, inner and last
    yield ((4, 5), (8, 17))
    yield ((4, 12), (15, 16))
    yield ((4, 10), (13, 14), (17, 25))
    if thorough:
        yield ((4, 9), (12, 14), (17, 24))


def rk_interpreted(ctx):
    specs = []
    for lay in cds_layouts(ctx.thorough):
        for sn in ("PLUS", "MINUS"):
            for frames in itertools.product((0, 1, 2), repeat=len(lay)):
                specs.append((lay, sn, frames))
    ctx.r.floor("C05.RK", "CDS cases (layout x strand x frame vector)", len(specs), 150)
    results = pmap(_runner(ctx.repo, _case), specs)
    _report(ctx, "C05.RK", results, [(f"{CDS}.{m}", "reading-frame model on all enumerated CDSs") for m in (
        "extract_sequence", "chromosome_codon_locations", "chunk_relative_codon_locations", "num_codons", "translate",
        "has_valid_stop", "scan_chromosome_codon_locations")])


def rf_frames(ctx):
    specs = []
    for lay in cds_layouts(True):
        for sn in ("PLUS", "MINUS"):
            for start in (0, 1, 2):
                specs.append((lay, sn, start))
    ctx.r.floor("C05.RF", "frame construction cases", len(specs), 60)
    results = pmap(_runner(ctx.repo, _frames_case), specs)
    _report(ctx, "C05.RF", results, [(f"{CDS}.construct_frames_from_location", "one uninterrupted reading frame")])


def r1_shift(ctx):
    from .c15 import r5_frames
    r5_frames(ctx)


RULES = [
    ("C05.RK", rk_interpreted),
    ("C05.RF", rf_frames),
    ("C05.RT", rt_designed_translation),
    ("C05.RC", rc_chunk_frames),
    ("C05.R1", r1_shift),
]
