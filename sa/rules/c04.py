"""C04 - lift-over through nested coordinate systems.

RK  the analyser builds hierarchies of depth 1..3 (chromosome <- level-1 <- level-2), each level placed on its
    parent by a single- or multi-block location on either strand, interprets lift_over_to_first_ancestor_of_type /
    lift_over_to_sequence / Parent.lift_child_location_to_parent for every small child location, and compares
    with the base-by-base composition of the per-level maps and with sequence preservation.
RC  chunk API: liftover_location_to_seq_chunk_parent for every chunk window: lifted back = part inside the chunk,
    EmptyLocation outside; refusals (no such ancestor / non-contiguous / chunk without chromosome).
R1  refusals (interpreted): a Parent without child location / without parent / whose parent has no location is refused
    with a documented exception before anything is lifted; a missing ancestor type raises NoSuchAncestorException."""
import ast

from ..astutil import bind_args, call_tail, calls_in, dotted, src, walk_shallow
from ..genekernel import chrom_parent, chunk_parent, gene_interp, mk_parent, mk_sequence
from ..interp import ClassTok, Obj, Raised, Uninterpretable
from ..lockernel import blocks_of, is_empty_obj, run, strand_of, strands
from ..model import AnalysisError
from ..par import pmap
from .c01 import _layouts, _rel_compose, enum_positions
from .c03 import ALPHA, GENOME, _mk_loc, _seq_str, comp, image, ut

EXPLANATION = (
    "RK/RC: hierarchies of depth 1-3 are built inside the analyser's interpreter (levels placed by single/multi-block "
    "locations on either strand) and every small child location is lifted by type and by sequence; the lifted "
    "location must enumerate exactly the composed base-by-base image, carry the composed strand, sit on the stripped "
    "ancestor, and extract the same sequence; chunk windows: lifted-back = part inside the chunk, outside = "
    "EmptyLocation, missing ancestors refused. R1: refusal of incomplete hierarchies (interpreted). Not decided: deeper hierarchies and larger layouts than enumerated."
)


def compose(child_blocks, child_strand, level_blocks, level_strand):
    """positions on the outer system (5'->3' of the child) of a child located on a level whose own placement on the
    outer system is (level_blocks, level_strand)"""
    outer = enum_positions(level_blocks, level_strand)
    return [outer[p] for p in enum_positions(child_blocks, child_strand)]


def _level_seq(it, S, parent_with_seq, layout, sn, seq_type, sid):
    """Sequence holding the image of `layout` on the parent's sequence, parented by that location"""
    loc = _mk_loc(it, S, layout, sn, parent_with_seq)
    k, sq = None, None
    return loc


LEVEL1 = [([(4, 20)], "PLUS"), ([(4, 20)], "MINUS"), ([(3, 8), (12, 20)], "PLUS"), ([(3, 8), (12, 20)], "MINUS")]
LEVEL2 = [([(2, 10)], "PLUS"), ([(2, 10)], "MINUS"), ([(1, 4), (6, 10)], "MINUS"), ([(1, 4), (6, 10)], "PLUS")]


def _hier_case(repo, it, S, spec):
    rc_level = False
    if len(spec) == 5:
        spec, rc_level = spec[:4], True
    lv1, lv2, child_layout, child_strand = spec
    out = []
    n = 0
    st = it.enum("SequenceType")
    LOCQ = "location.location:Location"
    f_type = repo.fn(f"{LOCQ}.lift_over_to_first_ancestor_of_type")
    f_seq = repo.fn(f"{LOCQ}.lift_over_to_sequence")
    chrom = chrom_parent(it, GENOME, alphabet=ALPHA)
    chrom_seq = chrom.fields["sequence"]
    # level 1
    l1_id = "lvl1"
    if len(lv1) == 3:
        # a level that carries the chromosome's own name and length (a full-length view on the other strand)
        lv1, l1_id = lv1[:2], lv1[2]
    l1_blocks, l1_strand = lv1
    loc1 = _mk_loc(it, S, l1_blocks, l1_strand, chrom)
    img1 = image(l1_blocks, l1_strand)
    seq1 = mk_sequence(it, img1, ALPHA, id=l1_id, type=st["SEQUENCE_CHUNK"],
                       parent=mk_parent(it, location=loc1, sequence=chrom_seq))
    if rc_level:
        # the level is the reverse complement of the sequence placed by loc1: same blocks, opposite strand
        k_, seq1 = run(it, repo.fn("sequence.sequence:Sequence.reverse_complement"), [], {"new_id": "lvl1", "new_type": st["SEQUENCE_CHUNK"]}, seq1)
        if k_ != "ok":
            return 1, [("reverse-complemented level", f"levels {lv1}: reverse_complement raises {seq1}", "sequence.sequence:Sequence.reverse_complement")]
        l1_strand = "MINUS" if l1_strand == "PLUS" else "PLUS"
        img1 = seq1.fields["sequence"]
    par1 = mk_parent(it, id=l1_id, sequence=seq1)
    outer_blocks, outer_strand = l1_blocks, l1_strand
    level_parent = par1
    level_img = img1
    chain = [(l1_blocks, l1_strand)]
    if lv2 is not None:
        l2_blocks, l2_strand = lv2
        loc2 = _mk_loc(it, S, l2_blocks, l2_strand, par1)
        pos2 = enum_positions(l2_blocks, l2_strand)
        img2 = "".join((comp(img1[p]) if l2_strand == "MINUS" else img1[p]) for p in pos2)
        seq2 = mk_sequence(it, img2, ALPHA, id="lvl2", type="level2", parent=mk_parent(it, location=loc2, sequence=seq1))
        level_parent = mk_parent(it, id="lvl2", sequence=seq2)
        level_img = img2
        chain.append((l2_blocks, l2_strand))
    if max(e for _, e in child_layout) > len(level_img):
        return 0, []
    try:
        child = _mk_loc(it, S, list(child_layout), child_strand, level_parent)
    except Raised as ex:
        return 1, [("construct", f"child {child_layout} on {chain}: {ex.exc_name}", f_type.qual)]
    cblocks = blocks_of(child)
    if not enum_positions(cblocks, child_strand):
        return 0, []
    desc = f"child {cblocks}:{child_strand} on levels {chain}"
    # expected chromosome positions in the child's 5'->3' order + composed strand
    pos = enum_positions(cblocks, child_strand)
    strand = child_strand
    stages_contiguous = True
    for blocks, sn in reversed(chain):
        outer = enum_positions(blocks, sn)
        pos = [outer[p] for p in pos]
        strand = _rel_compose(strand, sn)
        sp = sorted(pos)
        if sp != list(range(sp[0], sp[0] + len(sp))):
            stages_contiguous = False
    n += 1
    k, v = run(it, f_type, [st["CHROMOSOME"]], {}, child)
    dup = len(set(pos)) != len(pos)
    if k != "ok":
        out.append(("lift by type", f"{desc}: lift_over_to_first_ancestor_of_type(chromosome) raises {v}", f_type.qual))
    else:
        got = [] if is_empty_obj(v) else enum_positions(blocks_of(v), strand_of(v).name)
        gs = None if is_empty_obj(v) else strand_of(v).name
        okpos = sorted(got) == sorted(pos) if dup else got == pos
        if not okpos or gs != strand:
            out.append(("lift by type", f"{desc}: lifted to {blocks_of(v)}:{gs} = bases {got}; composing the level maps gives {pos} on {strand}", f_type.qual))
        else:
            par = v.fields.get("parent")
            if rc_level:
                pass  # a level obtained by reverse_complement() records only its location: no sequence ancestor to compare with
            elif not (isinstance(par, Obj) and par.fields.get("id") == "chr1" and par.fields.get("sequence") is not None):
                out.append(("lift parent", f"{desc}: lifted location is not parented by the chromosome (with its sequence)", f_type.qual))
            elif not dup:
                n += 1
                k2, sv = run(it, repo.fn(f"location.location_impl:{v.cls_name}.extract_sequence"), [], {}, v)
                k3, cv = run(it, repo.fn(f"location.location_impl:{child.cls_name}.extract_sequence"), [], {}, child)
                if k2 == "ok" and k3 == "ok" and ut(_seq_str(sv)) != ut(_seq_str(cv)):
                    out.append(("sequence preserved", f"{desc}: lifted location extracts {_seq_str(sv)!r}, the original extracts {_seq_str(cv)!r}", f_type.qual))
                elif k2 != k3:
                    out.append(("sequence preserved", f"{desc}: extract_sequence lifted -> {k2}, original -> {k3}", f_type.qual))
    if rc_level:
        return n, out
    # by sequence identity (contiguous children only)
    contiguous = all(cblocks[i][1] == cblocks[i + 1][0] for i in range(len(cblocks) - 1))
    n += 1
    k, v = run(it, f_seq, [chrom_seq], {}, child)
    if not contiguous:
        if k != "raise" or v != "ValueError":
            out.append(("lift by sequence", f"{desc}: non-contiguous location lifted by sequence -> {k}:{v}; documented ValueError", f_seq.qual))
    elif not stages_contiguous and k == "raise" and v == "ValueError":
        pass  # the image is not contiguous on some level: documented refusal
    elif k != "ok":
        out.append(("lift by sequence", f"{desc}: lift_over_to_sequence(chromosome sequence) raises {v}", f_seq.qual))
    else:
        got = [] if is_empty_obj(v) else enum_positions(blocks_of(v), strand_of(v).name)
        okpos = sorted(got) == sorted(pos) if dup else got == pos
        if not okpos or strand_of(v).name != strand:
            out.append(("lift by sequence", f"{desc}: lifted to bases {got} on {strand_of(v).name}; expected {pos} on {strand}", f_seq.qual))
    # refusals
    n += 2
    k, v = run(it, f_type, ["no_such_type"], {}, child)
    if not (k == "raise" and v == "NoSuchAncestorException"):
        out.append(("refusal", f"{desc}: lifting to a missing ancestor type -> {k}:{v}; documented NoSuchAncestorException", f_type.qual))
    if contiguous:
        other = mk_sequence(it, "ACGT", ALPHA, id="elsewhere")
        k, v = run(it, f_seq, [other], {}, child)
        if not (k == "raise" and v == "NoSuchAncestorException"):
            out.append(("refusal", f"{desc}: lifting to a sequence that is no ancestor -> {k}:{v}; documented NoSuchAncestorException", f_seq.qual))
    return n, out


def _explicit_case(repo, it, S, spec):
    """the same hierarchies given as an explicit Parent chain (Parent(..., parent=Parent(location=..., parent=...))), while the
    Sequence objects of the levels carry no parent ('plain'), a parent that only names the next level ('named'), or one that
    knows the placement on the next level but nothing above it ('shallow').  The explicit chain is authoritative."""
    lv1, lv2, child_layout, child_strand, style = spec
    out = []
    n = 0
    st = it.enum("SequenceType")
    LOCQ = "location.location:Location"
    f_type = repo.fn(f"{LOCQ}.lift_over_to_first_ancestor_of_type")
    chrom = chrom_parent(it, GENOME, alphabet=ALPHA)
    chrom_seq = chrom.fields["sequence"]
    # 'handle': the placement of a level on the next one itself carries a parent handle that only names the next level (id and
    # type; the shape io.parser.seq_chunk_to_parent gives a chunk's location) - the full ancestor (sequence, further ancestors)
    # comes from the explicit chain
    handles = {"chr1": lambda: mk_parent(it, id="chr1", sequence_type=st["CHROMOSOME"]),
               "lvl1": lambda: mk_parent(it, id="lvl1", sequence_type=st["SEQUENCE_CHUNK"])}
    bare = lambda blocks, sn, on=None: _mk_loc(it, S, blocks, sn, handles[on]() if style == "handle" and on else None)  # noqa: E731
    l1_blocks, l1_strand = lv1
    img1 = image(l1_blocks, l1_strand)

    def seq_parent(up_id, up_type, up_seq, blocks, sn):
        if style in ("plain", "handle"):
            return None
        if style == "named":
            return mk_parent(it, id=up_id, sequence_type=up_type, sequence=up_seq)
        return mk_parent(it, id=up_id, sequence_type=up_type, sequence=up_seq, location=bare(blocks, sn))

    seq1 = mk_sequence(it, img1, ALPHA, id="lvl1", type=st["SEQUENCE_CHUNK"],
                       parent=seq_parent("chr1", st["CHROMOSOME"], chrom_seq, l1_blocks, l1_strand))
    chain = [(l1_blocks, l1_strand)]
    top = mk_parent(it, id="chr1", sequence_type=st["CHROMOSOME"], sequence=chrom_seq, location=bare(l1_blocks, l1_strand, "chr1"))
    if lv2 is None:
        level_parent = mk_parent(it, id="lvl1", sequence_type=st["SEQUENCE_CHUNK"], sequence=seq1, parent=top)
        level_img = img1
    else:
        l2_blocks, l2_strand = lv2
        pos2 = enum_positions(l2_blocks, l2_strand)
        img2 = "".join((comp(img1[p]) if l2_strand == "MINUS" else img1[p]) for p in pos2)
        # the level-2 sequence carries no parent of its own (even level), as in the mixed hierarchies this models
        seq2 = mk_sequence(it, img2, ALPHA, id="lvl2", type="level2")
        mid = mk_parent(it, id="lvl1", sequence_type=st["SEQUENCE_CHUNK"], sequence=seq1, location=bare(l2_blocks, l2_strand, "lvl1"), parent=top)
        level_parent = mk_parent(it, id="lvl2", sequence_type="level2", sequence=seq2, parent=mid)
        level_img = img2
        chain.append((l2_blocks, l2_strand))
    if max(e for _, e in child_layout) > len(level_img):
        return 0, []
    try:
        child = _mk_loc(it, S, list(child_layout), child_strand, level_parent)
    except Raised as ex:
        return 1, [("construct (explicit chain)", f"child {child_layout} on explicit chain {chain} ({style}): {ex.exc_name}", f_type.qual)]
    cblocks = blocks_of(child)
    pos = enum_positions(cblocks, child_strand)
    if not pos:
        return 0, []
    strand = child_strand
    for blocks, sn in reversed(chain):
        outer = enum_positions(blocks, sn)
        pos = [outer[p] for p in pos]
        strand = _rel_compose(strand, sn)
    desc = f"child {cblocks}:{child_strand} on an explicit Parent chain {chain} (sequence parents: {style})"
    n += 1
    k, v = run(it, f_type, [st["CHROMOSOME"]], {}, child)
    if k != "ok":
        out.append(("lift by type (explicit chain)", f"{desc}: lift_over_to_first_ancestor_of_type(chromosome) raises {v}", f_type.qual))
    else:
        got = [] if is_empty_obj(v) else enum_positions(blocks_of(v), strand_of(v).name)
        gs = None if is_empty_obj(v) else strand_of(v).name
        dup = len(set(pos)) != len(pos)
        if (sorted(got) != sorted(pos) if dup else got != pos) or gs != strand:
            out.append(("lift by type (explicit chain)", f"{desc}: lifted to {blocks_of(v)}:{gs} = bases {got}; composing the level maps gives {pos} on {strand}", f_type.qual))
        elif not is_empty_obj(v) and strand != "UNSTRANDED":
            # the lifted location sits on the full ancestor: it extracts, from the chromosome, what the child extracts from its level
            n += 1
            f_ext = repo.fn(f"location.location_impl:{v.cls_name}.extract_sequence")
            k2, sq = run(it, f_ext, [], {}, v)
            want = "".join(comp(GENOME[p]) if strand == "MINUS" else GENOME[p] for p in got)
            if k2 != "ok" or ut(_seq_str(sq)) != ut(want):
                out.append(("lifted location keeps the ancestor's sequence (explicit chain)",
                            f"{desc}: the lifted location {blocks_of(v)}:{gs} extracts {k2}:{_seq_str(sq) if k2 == 'ok' else sq!r}; the chromosome bases at the "
                            f"composed positions are {want!r}", f_type.qual))
    if lv2 is not None:
        n += 1
        k, v = run(it, f_type, [st["SEQUENCE_CHUNK"]], {}, child)
        outer = enum_positions(*lv2)
        want1 = [outer[p] for p in enum_positions(cblocks, child_strand)]
        if k != "ok" or ([] if is_empty_obj(v) else enum_positions(blocks_of(v), strand_of(v).name)) != want1:
            got = None if k != "ok" else enum_positions(blocks_of(v), strand_of(v).name)
            if not (k == "ok" and sorted(got) == sorted(want1) and len(set(want1)) != len(want1)):
                out.append(("lift one level (explicit chain)", f"{desc}: lifted to the first level -> {k}:{got if k == 'ok' else v}; expected {want1}", f_type.qual))
    return n, out


def _chunk_case(repo, it, S, spec):
    layout, sn, cs, ce = spec
    out = []
    n = 0
    fq = "gene.interval:AbstractInterval.liftover_location_to_seq_chunk_parent"
    f = repo.fn(fq)
    st = it.enum("SequenceType")
    cp = chunk_parent(it, GENOME, cs, ce, alphabet=ALPHA)
    loc = _mk_loc(it, S, list(layout), sn, None)
    blocks = blocks_of(loc)
    desc = f"{blocks}:{sn} on chunk [{cs},{ce})"
    inside = [p for p in enum_positions(blocks, sn) if cs <= p < ce]
    # the same round trip through an interval object built on the chunk: chromosome blocks -> chunk -> chromosome gives the part
    # inside the chunk (nothing when the chunk misses the interval), whichever way the sequence type is named
    srt = sorted(blocks)
    if all(e_ > s_ for s_, e_ in blocks) and all(srt[i][1] <= srt[i + 1][0] for i in range(len(srt) - 1)):
        from ..genekernel import mk_feature
        fw = repo.fn("gene.interval:AbstractInterval.lift_over_to_first_ancestor_of_type")
        try:
            feat = mk_feature(it, srt, S[sn], parent_or_seq_chunk_parent=cp)
        except Raised:
            feat = None
        if feat is not None:
            for how, args in (("default", []), ("enum", [st["CHROMOSOME"]]), ("name", ["chromosome"])):
                n += 1
                kw_, back = run(it, fw, list(args), {}, feat)
                got = None
                if kw_ == "ok":
                    got = [] if is_empty_obj(back) else enum_positions(blocks_of(back), strand_of(back).name)
                if got != inside:
                    out.append(("interval on a chunk lifted back", f"feature {srt}:{sn} built on chunk [{cs},{ce}): lift_over_to_first_ancestor_of_type("
                                f"{how}) -> {kw_}:{got if kw_ == 'ok' else back}; the part of the interval inside the chunk is {inside}", fw.qual))
                    break
    n += 1
    k, v = run(it, f, [loc, cp], {}, None)
    if k != "ok":
        out.append(("chunk lift", f"{desc}: raises {v}", fq))
        return n, out
    if not inside:
        if not is_empty_obj(v):
            out.append(("outside chunk", f"{desc}: no base in the chunk, got {blocks_of(v)} instead of EmptyLocation", fq))
        return n, out
    if is_empty_obj(v):
        out.append(("chunk lift", f"{desc}: EmptyLocation although bases {inside} are inside the chunk", fq))
        return n, out
    rel = enum_positions(blocks_of(v), strand_of(v).name)
    dup = len(set(inside)) != len(inside)
    same = sorted(p + cs for p in rel) == sorted(inside) if dup else [p + cs for p in rel] == inside
    if not same or strand_of(v).name != sn:
        out.append(("chunk lift", f"{desc}: chunk-relative {blocks_of(v)}:{strand_of(v).name} = chromosome bases {[p + cs for p in rel]}; expected {inside}", fq))
        return n, out
    # block structure is retained (adjacent / overlapping blocks are how CDS frameshifts are modelled)
    want_blocks = sorted((max(s_, cs) - cs, min(e_, ce) - cs) for s_, e_ in blocks if max(s_, cs) < min(e_, ce))
    if sorted(blocks_of(v)) != want_blocks:
        out.append(("chunk blocks", f"{desc}: chunk-relative blocks {blocks_of(v)}; each source block cut to the chunk gives {want_blocks}", fq))
    n += 1
    k2, back = run(it, repo.fn("location.location:Location.lift_over_to_first_ancestor_of_type"), [st["CHROMOSOME"]], {}, v)
    if k2 != "ok" or (sorted(enum_positions(blocks_of(back), strand_of(back).name)) != sorted(inside) if dup else
                      enum_positions(blocks_of(back), strand_of(back).name) != inside):
        out.append(("chunk round trip", f"{desc}: lifted back -> {k2}:{blocks_of(back) if k2 == 'ok' else back}; the part inside the chunk is {inside}", fq))
    if len(set(inside)) == len(inside):
        n += 1
        k3, sv = run(it, repo.fn(f"location.location_impl:{v.cls_name}.extract_sequence"), [], {}, v)
        want = "".join((comp(GENOME[p]) if sn == "MINUS" else GENOME[p]) for p in inside)
        if k3 == "ok" and _seq_str(sv) != want:
            out.append(("chunk sequence", f"{desc}: chunk-relative location extracts {_seq_str(sv)!r}; chromosome stretch is {want!r}", fq))
        # a location that already is chunk-relative is carried over to another chunk of the same chromosome through the
        # chromosome: the same window on the opposite strand, and a shifted window
        for what, (cs2, ce2, cstr) in (("same window, opposite strand", (cs, ce, "MINUS")),
                                       ("shifted window", (max(0, cs - 2), min(len(GENOME), ce + 1), "PLUS")),
                                       ("same chunk", (cs, ce, "PLUS")),
                                       ("whole chromosome", (0, len(GENOME), "CHROM"))):
            # (the last target is the chromosome itself, as io.parser.seq_to_parent builds it: back to chromosome coordinates)
            cp2 = chrom_parent(it, GENOME, alphabet=ALPHA) if cstr == "CHROM" else chunk_parent(it, GENOME, cs2, ce2, alphabet=ALPHA, strand=cstr)
            n += 1
            k4, v4 = run(it, f, [v, cp2], {}, None)
            inside2 = [p for p in inside if cs2 <= p < ce2]
            if k4 != "ok":
                out.append((f"chunk to chunk ({what})", f"{desc}: re-lifting the chunk-relative location onto chunk [{cs2},{ce2}){cstr} raises {v4}", fq))
                continue
            if is_empty_obj(v4):
                if inside2:
                    out.append((f"chunk to chunk ({what})", f"{desc}: re-lifted onto chunk [{cs2},{ce2}){cstr}: EmptyLocation; bases {inside2} are inside", fq))
                continue
            k5, back2 = run(it, repo.fn("location.location:Location.lift_over_to_first_ancestor_of_type"), [st["CHROMOSOME"]], {}, v4)
            got2 = enum_positions(blocks_of(back2), strand_of(back2).name) if k5 == "ok" else None
            if got2 != inside2 or (k5 == "ok" and strand_of(back2).name != sn):
                out.append((f"chunk to chunk ({what})", f"{desc}: re-lifted onto chunk [{cs2},{ce2}){cstr} and back to the chromosome -> {k5}:{got2}"
                            f"{':' + strand_of(back2).name if k5 == 'ok' else ''}; the part inside that chunk is {inside2}:{sn}", fq))
                continue
            k6, sv2 = run(it, repo.fn(f"location.location_impl:{v4.cls_name}.extract_sequence"), [], {}, v4)
            want2 = "".join((comp(GENOME[p]) if sn == "MINUS" else GENOME[p]) for p in inside2)
            if k6 == "ok" and ut(_seq_str(sv2)) != ut(want2):
                out.append((f"chunk to chunk ({what}) sequence", f"{desc}: on chunk [{cs2},{ce2}){cstr} the location extracts {_seq_str(sv2)!r}; "
                            f"chromosome stretch is {want2!r}", fq))
    return n, out


_W = {}


def _runner(repo, fn):
    def work(spec):
        if _W.get("repo") is not repo:
            _W["it"] = gene_interp(repo, max_steps=10 ** 12)
            _W["repo"] = repo
        it = _W["it"]
        try:
            return fn(repo, it, strands(it), spec)
        except Uninterpretable as ex:
            return 0, [("uninterpretable", str(ex), "location.location:Location.lift_over_to_first_ancestor_of_type")]
    return work


def _report(ctx, rule, results, oks):
    r, repo = ctx.r, ctx.repo
    n = sum(x[0] for x in results)
    r.count(n)
    first = {}
    for _, outs in results:
        for key, msg, q in outs:
            first.setdefault((q, key), msg)
    if any(k[1] == "uninterpretable" for k in first):
        raise AnalysisError(f"{rule}: " + [m for k, m in first.items() if k[1] == "uninterpretable"][0])
    for (q, key), msg in sorted(first.items()):
        r.violation(rule, q, key, msg, repo.where(q))
    if not first:
        for q, what in oks:
            r.ok(rule, q, what, repo.where(q), f"{n} interpreted evaluations")


def rk_hierarchies(ctx):
    children = []
    for nb in (1, 2):
        for lay in _layouts(nb, "tri"):
            lay = tuple((s - 2, e - 2) for s, e in lay)  # start at 0
            for sn in ("PLUS", "MINUS"):
                children.append((lay, sn))
    specs = []
    for lv1 in LEVEL1:
        for lv2 in [None] + (LEVEL2 if ctx.thorough else LEVEL2[:3]):
            for lay, sn in children:
                specs.append((lv1, lv2, lay, sn))
    for lv1 in LEVEL1:
        for lay, sn in children[::2]:
            specs.append((lv1, None, lay, sn, "rc"))
    # levels that look like their ancestor from the outside: the whole chromosome seen from the other strand (and from the same
    # strand) under the chromosome's own name, and under no name
    for lv1 in (([(0, len(GENOME))], "MINUS", "chr1"), ([(0, len(GENOME))], "PLUS", "chr1"), ([(0, len(GENOME))], "MINUS", None)):
        for lv2 in (None, LEVEL2[0], LEVEL2[2]):
            for lay, sn in children[::3]:
                specs.append((lv1, lv2, lay, sn))
    ctx.r.floor("C04.RK", "hierarchy x child location cases", len(specs), 200)
    results = pmap(_runner(ctx.repo, _hier_case), specs)
    especs = []
    for i, lv1 in enumerate(LEVEL1):
        for j, lv2 in enumerate([None] + LEVEL2[:2]):
            for k_, (lay, sn) in enumerate(children):
                for style in ("plain", "named", "shallow", "handle"):
                    if ctx.thorough or style == "handle" or (i + j + k_ + len(style)) % 3 == 0:
                        especs.append((lv1, lv2, lay, sn, style))
    results += pmap(_runner(ctx.repo, _explicit_case), especs)
    _report(ctx, "C04.RK", results, [
        ("location.location:Location.lift_over_to_first_ancestor_of_type", "composition and sequence preservation, depth 1-3"),
        ("location.location:Location.lift_over_to_sequence", "lift by sequence identity / refusals"),
        ("parent.parent:Parent.lift_child_location_to_parent", "per-level lift (through the recursive lifts)")])


def rc_chunks(ctx):
    specs = []
    for nb in (1, 2):
        for lay in _layouts(nb, "tri"):
            for sn in ("PLUS", "MINUS"):
                lo, hi = lay[0][0], max(e for _, e in lay)
                for cs in range(max(0, lo - 2), hi + 1):
                    for ce in range(cs + 1, hi + 3):
                        if (cs + ce) % 2 == 0 or ctx.thorough:
                            specs.append((lay, sn, cs, ce))
    ctx.r.floor("C04.RC", "location x chunk window cases", len(specs), 200)
    results = pmap(_runner(ctx.repo, _chunk_case), specs)
    _report(ctx, "C04.RC", results, [
        ("gene.interval:AbstractInterval.liftover_location_to_seq_chunk_parent", "every chunk window: inside part / empty / round trip / sequence")])


def _refusal_case(repo, it, S, spec):
    """missing data is refused with a documented exception before anything is lifted (interpreted)"""
    which, = spec
    out = []
    f = repo.fn("parent.parent:Parent.lift_child_location_to_parent")
    fa = repo.fn("parent.parent:Parent.first_ancestor_of_type")
    st = it.enum("SequenceType")
    child = it.apply(ClassTok("SingleInterval"), [2, 6, S["PLUS"]], {}, None, 0)
    placed = it.apply(ClassTok("SingleInterval"), [10, 30, S["MINUS"]], {}, None, 0)
    internal = ("AttributeError", "TypeError", "IndexError", "KeyError", "RecursionError")
    if which == "no child location":
        p = mk_parent(it, id="lvl", parent=mk_parent(it, id="chr", location=placed))
        k, v = run(it, f, [], {}, p)
        if k != "raise" or v in internal:
            out.append((which, f"Parent without a child location: lift_child_location_to_parent -> {k}:{v}; documented refusal (ValueError family)", f.qual))
    elif which == "no parent":
        p = mk_parent(it, id="lvl", location=child)
        k, v = run(it, f, [], {}, p)
        if k != "raise" or v in internal:
            out.append((which, f"Parent without a parent: lift_child_location_to_parent -> {k}:{v}; documented refusal", f.qual))
    elif which == "parent without location":
        p = mk_parent(it, id="lvl", location=child, parent=mk_parent(it, id="chr"))
        k, v = run(it, f, [], {}, p)
        if k != "raise" or v in internal:
            out.append((which, f"Parent whose parent has no location: lift_child_location_to_parent -> {k}:{v}; documented refusal", f.qual))
    elif which == "complete":
        p = mk_parent(it, id="lvl", location=child, parent=mk_parent(it, id="chr", location=placed))
        k, v = run(it, f, [], {}, p)
        want = [placed.fields["end"] - 1 - x for x in range(2, 6)]
        got = enum_positions(blocks_of(v), strand_of(v).name) if k == "ok" else None
        if got != want:
            out.append((which, f"[2,6)+ on a level placed at [10,30)- lifts to {k}:{got}; base by base {want}", f.qual))
    elif which == "interval wrapper":
        # the interval-level entry point with every kind of target type: its own level, a level above the chromosome, a
        # type no ancestor has
        from ..genekernel import chunk_parent, mk_feature, mk_transcript
        fw = repo.fn("gene.interval:AbstractInterval.lift_over_to_first_ancestor_of_type")
        up = mk_parent(it, id="asm", sequence_type="assembly", location=it.apply(ClassTok("SingleInterval"), [100, 200, S["PLUS"]], {}, None, 0))
        chrom = mk_parent(it, id="chr1", sequence_type=st["CHROMOSOME"], parent=up)
        plain = chrom_parent(it, GENOME, alphabet=ALPHA)
        chunk = chunk_parent(it, GENOME, 2, 30, alphabet=ALPHA)
        for mk, label in ((lambda p_: mk_feature(it, [(3, 9), (12, 15)], S["PLUS"], parent_or_seq_chunk_parent=p_), "feature"),
                          (lambda p_: mk_transcript(it, [(3, 9), (12, 15)], S["MINUS"], parent_or_seq_chunk_parent=p_), "transcript")):
            sn = "PLUS" if label == "feature" else "MINUS"
            cases = [(chrom, "chromosome placed at asm:100-200", "assembly", [(103, 109), (112, 115)]),
                     (chrom, "chromosome placed at asm:100-200", st["CHROMOSOME"], [(3, 9), (12, 15)]),
                     (chrom, "chromosome placed at asm:100-200", st["SEQUENCE_CHUNK"], "NoSuchAncestorException"),
                     (plain, "plain chromosome", st["SEQUENCE_CHUNK"], "NoSuchAncestorException"),
                     (plain, "plain chromosome", "assembly", "NoSuchAncestorException"),
                     (plain, "plain chromosome", st["CHROMOSOME"], [(3, 9), (12, 15)]),
                     (chunk, "chunk chr1:2-30", st["CHROMOSOME"], [(3, 9), (12, 15)]),
                     (chunk, "chunk chr1:2-30", st["SEQUENCE_CHUNK"], [(1, 7), (10, 13)]),
                     (chunk, "chunk chr1:2-30", "assembly", "NoSuchAncestorException")]
            for par, pname, target, want in cases:
                obj = mk(par)
                k, v = run(it, fw, [target], {}, obj)
                tn = getattr(target, "name", target)
                if isinstance(want, str):
                    if not (k == "raise" and v == want):
                        out.append((which, f"{label} on {pname}: lift_over_to_first_ancestor_of_type({tn}) -> {k}:"
                                    f"{blocks_of(v) if k == 'ok' else v}; no such ancestor: documented {want}", fw.qual))
                elif k != "ok" or sorted(blocks_of(v)) != want or strand_of(v).name != sn:
                    out.append((which, f"{label} on {pname}: lift_over_to_first_ancestor_of_type({tn}) -> {k}:"
                                f"{(blocks_of(v), strand_of(v).name) if k == 'ok' else v}; composing the level maps gives {want} on {sn}", fw.qual))
        return len(cases) * 2, out
    else:
        # ancestor lookup without any such ancestor
        p = mk_parent(it, id="lvl", sequence_type=st["SEQUENCE_CHUNK"], parent=mk_parent(it, id="up", sequence_type=st["SEQUENCE_CHUNK"]))
        for inc in (True, False):
            k, v = run(it, fa, [st["CHROMOSOME"]], {"include_self": inc}, p)
            if not (k == "raise" and v == "NoSuchAncestorException"):
                out.append((which, f"first_ancestor_of_type(CHROMOSOME, include_self={inc}) on a hierarchy without chromosome -> {k}:{v}; "
                            f"documented NoSuchAncestorException", fa.qual))
        k, v = run(it, fa, [st["SEQUENCE_CHUNK"]], {"include_self": False}, p)
        if k != "ok" or v.fields.get("id") != "up":
            out.append((which, f"first_ancestor_of_type(SEQUENCE_CHUNK, include_self=False) -> {k}; expected the parent 'up'", fa.qual))
    return 1, out


def r1_refusals(ctx):
    specs = [(w,) for w in ("no child location", "no parent", "parent without location", "complete", "no such ancestor", "interval wrapper")]
    results = pmap(_runner(ctx.repo, _refusal_case), specs, min_items=99)
    _report(ctx, "C04.R1", results, [("parent.parent:Parent.lift_child_location_to_parent", "missing data refused before lifting"),
                                     ("parent.parent:Parent.first_ancestor_of_type", "missing ancestor -> NoSuchAncestorException")])


def r5_parent_identity(ctx):
    """hierarchies are built from cached Parent objects: the memoisation key must distinguish ancestors (shared with C10.R5)"""
    from .c10 import r5_cache_keys
    r5_cache_keys(ctx)


RULES = [
    ("C04.RK", rk_hierarchies),
    ("C04.R5", r5_parent_identity),
    ("C04.RC", rc_chunks),
    ("C04.R1", r1_refusals),
]

def r6i_identity(ctx):
    """locations on equal parents are comparable whether or not the two Parent objects are the same object (the constructor cache
    holds 1000 entries; an equal parent built later, or spelled with its keyword arguments in another order, is another object):
    no identity comparison between Parent / Location / Sequence values outside an equality fast path (shared with C10.R6)"""
    from .c10 import r6_identity
    r6_identity(ctx, rule="C04.R6i")


RULES.append(("C04.R6i", r6i_identity))
