"""C13 - variant haplotypes: alternative sequence and lift-over match the edit model.

RK  the analyser interprets VariantInterval / VariantIntervalCollection (alternative_genomic_sequence,
    parent_with_alternative_sequence, lift_over_location) and incorporate_variants on features / transcripts / CDSs
    for generated references, 1..3 non-overlapping variants (SNV, insertion, deletion; padded and unpadded) and
    single / multi-block locations on both strands, on a whole chromosome and on an offset chunk, and compares with
    a literal string-editing oracle.
R3  dictionary round trip of variants keeps the parent (interpreted).
R4  structural: every itertools.groupby in the VCF reader consumes input sorted by its grouping key."""
import ast
import itertools

from ..astutil import call_tail, calls_in, dotted, src, walk_shallow
from ..genekernel import chrom_parent, chunk_parent, gene_interp, mk_feature, mk_parent, mk_transcript
from ..interp import ClassTok, Obj, Raised, Uninterpretable
from ..lockernel import blocks_of, is_empty_obj, run, strand_of, strands
from .c01 import enum_positions
from .c05 import _report, _runner, rc

EXPLANATION = (
    "RK: variants are applied inside the analyser's interpreter: alternative_genomic_sequence of one variant and of "
    "collections of 1-3 non-overlapping variants (SNV / insertion / deletion, padded and unpadded) equals literal "
    "substitution on chromosome and offset chunk; features / transcripts / CDSs after incorporate_variants have the "
    "reference spliced sequence with the edits applied whenever every variant lies wholly inside one block or outside "
    "all blocks; locations deleted entirely become empty; identity fields are carried over and a new guid is computed. "
    "R3: from_dict forwards the parent. R4: groupby sortedness in the VCF reader (the vcf package is not installed, the "
    "reader is analysed structurally). Not decided: variants straddling block boundaries (outside the property)."
)

REF = "ACGTTGCAAGGCTTACCGATAGGCATCGTTAAGCCGTA"
V = "gene.variants:VariantInterval"
VC = "gene.variants:VariantIntervalCollection"


def apply_edits(ref, variants):
    """literal substitution; variants = [(start, end, alt)] non-overlapping, reference coordinates"""
    out, pos = [], 0
    for s, e, alt in sorted(variants):
        out.append(ref[pos:s])
        out.append(alt)
        pos = e
    out.append(ref[pos:])
    return "".join(out)


def edited_block(ref, s, e, variants):
    """sequence of reference block [s, e) after the edits that lie wholly inside it (others must be outside)"""
    inside = [(vs, ve, alt) for vs, ve, alt in variants if s <= vs and ve <= e]
    for vs, ve, alt in variants:
        if (vs, ve, alt) not in inside and not (ve <= s or vs >= e):
            return None
    out, pos = [], s
    for vs, ve, alt in sorted(inside):
        out.append(ref[pos:vs])
        out.append(alt)
        pos = ve
    out.append(ref[pos:e])
    return "".join(out)


def mk_variant(it, s, e, alt, parent, name=None):
    return it.apply(ClassTok("VariantInterval"), [s, e, alt, "x"], {"parent_or_seq_chunk_parent": parent, "variant_name": name}, None, 0)


VARIANTS = [(10, 11, "T"), (10, 11, "TGG"), (10, 13, "G"), (10, 13, ""), (20, 22, "AC"), (20, 21, "ACCA"), (24, 28, "C"),
            (5, 6, "G"), (5, 8, "")]
LOCS = [([(12, 16)], "PLUS"), ([(4, 9), (12, 20)], "MINUS"), ([(8, 16)], "PLUS"), ([(8, 16)], "MINUS"), ([(4, 9), (9, 15)], "PLUS"), ([(3, 9), (18, 30)], "MINUS"),
        ([(2, 5), (14, 19), (23, 31)], "PLUS"), ([(10, 13)], "PLUS"), ([(11, 12)], "MINUS"), ([(30, 36)], "PLUS")]


def _haplotypes_case(repo, spec):
    """several alternative haplotypes of one sequence built one after the other in one process (with the class-level memo of
    Parent modelled): each one carries its own edits - also when two haplotypes have the same length and placement"""
    chunk, = spec
    it = gene_interp(repo, max_steps=10 ** 10)
    it.class_caches = {}
    S = strands(it)
    out = []
    n = 0
    if chunk:
        cs, ce = chunk
        mkpar = lambda: chunk_parent(it, REF, cs, ce, alphabet="NT_STRICT_UNKNOWN")  # noqa: E731
        ref, off = REF[cs:ce], cs
    else:
        mkpar = lambda: chrom_parent(it, REF, alphabet="NT_STRICT_UNKNOWN")  # noqa: E731
        ref, off = REF, 0
    where = "chromosome" if not chunk else f"chunk {chunk}"
    pos = off + 9
    alts = [b for b in "ACGT" if b != REF[pos]] + ["TT"]
    feat_blocks = [(off + 5, off + 15)]
    for alt in alts + alts[:1]:
        n += 2
        try:
            parent = mkpar()
            v = mk_variant(it, pos, pos + 1, alt, parent)
            ft = mk_feature(it, feat_blocks, S["PLUS"], parent_or_seq_chunk_parent=parent)
        except Raised as ex:
            out.append(("haplotypes built one after the other", f"{where}: construction raises {ex.exc_name}", f"{V}.__init__"))
            continue
        want = apply_edits(ref, [(pos - off, pos + 1 - off, alt)])
        k, p = run(it, repo.fn(f"{V}.parent_with_alternative_sequence"), [], {}, v)
        got = p.fields["sequence"].fields["sequence"] if k == "ok" else p
        if got != want:
            out.append(("haplotypes built one after the other", f"{where}: the alternative parent of variant ({pos},{pos + 1},{alt!r}), built after "
                        f"other alleles of the same site, carries {got!r}; literal substitution gives {want!r}", f"{V}.parent_with_alternative_sequence"))
        k2, new = run(it, repo.fn("gene.feature:FeatureInterval.incorporate_variants"), [v], {}, ft)
        k3, sv = run(it, repo.fn("gene.interval:AbstractFeatureInterval.get_spliced_sequence"), [], {}, new) if k2 == "ok" else (k2, new)
        wseq = edited_block(ref, feat_blocks[0][0] - off, feat_blocks[0][1] - off, [(pos - off, pos + 1 - off, alt)])
        gseq = sv.fields["sequence"] if k3 == "ok" else sv
        if gseq != wseq:
            out.append(("haplotypes built one after the other", f"{where}: feature {feat_blocks} after incorporating ({pos},{pos + 1},{alt!r}), built after "
                        f"other alleles of the same site, has spliced sequence {gseq!r}; the reference with the edit applied is {wseq!r}",
                        "gene.feature:FeatureInterval.incorporate_variants"))
    return n, out


def _seq_case(repo, it, S, spec):
    if spec[0] == "haplotypes":
        return _haplotypes_case(repo, spec[1:])
    vs, chunk = spec
    out = []
    n = 0
    if chunk:
        cs, ce = chunk
        parent = chunk_parent(it, REF, cs, ce, alphabet="NT_STRICT_UNKNOWN")
        ref, off = REF[cs:ce], cs
    else:
        parent = chrom_parent(it, REF, alphabet="NT_STRICT_UNKNOWN")
        ref, off = REF, 0
    desc = f"variants {vs} on {'chromosome' if not chunk else 'chunk ' + str(chunk)}"
    try:
        objs = [mk_variant(it, s, e, alt, parent) for s, e, alt in vs]
    except Raised as ex:
        return 1, [("construct", f"{desc}: {ex.exc_name}", f"{V}.__init__")]
    want = apply_edits(ref, [(s - off, e - off, alt) for s, e, alt in vs])
    if len(vs) == 1:
        n += 1
        k, v = run(it, repo.fn(f"{V}.alternative_genomic_sequence"), [], {}, objs[0])
        w1 = want
        if k != "ok" or v.fields["sequence"] != w1:
            out.append(("alternative sequence (single variant)", f"{desc}: alternative_genomic_sequence -> {k}:{v.fields['sequence'] if k == 'ok' else v}; literal substitution gives {w1!r}", f"{V}.alternative_genomic_sequence"))
        n += 1
        k, p = run(it, repo.fn(f"{V}.parent_with_alternative_sequence"), [], {}, objs[0])
        if k != "ok" or p.fields["sequence"].fields["sequence"] != w1:
            out.append(("parent with alternative sequence", f"{desc}: parent_with_alternative_sequence -> {k}", f"{V}.parent_with_alternative_sequence"))
        elif chunk:
            sp = p.fields["sequence"].fields.get("parent")
            loc = sp.fields.get("location") if isinstance(sp, Obj) else None
            got_pl = (loc.fields["start"], loc.fields["end"]) if isinstance(loc, Obj) else None
            if got_pl != (off, off + len(w1)):
                out.append(("alternative chunk placement", f"{desc}: the alternative sequence of a variant on a chunk is placed at {got_pl} "
                            f"(None = not on a chunk at all); expected ({off},{off + len(w1)})", f"{V}.parent_with_alternative_sequence"))
    try:
        coll = it.apply(ClassTok("VariantIntervalCollection"), [list(reversed(objs))], {"parent_or_seq_chunk_parent": parent}, None, 0)
    except Raised as ex:
        return n + 1, out + [("collection construct", f"{desc}: {ex.exc_name}", f"{VC}.__init__")]
    n += 1
    k, v = run(it, repo.fn(f"{VC}.alternative_genomic_sequence"), [], {}, coll)
    if k != "ok" or v.fields["sequence"] != want:
        out.append((f"alternative sequence (collection of {len(vs)}{', chunk' if chunk else ''})", f"{desc}: collection alternative_genomic_sequence -> {k}:{v.fields['sequence'] if k == 'ok' else v}; literal substitution gives {want!r}", f"{VC}.alternative_genomic_sequence"))
    return n, out


def _lift_case(repo, it, S, spec):
    vs, chunk, (blocks, sn), kind = spec
    out = []
    n = 0
    if chunk:
        cs, ce = chunk
        parent = chunk_parent(it, REF, cs, ce, alphabet="NT_STRICT_UNKNOWN")
    else:
        cs, ce = 0, len(REF)
        parent = chrom_parent(it, REF, alphabet="NT_STRICT_UNKNOWN")
    if blocks[0][0] < cs or blocks[-1][1] > ce:
        return 0, []
    desc = f"{kind} {blocks}:{sn} with variants {vs} on {'chromosome' if not chunk else 'chunk ' + str(chunk)}"
    parts = [edited_block(REF, s, e, vs) for s, e in blocks]
    if any(p is None for p in parts):
        return 0, []  # a variant straddles a block boundary: outside the property
    want_plus = "".join(parts)
    want = want_plus if sn == "PLUS" else rc("".join(reversed([p for p in parts])))
    if sn == "MINUS":
        want = rc(want_plus)
    ncat = f"{len(vs)} variant{'s' if len(vs) > 1 else ''}" + (", several change length" if sum(1 for s, e, a in vs if len(a) != e - s) > 1 else "")
    try:
        objs = [mk_variant(it, s, e, alt, parent) for s, e, alt in vs]
        var = objs[0] if len(objs) == 1 else it.apply(ClassTok("VariantIntervalCollection"), [objs], {"parent_or_seq_chunk_parent": parent}, None, 0)
        if kind == "feature":
            obj = mk_feature(it, blocks, S[sn], parent_or_seq_chunk_parent=parent, feature_name="fn", feature_id="fid", feature_types=["t"],
                             qualifiers={"k": ["v"]}, sequence_name="chr1")
            q = "gene.feature:FeatureInterval.incorporate_variants"
        else:
            obj = mk_transcript(it, blocks, S[sn], parent_or_seq_chunk_parent=parent, transcript_id="tid", transcript_symbol="ts",
                                qualifiers={"k": ["v"]}, sequence_name="chr1")
            q = "gene.transcript:TranscriptInterval.incorporate_variants"
    except Raised as ex:
        return 1, [("construct", f"{desc}: {ex.exc_name}", f"{V}.__init__")]
    n += 1
    k, new = run(it, repo.fn(q), [var], {}, obj)
    if not want:
        if not (k == "raise" and new == "EmptyLocationException"):
            out.append((f"deleted entirely ({ncat})", f"{desc}: the whole location is deleted; incorporate_variants -> {k}:{new}; documented EmptyLocationException / empty", q))
        return n, out
    if k != "ok":
        out.append((f"incorporate_variants raises ({ncat})", f"{desc}: incorporate_variants raises {new}; expected spliced sequence {want!r}", q))
        return n, out
    n += 1
    k2, sv = run(it, repo.fn("gene.interval:AbstractFeatureInterval.get_spliced_sequence"), [], {}, new)
    got = sv.fields["sequence"] if k2 == "ok" else sv
    if got != want:
        out.append((f"spliced sequence after incorporation ({ncat})", f"{desc}: spliced sequence after incorporation is {got!r}; the reference spliced sequence with the edits applied is {want!r}", q))
    ident = ("feature_name", "feature_id", "sequence_name") if kind == "feature" else ("transcript_id", "transcript_symbol", "sequence_name")
    for fld in ident:
        if new.fields.get(fld) != obj.fields.get(fld):
            out.append(("identity fields carried over", f"{desc}: {fld} is {new.fields.get(fld)!r} after incorporation (was {obj.fields.get(fld)!r})", q))
    return n, out


def _container_case(repo, it, S, spec):
    """incorporation through the containers (gene, feature collection, annotation collection): every member of the new container
    has its reference spliced sequence with the edits applied, and the container's own reference sequence is the edited stretch"""
    vs, chunk, container = spec
    out, n = [], 0
    if chunk:
        parent = chunk_parent(it, REF, chunk[0], chunk[1], alphabet="NT_STRICT_UNKNOWN")
    else:
        parent = chrom_parent(it, REF, alphabet="NT_STRICT_UNKNOWN")
    vparent = parent
    # an annotation that was built without sequence (no parent at all, or a parent that only names the chromosome) and variants that
    # carry the reference: the derived objects sit on the alternative sequence of the variants
    bare = container.endswith("(annotation without sequence)")
    if bare:
        container = container[: -len(" (annotation without sequence)")]
        if chunk:
            return 0, []
        parent = None if vs[0][1] % 2 else mk_parent(it, id="chr1", sequence_type=it.enum("SequenceType")["CHROMOSOME"])
    members = [([(12, 16)], "PLUS"), ([(4, 9), (12, 20)], "MINUS"), ([(8, 16), (22, 30)], "PLUS")]
    desc = f"{container}{' built without sequence' if bare else ''} with variants {vs} on {'chromosome' if not chunk else 'chunk ' + str(chunk)}"
    wants = []
    for blocks, sn in members:
        parts = [edited_block(REF, s_, e, vs) for s_, e in blocks]
        if any(p is None for p in parts):
            return 0, []
        wp = "".join(parts)
        wants.append(wp if sn == "PLUS" else rc(wp))
    if any(not w for w in wants):
        return 0, []
    try:
        objs = [mk_variant(it, s_, e, alt, vparent) for s_, e, alt in vs]
        var = objs[0] if len(objs) == 1 else it.apply(ClassTok("VariantIntervalCollection"), [objs], {"parent_or_seq_chunk_parent": vparent}, None, 0)
        txs = [mk_transcript(it, b, S[sn], parent_or_seq_chunk_parent=parent, transcript_id=f"t{i}", sequence_name="chr1") for i, (b, sn) in enumerate(members)]
        fts = [mk_feature(it, b, S[sn], parent_or_seq_chunk_parent=parent, feature_name=f"f{i}", sequence_name="chr1") for i, (b, sn) in enumerate(members)]
        from ..genekernel import mk_collection, mk_feature_collection, mk_gene
        gene = mk_gene(it, txs, gene_id="g", sequence_name="chr1", parent_or_seq_chunk_parent=parent)
        fc = mk_feature_collection(it, fts, feature_collection_id="fc", sequence_name="chr1", parent_or_seq_chunk_parent=parent)
        if container == "gene":
            obj, q, leaves = gene, "gene.gene:GeneInterval.incorporate_variants", lambda o: list(o.fields["transcripts"])
        elif container == "feature collection":
            obj, q, leaves = fc, "gene.feature:FeatureIntervalCollection.incorporate_variants", lambda o: list(o.fields["feature_intervals"])
        else:
            obj = mk_collection(it, [gene], [fc], sequence_name="chr1", parent_or_seq_chunk_parent=parent)
            q = "gene.collections:AnnotationCollection.incorporate_variants"
            leaves = lambda o: list(o.fields["genes"][0].fields["transcripts"]) + list(o.fields["feature_collections"][0].fields["feature_intervals"])  # noqa: E731
            wants = wants + wants
    except Raised as ex:
        return 1, [("construct", f"{desc}: {ex.exc_name}", f"{V}.__init__")]
    n += 1
    k, new = run(it, repo.fn(q), [var], {}, obj)
    ncat = f"{len(vs)} variant{'s' if len(vs) > 1 else ''}" + (", several change length" if sum(1 for s_, e, a in vs if len(a) != e - s_) > 1 else "")
    if k != "ok":
        return n, [(f"container incorporation raises ({ncat})", f"{desc}: incorporate_variants raises {new}", q)]
    fs = repo.fn("gene.interval:AbstractFeatureInterval.get_spliced_sequence")
    for i, (lf, want) in enumerate(zip(leaves(new), wants)):
        n += 1
        k2, sv = run(it, fs, [], {}, lf)
        got = sv.fields["sequence"] if k2 == "ok" else sv
        if got != want:
            out.append((f"member sequence after container incorporation ({ncat})", f"{desc}: member #{i} ({lf.cls_name}) has spliced sequence {k2}:{got!r}; its "
                        f"reference spliced sequence with the edits applied is {want!r}", q))
            break
    # the container's own stretch of the alternative sequence
    if container != "annotation collection":
        n += 1
        lo, hi = min(b[0][0] for b, _ in members), max(b[-1][1] for b, _ in members)
        wref = edited_block(REF, lo, hi, vs)
        kr, rv = run(it, repo.fn("gene.interval:AbstractFeatureIntervalCollection.get_reference_sequence"), [], {}, new)
        gotr = rv.fields["sequence"] if kr == "ok" and isinstance(rv, Obj) else rv
        if wref is not None and gotr != wref:
            out.append((f"container reference sequence after incorporation ({ncat})", f"{desc}: get_reference_sequence() of the new container -> {kr}:{gotr!r}; "
                        f"the edited stretch [{lo},{hi}) is {wref!r}", q))
    return n, out


def rk_containers(ctx):
    specs = []
    vsets = [(v,) for v in VARIANTS] + [(a, b) for a, b in itertools.combinations(VARIANTS, 2) if a[1] <= b[0] or b[1] <= a[0]]
    for ch in (None, (2, 37)):
        for vs in vsets:
            if len(vs) == 2 and sum(1 for s_, e, a in vs if len(a) != e - s_) > 1:
                continue  # several length-changing variants: the sequential lift-over finding (C13.RL) applies to every container alike
            for container in ("gene", "feature collection", "annotation collection"):
                specs.append((vs, ch, container))
                if ch is None and len(vs) == 1:
                    specs.append((vs, ch, container + " (annotation without sequence)"))
    ctx.r.floor("C13.RN", "container incorporation cases", len(specs), 100)
    from ..par import pmap
    results = pmap(_runner(ctx.repo, _container_case), specs)
    _report(ctx, "C13.RN", results, [("gene.gene:GeneInterval.incorporate_variants", "members and reference sequence on the alternative haplotype"),
                                     ("gene.feature:FeatureIntervalCollection.incorporate_variants", "members and reference sequence on the alternative haplotype"),
                                     ("gene.collections:AnnotationCollection.incorporate_variants", "every member on the alternative haplotype")])


def rk_sequences(ctx):
    specs = []
    chunks = [None, (3, 34), (0, 38)]
    for ch in chunks:
        for v in VARIANTS:
            specs.append(((v,), ch))
        for a, b in itertools.combinations(VARIANTS, 2):
            if a[1] <= b[0] or b[1] <= a[0]:
                specs.append(((a, b), ch))
        for tri in ([VARIANTS[7], VARIANTS[1], VARIANTS[4]], [VARIANTS[8], VARIANTS[2], VARIANTS[6]]):
            specs.append((tuple(tri), ch))
        # variants touching the first / last base of the sequence they are applied to (whole chromosome or chunk)
        lo, hi = ch if ch else (0, len(REF))
        for ev in ((hi - 1, hi, "T"), (hi - 1, hi, "TGA"), (hi - 3, hi, ""), (hi - 2, hi, "C"), (lo, lo + 1, "G"), (lo, lo + 2, ""), (lo, lo + 1, "GTT")):
            specs.append(((ev,), ch))
            specs.append(((VARIANTS[1], ev), ch))
        specs.append((((lo, lo + 1, "G"), (hi - 1, hi, "T")), ch))
    for ch in chunks:
        specs.append(("haplotypes", ch))
    ctx.r.floor("C13.RK", "alternative-sequence cases", len(specs), 60)
    from ..par import pmap
    results = pmap(_runner(ctx.repo, _seq_case), specs)
    _report(ctx, "C13.RK", results, [(f"{V}.alternative_genomic_sequence", "literal substitution"),
                                     (f"{VC}.alternative_genomic_sequence", "literal substitution of all variants, chromosome and chunk"),
                                     (f"{V}.parent_with_alternative_sequence", "alternative parent carries the edited sequence")])


def rk_lift(ctx):
    specs = []
    for ch in (None, (2, 37)):
        for loc in LOCS:
            for kind in ("feature", "transcript"):
                aligned = []
                for bs, be in loc[0]:
                    if be - bs >= 4:
                        # edits flush with a block start / end: unpadded deletion, insertion-like replacement, SNV
                        aligned += [(bs, bs + 2, ""), (be - 2, be, ""), (bs, bs + 1, "TT"), (be - 1, be, "G"), (bs, bs + 3, "A"),
                                    (be - 1, be, "GGG"), (be - 3, be, "A"), (bs, bs + 2, "ACGT")]
                for v in VARIANTS + aligned:
                    specs.append(((v,), ch, loc, kind))
                for a, b in itertools.combinations(VARIANTS, 2):
                    if (a[1] <= b[0] or b[1] <= a[0]) and (kind == "feature" or ctx.thorough):
                        specs.append(((a, b), ch, loc, kind))
    ctx.r.floor("C13.RL", "incorporation cases", len(specs), 200)
    from ..par import pmap
    results = pmap(_runner(ctx.repo, _lift_case), specs)
    _report(ctx, "C13.RL", results, [("gene.feature:FeatureInterval.incorporate_variants", "spliced sequence = reference with edits applied"),
                                     ("gene.transcript:TranscriptInterval.incorporate_variants", "spliced sequence = reference with edits applied"),
                                     (f"{V}.lift_over_location", "edited image of the location"),
                                     (f"{VC}.lift_over_location", "edited image of the location")])


def _coding_case(repo, it, S, spec):
    """coding transcripts: after length-preserving edits (SNVs / MNVs) the new transcript's coding sequence and protein are the
    reading frame of the original CDS read off the edited reference (same codon positions, same start frame)"""
    vs, chunk, (exons, cds, sn, start) = spec
    from .c05 import bases, translate_ref, walker
    from .c07 import consistent_frames
    out = []
    n = 0
    if chunk:
        parent = chunk_parent(it, REF, chunk[0], chunk[1], alphabet="NT_STRICT_UNKNOWN")
    else:
        parent = chrom_parent(it, REF, alphabet="NT_STRICT_UNKNOWN")
    F = it.enum("CDSFrame")
    nm = {0: "ZERO", 1: "ONE", 2: "TWO"}
    frames = consistent_frames(cds, sn, start)
    desc = f"coding transcript exons={exons} cds={cds} {sn} frames={frames} with variants {vs} on {'chromosome' if not chunk else 'chunk ' + str(chunk)}"
    edited = apply_edits(REF, list(vs))
    codons = walker(list(cds), sn, frames)
    if chunk:
        # on a chunk that cuts the CDS the coding sequence is the codons of the original frame that lie fully on the chunk
        codons = [c for c in codons if all(chunk[0] <= p_ < chunk[1] for p_ in c)]
        if any(not (chunk[0] <= v_[0] and v_[1] <= chunk[1]) for v_ in vs) or not codons:
            return 0, []
    want = "".join(bases(c, sn, edited) for c in codons)
    q = "gene.transcript:TranscriptInterval.incorporate_variants"
    try:
        objs = [mk_variant(it, s_, e, alt, parent) for s_, e, alt in vs]
        var = objs[0] if len(objs) == 1 else it.apply(ClassTok("VariantIntervalCollection"), [objs], {"parent_or_seq_chunk_parent": parent}, None, 0)
        tx = mk_transcript(it, exons, S[sn], cds, [F[nm[x]] for x in frames], parent_or_seq_chunk_parent=parent, transcript_id="tid",
                           protein_id="pid", sequence_name="chr1")
    except Raised as ex:
        return 1, [("construct", f"{desc}: {ex.exc_name}", f"{V}.__init__")]
    n += 1
    k, new = run(it, repo.fn(q), [var], {}, tx)
    cut5 = bool(chunk) and ((chunk[0] > cds[0][0]) if sn == "PLUS" else (chunk[1] < cds[-1][1]))
    cat = f"{'multi' if len(cds) > 1 else 'single'}-block CDS, {sn}, start frame {'0' if start == 0 else 'nonzero'}" + (", 5' end cut by the chunk" if cut5 else "")
    if k != "ok":
        return n, [(f"coding incorporation raises ({cat})", f"{desc}: incorporate_variants raises {new}; expected coding sequence {want!r}", q)]
    n += 2
    k2, sv = run(it, repo.fn("gene.transcript:TranscriptInterval.get_cds_sequence"), [], {}, new)
    got = sv.fields["sequence"] if k2 == "ok" else sv
    if got != want:
        out.append((f"coding sequence after incorporation ({cat})", f"{desc}: coding sequence after incorporation is {got!r}; the original reading "
                    f"frame on the edited reference is {want!r}", "gene.cds:CDSInterval.incorporate_variants"))
    else:
        k3, pv = run(it, repo.fn("gene.transcript:TranscriptInterval.get_protein_sequence"), [], {}, new)
        wp = translate_ref(want, "DEFAULT")
        gp = pv.fields["sequence"] if k3 == "ok" else pv
        if gp != wp:
            out.append((f"protein after incorporation ({cat})", f"{desc}: protein {gp!r}; translation of the edited coding sequence is {wp!r}",
                        "gene.cds:CDSInterval.incorporate_variants"))
    for fld in ("transcript_id", "sequence_name"):
        if new.fields.get(fld) != tx.fields.get(fld):
            out.append(("identity fields carried over", f"{desc}: {fld} is {new.fields.get(fld)!r} after incorporation", q))
    ncds = new.fields.get("cds")
    if isinstance(ncds, Obj) and ncds.fields.get("protein_id") != "pid":
        out.append(("identity fields carried over", f"{desc}: protein_id is {ncds.fields.get('protein_id')!r} after incorporation", "gene.cds:CDSInterval.incorporate_variants"))
    return n, out


CODING = [([(4, 20)], [(5, 20)], "PLUS"), ([(4, 20)], [(5, 20)], "MINUS"), ([(3, 11), (14, 24)], [(5, 11), (14, 22)], "PLUS"),
          ([(3, 11), (14, 24)], [(5, 11), (14, 22)], "MINUS"), ([(2, 9), (12, 17), (20, 30)], [(4, 9), (12, 17), (20, 27)], "MINUS")]
SNVS = [(10, 11, "T"), (6, 7, "G"), (15, 17, "CA"), (21, 22, "A"), (1, 2, "C")]


def rk_coding(ctx):
    specs = []
    for ch in (None, (1, 36), (7, 36), (1, 20), (6, 23)):
        for model in CODING:
            if ch not in (None, (1, 36)) and len(model[1]) == 1:
                continue  # (a single-exon CDS cut at its 5' end with a non-zero frame is the known C05 / C07 finding)
            for start in (0, 1, 2):
                for i, v in enumerate(SNVS):
                    if ctx.thorough or (i + start) % 2 == 0:
                        specs.append(((v,), ch, model + (start,)))
                specs.append(((SNVS[1], SNVS[2]), ch, model + (start,)))
    ctx.r.floor("C13.RC", "coding incorporation cases", len(specs), 60)
    from ..par import pmap
    results = pmap(_runner(ctx.repo, _coding_case), specs)
    _report(ctx, "C13.RC", results, [("gene.transcript:TranscriptInterval.incorporate_variants", "coding sequence / protein = original reading frame on the edited reference"),
                                     ("gene.cds:CDSInterval.incorporate_variants", "frames of the new CDS continue the original reading frame")])


def rm_haplotype_mapping(ctx):
    """AnnotationCollection.alternative_haplotype_mapping: every (gene / feature collection, variant collection) pair whose
    spans overlap appears under the variant collection's guid with the variants incorporated, nothing else does - on the
    pure-Python branch and on the optional interval-index branch (cgranges; not installed here, followed through the
    analyser's native model), which must agree"""
    from ..genekernel import mk_collection, mk_feature_collection, mk_gene
    from ..interp import with_cgranges
    r, repo = ctx.r, ctx.repo
    q = "gene.collections:AnnotationCollection._associate_intervals_with_variant_intervals"
    fn = repo.where(q)  # (label: the association is asked through AnnotationCollection's constructor)
    members = [("g1", [(4, 9), (12, 20)], "PLUS"), ("g2", [(22, 30)], "MINUS"), ("g3", [(31, 36)], "PLUS")]
    vcs = [("v1", [(10, 11, "T")]), ("v2", [(14, 15, "G"), (24, 25, "C")]), ("v3", [(36, 37, "A")]), ("v4", [(1, 2, "C")])]
    answers = {}
    n = 0
    members0, vcs0 = members, vcs
    for path, off in (("pure", None), ("index", None), ("pure", 70000), ("pure", 140000), ("index", 140000), ("pure", 2 ** 20 + 5)):
        it = gene_interp(repo, max_steps=10 ** 10)
        if path == "index":
            with_cgranges(it)
        S = strands(it)
        if off is None:
            parent = chrom_parent(it, REF, alphabet="NT_STRICT_UNKNOWN")
            members, vcs = members0, vcs0
        else:
            # the same 38 bases as a sequence chunk cut out of the chromosome at `off` (beyond the first 128 kb bin for the larger ones):
            # the association must not depend on where the chunk lies
            parent = it.call_func(repo.fn("io.parser:seq_chunk_to_parent"), [REF, "chr1", off, off + len(REF)],
                                  {"alphabet": it.enum("Alphabet")["NT_STRICT_UNKNOWN"]}, None, 0)
            members = [(gid, [(a + off, b + off) for a, b in ex], sn) for gid, ex, sn in members0]
            vcs = [(vid, [(a + off, b + off, alt) for a, b, alt in vs]) for vid, vs in vcs0]
            path = f"{path}, chunk at {off}"
        genes = [mk_gene(it, [mk_transcript(it, ex, S[sn], transcript_id=gid + ".t", parent_or_seq_chunk_parent=parent)], gene_id=gid,
                         parent_or_seq_chunk_parent=parent) for gid, ex, sn in members[:2]]
        fcs = [mk_feature_collection(it, [mk_feature(it, members[2][1], S[members[2][2]], feature_name="f", parent_or_seq_chunk_parent=parent)],
                                     feature_collection_id=members[2][0], parent_or_seq_chunk_parent=parent)]
        vobjs = []
        for vid, vs in vcs:
            vi = [mk_variant(it, s_, e, alt, parent, name=f"{vid}.{i}") for i, (s_, e, alt) in enumerate(vs)]
            vobjs.append(it.apply(ClassTok("VariantIntervalCollection"), [vi], {"variant_collection_id": vid, "parent_or_seq_chunk_parent": parent}, None, 0))
        try:
            ac = mk_collection(it, genes, fcs, variant_collections=vobjs, sequence_name="chr1", parent_or_seq_chunk_parent=parent)
        except Raised as ex:
            r.violation("C13.RM", q, f"{path} path", f"building a collection with variant collections raises {ex.exc_name} on the {path} path", fn)
            continue
        except Uninterpretable as ex:
            from ..model import AnalysisError
            raise AnalysisError(f"C13.RM ({path} path): {ex}")
        mapping = ac.fields.get("alternative_haplotype_mapping") or {}
        got = {}
        by_guid = {str(v.fields["guid"]): vid for v, (vid, _vs) in zip(vobjs, vcs)}
        for guid, lst in mapping.items():
            vid = by_guid.get(str(guid), str(guid))
            for o in lst:
                oid = o.fields.get("gene_id") or o.fields.get("feature_collection_id")
                kids = o.fields.get("transcripts") or o.fields.get("feature_intervals")
                k, sv = run(it, repo.fn("gene.interval:AbstractFeatureInterval.get_spliced_sequence"), [], {}, kids[0])
                got[(vid, oid)] = sv.fields["sequence"] if k == "ok" else f"raise:{sv}"
        answers[path] = got
        want = {}
        for vid, vs in vcs:
            lo, hi = min(v[0] for v in vs), max(v[1] for v in vs)
            for gid, ex, sn in members:
                if ex[0][0] < hi and lo < ex[-1][1]:
                    o_ = off or 0
                    parts = [edited_block(REF, s_ - o_, e - o_, [(a - o_, b - o_, alt) for a, b, alt in vs]) for s_, e in ex]
                    if any(p_ is None for p_ in parts):
                        continue
                    plus = "".join(parts)
                    want[(vid, gid)] = plus if sn == "PLUS" else rc(plus)
        n += 1
        missing = sorted(set(want) - set(got))
        extra = sorted(k_ for k_ in set(got) - set(want))
        r.check(not missing and not extra, "C13.RM", q, f"pairs associated ({path} path)",
                f"{path} path: associated (variant collection, member) pairs {sorted(got)}; spans that overlap give {sorted(want)}", fn)
        for k_ in sorted(set(want) & set(got)):
            n += 1
            r.check(got[k_] == want[k_], "C13.RM", q, f"haplotype sequence {k_} ({path} path)",
                    f"{path} path: member {k_[1]} under {k_[0]} has spliced sequence {got[k_]!r}; reference with the edits applied is {want[k_]!r}", fn)
    if "pure" in answers and "index" in answers:
        r.check(answers["pure"] == answers["index"], "C13.RM", q, "pure-Python branch = interval-index branch",
                f"the two branches associate differently: {answers['pure']} vs {answers['index']}", fn)
    r.count(n)


def r3_round_trip(ctx):
    r, repo = ctx.r, ctx.repo
    it = gene_interp(repo, max_steps=10 ** 10)
    for which in ("chrom", "chunk"):
        parent = chrom_parent(it, REF, alphabet="NT_STRICT_UNKNOWN") if which == "chrom" else chunk_parent(it, REF, 3, 34, alphabet="NT_STRICT_UNKNOWN")
        v = mk_variant(it, 10, 13, "G", parent, name="v1")
        k, d = run(it, repo.fn(f"{V}.to_dict"), [], {}, v)
        k2, back = run(it, repo.fn(f"{V}.from_dict"), [d, parent], {}, None)
        ok = k == "ok" and k2 == "ok" and it.py_str(back.fields["_location"]) == it.py_str(v.fields["_location"]) and \
            back.fields.get("_parent_or_seq_chunk_parent") is not None
        k3, hs = run(it, repo.fn("gene.interval:AbstractInterval.has_sequence"), [], {}, back) if k2 == "ok" else ("raise", None)
        r.check(ok and k3 == "ok" and hs is True, "C13.R3", f"{V}.from_dict", f"parent forwarded ({which})",
                f"VariantInterval.from_dict(to_dict(), parent) on a {which} parent: re-built variant has location "
                f"{it.py_str(back.fields['_location']) if k2 == 'ok' else back} (original {it.py_str(v.fields['_location'])}), has_sequence={hs}: "
                f"the parent is dropped", repo.fn(f"{V}.from_dict"))
        coll = it.apply(ClassTok("VariantIntervalCollection"), [[v, mk_variant(it, 20, 21, "ACCA", parent)]], {"parent_or_seq_chunk_parent": parent}, None, 0)
        k, d = run(it, repo.fn(f"{VC}.to_dict"), [], {}, coll)
        k2, back = run(it, repo.fn(f"{VC}.from_dict"), [d, parent], {}, None)
        ok = k == "ok" and k2 == "ok"
        if ok:
            k3, s1 = run(it, repo.fn(f"{VC}.alternative_genomic_sequence"), [], {}, back)
            k4, s0 = run(it, repo.fn(f"{VC}.alternative_genomic_sequence"), [], {}, coll)
            ok = k3 == "ok" and k4 == "ok" and s1.fields["sequence"] == s0.fields["sequence"]
        r.check(ok, "C13.R3", f"{VC}.from_dict", f"collection round trip keeps the haplotype ({which})",
                f"VariantIntervalCollection.from_dict(to_dict(), parent) on a {which} parent does not reproduce the alternative sequence", repo.fn(f"{VC}.from_dict"))


def r4_vcf_grouping(ctx):
    """deciding rule (interpreted): convert_vcf_records_to_model on modelled VCF records.  Every record ends up in the result
    of its own chromosome whatever the order of the records; records sharing a phase set form one collection, unphased ones
    their own; coordinates / alternative alleles are carried over.  (The vcf package is absent: records are plain objects
    with the attributes the function reads - CHROM, POS, affected_start/end, ALT[].sequence/.type, samples[].data.PS.)"""
    r, repo = ctx.r, ctx.repo
    fn = repo.fn("io.vcf.parser:convert_vcf_records_to_model")
    it = gene_interp(repo, max_steps=10 ** 9)

    class _Schema:
        _interp_native_ = True

        def load(self, d):
            return Obj("VariantIntervalCollectionModel", **d)
    it.hooks["VariantIntervalCollectionModel.Schema"] = lambda interp, selfv, args, kwargs: _Schema()

    def rec(chrom, start, end, alts, ps=None):
        data = Obj("CallData", **({"PS": ps} if ps is not None else {"GT": "0|1"}))
        return Obj("VcfRecord", CHROM=chrom, POS=start + 1, affected_start=start, affected_end=end,
                   ALT=[Obj("Substitution", sequence=a, type="SNV" if len(a) == end - start else "indel") for a in alts],
                   samples=[Obj("Call", data=data)])

    base = [("chr1", 3, 4, ["T"], None), ("chr1", 10, 12, ["A", "ACG"], 7), ("chr1", 20, 21, ["G"], 7), ("chr2", 5, 5, ["TT"], None),
            ("chr2", 9, 10, ["C"], 3), ("chr1", 30, 31, ["C"], None)]
    orders = {"sorted by chromosome": sorted(range(len(base)), key=lambda i: (base[i][0], base[i][1])),
              "file order with one chromosome in two runs": list(range(len(base))),
              "reversed": list(reversed(range(len(base))))}
    n = 0
    for oname, order in orders.items():
        recs = [rec(*base[i]) for i in order]
        n += 1
        k, v = run(it, fn, [recs], {}, None)
        if k != "ok":
            r.violation("C13.R4", fn.qual, f"records {oname}", f"records {oname}: convert_vcf_records_to_model raises {v}", fn)
            continue
        got = {}
        for chrom, colls in v.items():
            for c in colls:
                for vi in c.fields["variant_intervals"]:
                    got.setdefault(chrom, []).append((vi["start"], vi["end"], vi["sequence"], vi.get("phase_block")))
        want = {}
        for chrom, s_, e, alts, ps in base:
            for a in alts:
                want.setdefault(chrom, []).append((s_, e if e != s_ else e + 1, a, ps))
        cat = "records of one chromosome not adjacent" if oname != "sorted by chromosome" else "records sorted by chromosome"
        r.check({c: sorted(x, key=str) for c, x in got.items()} == {c: sorted(x, key=str) for c, x in want.items()}, "C13.R4", fn.qual,
                f"every record kept ({cat})",
                f"records {oname}: variants per chromosome {dict((c, len(x)) for c, x in got.items())}; the file holds "
                f"{dict((c, len(x)) for c, x in want.items())} (records of a chromosome that are not adjacent form several groups and the later "
                f"group replaces the earlier one)", fn)
        # phase sets: one collection per (chromosome, PS), one per unphased variant
        if oname == "sorted by chromosome":
            for chrom, colls in v.items():
                sizes = sorted(len(c.fields["variant_intervals"]) for c in colls)
                wsz = {}
                for c2, s_, e, alts, ps in base:
                    if c2 == chrom:
                        for a in alts:
                            wsz[(ps, None if ps is not None else (s_, a))] = wsz.get((ps, None if ps is not None else (s_, a)), 0) + 1
                r.check(sizes == sorted(wsz.values()), "C13.R4", fn.qual, f"phase sets on {chrom}",
                        f"{chrom}: collection sizes {sizes}; phase sets / unphased variants give {sorted(wsz.values())}", fn)
    r.count(n)


def r4_groupby_sorted(ctx):
    ctx.r.soften("C13.R4s")  # strengthening of R4 (all record orders): recognises sorted(...) feeding groupby; never alarms
    _r4_groupby_sorted(ctx)


def _r4_groupby_sorted(ctx):
    """each itertools.groupby(x, key=k) in io/vcf must iterate something that was sorted by a key refining k"""
    r, repo = ctx.r, ctx.repo
    m = repo.module("io.vcf.parser")
    n = 0
    for fn in list(m.funcs.values()):
        for call in calls_in(fn.node, shallow=False):
            if call_tail(call) != "groupby":
                continue
            n += 1
            it_arg = call.args[0] if call.args else None
            key = call.args[1] if len(call.args) > 1 else next((k.value for k in call.keywords if k.arg == "key"), None)
            ok = isinstance(it_arg, ast.Call) and call_tail(it_arg) == "sorted"
            if ok:
                skey = next((k.value for k in it_arg.keywords if k.arg == "key"), None)
                ok = skey is not None and key is not None and (src(skey) == src(key) or _refines(skey, key))
            elif isinstance(it_arg, ast.Name):
                # a local name: must be assigned from sorted(..., key=<same>) in this function
                for a in ast.walk(fn.node):
                    if isinstance(a, ast.Assign) and any(isinstance(t, ast.Name) and t.id == it_arg.id for t in a.targets):
                        v = a.value
                        if isinstance(v, ast.Call) and call_tail(v) == "sorted":
                            skey = next((k.value for k in v.keywords if k.arg == "key"), None)
                            ok = skey is not None and key is not None and (src(skey) == src(key) or _refines(skey, key))
            r.check(ok, "C13.R4s", fn.qual, f"groupby key `{src(key) if key is not None else None}` on sorted input",
                    f"`{src(call)[:100]}` groups input that is not sorted by the grouping key: records of one group that are not "
                    f"adjacent form several groups (later ones overwrite earlier ones)", (fn, call))
    r.floor("C13.R4s", "groupby sites in the VCF reader", n, 1)


def _refines(skey, gkey):
    """sort key is a tuple whose first component is the grouping key's body, or both are x.get(<same key>[, sentinel])"""
    if isinstance(skey, ast.Lambda) and isinstance(gkey, ast.Lambda):
        import re as _re

        def norm(lam):
            t = src(lam.body).replace(lam.args.args[0].arg + ".", "_.")
            t = _re.sub(r"\.get\(([^,()]+)(, None)?\)", r"[\1]", t)
            return t
        na, nb = norm(skey), norm(gkey)
        if na == nb or nb.startswith(na) and nb[len(na):].startswith("["):
            return True  # sorting by a list value refines grouping by its first element
        a, b = skey.body, gkey.body
        if isinstance(a, ast.Call) and isinstance(b, ast.Call) and call_tail(a) == "get" and call_tail(b) == "get" \
                and a.args and b.args and src(a.args[0]) == src(b.args[0]):
            return True
    if isinstance(skey, ast.Lambda) and isinstance(gkey, ast.Lambda) and isinstance(skey.body, ast.Tuple):
        a = src(skey.body.elts[0]).replace(skey.args.args[0].arg, "_")
        b = src(gkey.body).replace(gkey.args.args[0].arg, "_")
        return a == b
    return False


RULES = [
    ("C13.RK", rk_sequences),
    ("C13.RL", rk_lift),
    ("C13.RN", rk_containers),
    ("C13.RC", rk_coding),
    ("C13.RM", rm_haplotype_mapping),
    ("C13.R3", r3_round_trip),
    ("C13.R4", r4_vcf_grouping),
    ("C13.R4s", r4_groupby_sorted),
]
