"""C01 - Location <-> parent coordinate maps.

R1  single-block kernel, for all integers: affine normal forms (E4) of the point maps and of
    relative_interval_to_parent_location per strand path, against the 5'->3' enumeration oracle.
R1g single-block guards and values on every order type (E3).
R3  multi-block maps (1..2 blocks quick, ..3 thorough) on every order type of the block layout (empty, adjacent,
    overlapping blocks included), both strands, every position / sub-interval / relative strand, against the
    enumeration oracle; parent_to_relative_location for every overlapping single-block query.
R4  feature wrappers delegate to the inverse pair on the same location (shared with C06)."""
import ast

from ..astutil import (Aff, NotAffine, affine, bind_args, call_tail, calls_in, dotted, enumerate_paths, local_defs, src,
                       strand_of_test, try_affine)
from ..interp import ClassTok, Raised, Uninterpretable, Obj
from ..lockernel import (blocks_of, is_empty_obj, loc_interp, mk_compound, mk_single, orderings, run, strand_of, strands)
from ..model import AnalysisError
from ..par import pmap

EXPLANATION = (
    "R1: per strand path of SingleInterval.parent_to_relative_pos / relative_to_parent_pos / "
    "relative_interval_to_parent_location the returned expressions are normalised to affine forms and compared with "
    "the 5'->3' enumeration oracle (PLUS: start+r, MINUS: end-1-r; interval image [f(rs), f(re-1)+1)), which decides "
    "the single-block kernel for all integers. R1g/R3: the analyser interprets the single- and multi-block maps on a "
    "representative of every order type of the block layout (1-2 blocks, thorough 3; empty, adjacent and overlapping "
    "blocks; both strands; all positions, sub-intervals and relative strands) and compares with the enumeration oracle, "
    "including strand composition and the relative-location form. Not decided: layouts with more blocks than "
    "enumerated, i.e. the general loop invariants of the block walk."
)

LOC = "location.location_impl"


# ---------------------------------------------------------------------------------------------------------
# R1: affine normal forms
# ---------------------------------------------------------------------------------------------------------

def _strand_paths(fn):
    """{strand name or 'OTHER': [Path]} using guards on self.strand"""
    out = {}
    try:
        paths = enumerate_paths(fn.body_without_docstring())
    except ValueError as e:
        raise AnalysisError(f"{fn.qual}: {e}")
    for p in paths:
        known = {}
        for t, pol in p.guards():
            st = strand_of_test(t)
            if st and st[0] == "self.strand":
                known[st[1]] = pol
        if known.get("PLUS") is True:
            key = "PLUS"
        elif known.get("MINUS") is True and known.get("PLUS") is not True:
            key = "MINUS"
        elif known.get("PLUS") is False and known.get("MINUS") is False:
            key = "OTHER"
        else:
            key = "ANY"
        out.setdefault(key, []).append(p)
    return out


def _path_env(path):
    """affine environment from the straight-line assignments of a path"""
    env = {}
    for st in path.stmts():
        if isinstance(st, ast.Assign) and len(st.targets) == 1 and isinstance(st.targets[0], ast.Name):
            a = try_affine(st.value, env)
            if a is not None:
                env[st.targets[0].id] = a
    return env


LEN_DEF = {"len(self)": Aff.sym("self.end") - Aff.sym("self.start")}


def r1_affine(ctx):
    r = ctx.r
    # strengthening only: the three functions are decided by interpretation in R3 (all order types of one block, both
    # strands); a recognised affine form extends that verdict to all integers
    r.soften("C01.R1")
    p2r = ctx.repo.fn(f"{LOC}:SingleInterval.parent_to_relative_pos")
    r2p = ctx.repo.fn(f"{LOC}:SingleInterval.relative_to_parent_pos")
    riv = ctx.repo.fn(f"{LOC}:SingleInterval.relative_interval_to_parent_location")
    s, e = Aff.sym("self.start"), Aff.sym("self.end")
    want_r2p = {"PLUS": lambda x: s + x, "MINUS": lambda x: e - x - 1}
    want_p2r = {"PLUS": lambda p: p - s, "MINUS": lambda p: e - p - 1}
    for fn, param_i, want, nm in ((p2r, 1, want_p2r, "parent->relative"), (r2p, 1, want_r2p, "relative->parent")):
        sp = _strand_paths(fn)
        arg = Aff.sym(fn.pos_params[param_i])
        for strand in ("PLUS", "MINUS"):
            rets = [p for p in sp.get(strand, []) if p.end[0] == "return"]
            if not rets:
                r.undecide("C01.R1", fn.qual, f"{strand} path", "no return path guarded by this strand was recognised", fn)
                continue
            for p in rets:
                try:
                    got = affine(p.end[1], _path_env(p))
                except NotAffine as ex:
                    r.undecide("C01.R1", fn.qual, f"{strand} {nm}", f"return expression not affine: {ex}", fn)
                    continue
                r.check(got == want[strand](arg), "C01.R1", fn.qual, f"{strand} {nm} formula",
                        f"{nm} on the {strand} strand is `{src(p.end[1])}` = {got}; the 5'->3' enumeration requires {want[strand](arg)}",
                        (fn, p.end[1]))
        others = [p for p in sp.get("OTHER", [])]
        r.check(bool(others) and all(p.end[0] == "raise" for p in others), "C01.R1", fn.qual, "non-directional strand refused",
                "a strand that is neither PLUS nor MINUS is not refused on every path", fn)
    # inverse pair: compose symbolically (redundant with the formula checks, but independent of the oracle shape)
    # interval image
    sp = _strand_paths(riv)
    rs, re_ = Aff.sym(riv.pos_params[1]), Aff.sym(riv.pos_params[2])
    want_iv = {"PLUS": (s + rs, s + re_), "MINUS": (e - re_, e - rs)}
    for strand in ("PLUS", "MINUS"):
        rets = [p for p in sp.get(strand, []) if p.end[0] == "return"]
        if not rets:
            r.undecide("C01.R1", riv.qual, f"{strand} path", "no return path guarded by this strand was recognised", riv)
            continue
        for p in rets:
            call = p.end[1]
            if not (isinstance(call, ast.Call) and call_tail(call) == "SingleInterval"):
                r.undecide("C01.R1", riv.qual, f"{strand} result", f"result is not a direct SingleInterval(...) call: {src(call)[:80]}", riv)
                continue
            args = bind_args(call, ["start", "end", "strand", "parent"])
            env = _path_env(p)
            try:
                lo, hi = affine(args["start"], env), affine(args["end"], env)
            except (NotAffine, KeyError) as ex:
                r.undecide("C01.R1", riv.qual, f"{strand} bounds", f"bounds not affine: {ex}", riv)
                continue
            r.check((lo, hi) == want_iv[strand], "C01.R1", riv.qual, f"{strand} interval image",
                    f"image of [rs, re) on the {strand} strand is [{lo}, {hi}); the point-wise map gives "
                    f"[{want_iv[strand][0]}, {want_iv[strand][1]})", (riv, call))
            st = args.get("strand")
            ok = isinstance(st, ast.Call) and call_tail(st) == "relative_to" and {src(st.func.value), src(st.args[0])} == {
                "self.strand", riv.pos_params[3]}
            r.check(ok, "C01.R1", riv.qual, f"{strand} strand composition",
                    f"result strand is `{src(st) if st is not None else None}`, not the composition of this location's strand with the relative strand",
                    (riv, call))
    # length definition used above
    init = ctx.repo.fn(f"{LOC}:SingleInterval.__init__")
    ok = False
    for n in ast.walk(init.node):
        if isinstance(n, ast.Assign) and len(n.targets) == 1 and dotted(n.targets[0]) == "self.length":
            a = try_affine(n.value)
            ok = a == Aff.sym("end") - Aff.sym("start")
    r.check(ok, "C01.R1", init.qual, "length = end - start", "SingleInterval.__init__ does not set length = end - start", init)


# ---------------------------------------------------------------------------------------------------------
# enumeration oracle
# ---------------------------------------------------------------------------------------------------------

def enum_positions(blocks, strand_name):
    """parent positions of a location in 5'->3' order (blocks sorted ascending as stored)"""
    out = []
    if strand_name == "MINUS":
        for s, e in reversed(blocks):
            out.extend(range(e - 1, s - 1, -1))
    else:
        for s, e in blocks:
            out.extend(range(s, e))
    return out


TRI = [0, 1, 3, 6, 10, 15, 21, 28, 36]


def _layout_values(env, mode):
    if mode == "tri":
        return {k: 2 + TRI[v] for k, v in env.items()}
    return {k: 2 + 2 * v for k, v in env.items()}


def _rel_compose(a, b):
    sign = {"PLUS": 1, "MINUS": -1, "UNSTRANDED": 0}
    inv = {1: "PLUS", -1: "MINUS", 0: "UNSTRANDED"}
    return inv[sign[a] * sign[b]]


PRE_GENOME = "ACGTTGCAAGGCTTACCGATAGGCATCGTTAAGCCGTAACGTTGCAAGG"


def _maps_on_layout(repo, it, S, layout, strand_name, pre=False):
    """all map questions on one layout; returns (n, [(key, message, qual)]).  With pre=True the location sits on a
    sequence-carrying parent and its sequence is extracted first (the maps must not depend on that history)."""
    out = []
    n = 0
    strand = S[strand_name]
    kw = {}
    try:
        if pre:
            from ..genekernel import chrom_parent
            kw = {"parent": chrom_parent(it, PRE_GENOME, alphabet="NT_STRICT")}
        if len(layout) == 1:
            loc = it.apply(ClassTok("SingleInterval"), [layout[0][0], layout[0][1], strand], kw, None, 0)
            cls = "SingleInterval"
        else:
            loc = it.apply(ClassTok("CompoundInterval"), [[b[0] for b in layout], [b[1] for b in layout], strand], kw, None, 0)
            cls = "CompoundInterval"
        if pre:
            run(it, repo.fn(f"{LOC}:{cls}.extract_sequence"), [], {}, loc)
    except Raised as ex:
        return 1, [("construct", f"constructing {layout} raises {ex.exc_name}", f"{LOC}:CompoundInterval.__init__")]
    stored = blocks_of(loc)
    seq = enum_positions(stored, strand_name)
    L = len(seq)
    f_p2r = repo.fn(f"{LOC}:{cls}.parent_to_relative_pos")
    f_r2p = repo.fn(f"{LOC}:{cls}.relative_to_parent_pos")
    f_riv = repo.fn(f"{LOC}:{cls}.relative_interval_to_parent_location")
    f_p2rl = repo.fn("location.location:Location.parent_to_relative_location")
    desc = f"{cls}{stored}:{strand_name}" + (" (after extract_sequence())" if pre else "")
    overlapping = len(set(seq)) != len(seq)
    # relative -> parent
    for rpos in range(-1, L + 2):
        n += 1
        k, v = run(it, f_r2p, [rpos], {}, loc)
        if 0 <= rpos < L:
            if k != "ok" or v != seq[rpos]:
                out.append(("relative_to_parent_pos", f"{desc}.relative_to_parent_pos({rpos}) -> {k}:{v}; the {rpos}-th base 5'->3' is {seq[rpos]}", f_r2p.qual))
        elif k != "raise":
            out.append(("relative_to_parent_pos range", f"{desc}.relative_to_parent_pos({rpos}) -> {v}; position outside [0,{L}) must be rejected", f_r2p.qual))
        elif v not in ("InvalidPositionException", "ValueError"):
            out.append(("relative_to_parent_pos exception", f"{desc}.relative_to_parent_pos({rpos}) raises {v}", f_r2p.qual))
    # parent -> relative
    lo = min(b[0] for b in stored) - 1
    hi = max(b[1] for b in stored) + 1
    for p in range(lo, hi + 1):
        n += 1
        k, v = run(it, f_p2r, [p], {}, loc)
        if p in seq:
            if k != "ok" or not (isinstance(v, int) and 0 <= v < L and seq[v] == p) or (not overlapping and v != seq.index(p)):
                out.append(("parent_to_relative_pos", f"{desc}.parent_to_relative_pos({p}) -> {k}:{v}; expected {seq.index(p)}", f_p2r.qual))
        elif k != "raise":
            out.append(("parent_to_relative_pos range", f"{desc}.parent_to_relative_pos({p}) -> {v}; {p} is not in the location", f_p2r.qual))
        elif v != "InvalidPositionException":
            out.append(("parent_to_relative_pos exception", f"{desc}.parent_to_relative_pos({p}) raises {v}", f_p2r.qual))
    # relative interval -> parent location
    for rs in range(-1, L + 2):
        for re_ in range(-1, L + 2):
            for rstr in ("PLUS", "MINUS", "UNSTRANDED"):
                if rstr == "UNSTRANDED" and (rs + re_) % 3:
                    continue  # thin out the unstranded combos
                n += 1
                k, v = run(it, f_riv, [rs, re_, S[rstr]], {}, loc)
                valid = 0 <= rs <= re_ <= L
                if not valid:
                    if k != "raise":
                        out.append(("relative_interval range", f"{desc}.relative_interval_to_parent_location({rs},{re_},{rstr}) -> {v}; invalid interval must be rejected", f_riv.qual))
                    continue
                if rs == re_:
                    # empty sub-interval: any empty result (or, at rs == L, a refusal: see C06.R5) is accepted here
                    if k == "ok" and sum(e - s for s, e in blocks_of(v)) != 0:
                        out.append(("relative_interval empty", f"{desc}.relative_interval_to_parent_location({rs},{re_},{rstr}) -> non-empty {blocks_of(v)}", f_riv.qual))
                    continue
                if k != "ok":
                    out.append(("relative_interval", f"{desc}.relative_interval_to_parent_location({rs},{re_},{rstr}) raises {v}", f_riv.qual))
                    continue
                want_strand = _rel_compose(strand_name, rstr)
                got_strand = strand_of(v).name if strand_of(v) is not None else None
                want_seq = seq[rs:re_]
                if got_strand != want_strand:
                    out.append(("relative_interval strand", f"{desc}.relative_interval_to_parent_location({rs},{re_},{rstr}) has strand {got_strand}; composing {strand_name} with {rstr} gives {want_strand}", f_riv.qual))
                    continue
                got_seq = enum_positions(blocks_of(v), got_strand)
                exp = want_seq if rstr == "PLUS" else list(reversed(want_seq)) if rstr == "MINUS" else sorted(want_seq)
                if rstr == "UNSTRANDED":
                    got_seq = sorted(got_seq)
                if sorted(got_seq) != sorted(exp) or (not overlapping and got_seq != exp):
                    out.append(("relative_interval", f"{desc}.relative_interval_to_parent_location({rs},{re_},{rstr}) -> {blocks_of(v)}:{got_strand} = bases {got_seq}; the point-wise map yields {exp}", f_riv.qual))
                elif got_seq != exp and rstr != "UNSTRANDED":
                    # the right bases in another order: only possible when blocks overlap (a location stores its blocks sorted by start)
                    out.append(("relative_interval order [overlapping blocks]", f"{desc}.relative_interval_to_parent_location({rs},{re_},{rstr}) -> "
                                f"{blocks_of(v)}:{got_strand} enumerates {got_seq}; the point-wise map yields the same bases in the order {exp}", f_riv.qual))
    # a location derived from one whose lazily built parts exist already (blocks, sequence) maps like a fresh one
    if pre and L > 0:
        other = "MINUS" if strand_name == "PLUS" else "PLUS"
        seq2 = enum_positions(stored, other)
        for how, args in (("reverse_strand", []), ("reset_strand", [S[other]])):
            fd = repo.fn(f"{LOC}:{cls}.{how}")
            run(it, it.method(loc, "blocks"), [], {}, loc)
            k, dv = run(it, fd, args, {}, loc)
            n += 1
            if k != "ok":
                out.append((f"{how} after history", f"{desc}.{how}() raises {dv}", fd.qual))
                continue
            dcls = dv.cls_name
            seq2 = enum_positions(blocks_of(dv), other)  # (blocks with equal starts are re-ordered for the other strand)
            if sorted(seq2) != sorted(seq):
                out.append((f"{how} after history", f"{desc}.{how}() has blocks {blocks_of(dv)}", fd.qual))
                continue
            for rpos in range(L):
                n += 2
                k1, v1 = run(it, repo.fn(f"{LOC}:{dcls}.relative_to_parent_pos"), [rpos], {}, dv)
                k2, v2 = run(it, repo.fn(f"{LOC}:{dcls}.parent_to_relative_pos"), [seq2[rpos]], {}, dv)
                if k1 != "ok" or v1 != seq2[rpos]:
                    out.append((f"{how} after history", f"{desc}: after its blocks were listed, .{how}().relative_to_parent_pos({rpos}) -> {k1}:{v1}; "
                                f"on the {other} strand the {rpos}-th base is {seq2[rpos]}", fd.qual))
                    break
                if k2 != "ok" or (not overlapping and v2 != rpos) or (overlapping and not (isinstance(v2, int) and 0 <= v2 < L and seq2[v2] == seq2[rpos])):
                    out.append((f"{how} after history", f"{desc}: after its blocks were listed, .{how}().parent_to_relative_pos({seq2[rpos]}) -> {k2}:{v2}; "
                                f"expected {rpos}", fd.qual))
                    break
    # parent interval -> relative location (non-overlapping layouts; query = single interval)
    if not overlapping and L > 0:
        for qs in range(lo, hi):
            for qe in range(qs + 1, hi + 1):
                for qstr in ("PLUS", "MINUS"):
                    inter = [p for p in range(qs, qe) if p in seq]
                    if not inter:
                        continue
                    n += 1
                    q = it.apply(ClassTok("SingleInterval"), [qs, qe, S[qstr]], dict(kw), None, 0)
                    k, v = run(it, f_p2rl, [q], {}, loc)
                    want = sorted(seq.index(p) for p in inter)
                    if k != "ok":
                        out.append(("parent_to_relative_location", f"{desc}.parent_to_relative_location([{qs},{qe}){qstr}) raises {v}", f_p2rl.qual))
                        continue
                    got = sorted(x for s_, e_ in blocks_of(v) for x in range(s_, e_))
                    gs = strand_of(v).name if strand_of(v) is not None else None
                    if got != want or gs != _rel_compose(qstr, strand_name):
                        out.append(("parent_to_relative_location", f"{desc}.parent_to_relative_location([{qs},{qe}){qstr}) -> {blocks_of(v)}:{gs}; point-wise map gives {want} on strand {_rel_compose(qstr, strand_name)}", f_p2rl.qual))
    return n, out


_W = {}


def _layouts(nblocks, mode):
    syms = []
    for i in range(nblocks):
        syms += [f"s{i}", f"e{i}"]
    cons = [(lambda i: (lambda e: e[f"s{i}"] <= e[f"e{i}"]))(i) for i in range(nblocks)]
    cons += [(lambda i: (lambda e: (e[f"s{i}"], e[f"e{i}"]) <= (e[f"s{i+1}"], e[f"e{i+1}"])))(i) for i in range(nblocks - 1)]
    seen = set()
    for env in orderings(syms, cons, spread=1):
        vals = _layout_values(env, mode)
        layout = tuple((vals[f"s{i}"], vals[f"e{i}"]) for i in range(nblocks))
        if layout not in seen:
            seen.add(layout)
            yield layout


def r3_maps(ctx):
    r = ctx.r
    repo = ctx.repo
    specs = []
    for nb in ([1, 2, 3] if ctx.thorough else [1, 2]):
        for mode in (("tri", "uniform") if ctx.thorough and nb < 3 else ("tri",)):
            for layout in _layouts(nb, mode):
                for sn in ("PLUS", "MINUS"):
                    specs.append((layout, sn, False))
                    if nb == 2 and mode == "tri" and max(e for _, e in layout) <= len(PRE_GENOME):
                        specs.append((layout, sn, True))
    r.floor("C01.R3", "block layouts x strands", len(specs), 24)

    def work(spec):
        if _W.get("repo") is not repo:
            from ..genekernel import gene_interp
            _W["it"] = gene_interp(repo, max_steps=10 ** 12)
            _W["repo"] = repo
        it = _W["it"]
        try:
            return _maps_on_layout(repo, it, strands(it), list(spec[0]), spec[1], spec[2])
        except Uninterpretable as ex:
            return 0, [("uninterpretable", str(ex), f"{LOC}:CompoundInterval.relative_to_parent_pos")]

    results = pmap(work, specs)
    n = sum(x[0] for x in results)
    r.count(n)
    first = {}
    for _, outs in results:
        for key, msg, q in outs:
            first.setdefault((q, key), msg)
    if any(k[1] == "uninterpretable" for k in first):
        raise AnalysisError("C01.R3: " + [m for k, m in first.items() if k[1] == "uninterpretable"][0])
    for (q, key), msg in sorted(first.items()):
        r.violation("C01.R3", q, key, msg, repo.where(q))
    if not first:
        for cls in ("SingleInterval", "CompoundInterval"):
            for m in ("parent_to_relative_pos", "relative_to_parent_pos", "relative_interval_to_parent_location"):
                fn = repo.fn(f"{LOC}:{cls}.{m}")
                r.ok("C01.R3", fn.qual, "all order types of the block layout x strands x arguments", fn,
                     f"{n} interpreted evaluations in total")
        fn = repo.fn("location.location:Location.parent_to_relative_location")
        r.ok("C01.R3", fn.qual, "every overlapping single-block query on non-overlapping layouts", fn)


# ---------------------------------------------------------------------------------------------------------
# R5: relative-location form with multi-block queries (and windows)
# ---------------------------------------------------------------------------------------------------------
R5_REFS_QUICK = [[(1, 2), (5, 7)], [(1, 3), (4, 5), (7, 9)]]
R5_REFS_THOROUGH = [[(2, 9)], [(1, 3), (3, 5), (8, 9)], [(1, 2), (4, 5), (7, 8), (10, 11)]]


def _runs(positions):
    out = []
    for p in positions:
        if out and out[-1][1] == p:
            out[-1][1] = p + 1
        else:
            out.append([p, p + 1])
    return [tuple(x) for x in out]


def _relloc_case(repo, it, S, spec):
    ref, rstr, qstr, part, parts, thorough = spec
    out = []
    n = 0
    mk = lambda lay, sn: (mk_single(it, lay[0][0], lay[0][1], S[sn]) if len(lay) == 1 else  # noqa: E731
                          mk_compound(it, [b[0] for b in lay], [b[1] for b in lay], S[sn]))
    loc = mk(ref, rstr)
    seq = enum_positions(ref, rstr)
    lo, hi = ref[0][0] - 1, ref[-1][1] + 1
    f_p2rl = repo.fn("location.location:Location.parent_to_relative_location")
    f_lrt = repo.fn("location.location:Location.location_relative_to")
    want_strand = _rel_compose(qstr, rstr)
    universe = list(range(lo, hi))
    for mask in range(1 + part, 1 << len(universe), parts):
        qpos = [universe[i] for i in range(len(universe)) if mask >> i & 1]
        qlay = _runs(qpos)
        if len(qlay) > 3:
            continue
        inter = [p for p in qpos if p in seq]
        want = sorted(seq.index(p) for p in inter)
        q = mk(qlay, qstr)
        for opt in (True, False):
            calls = []
            # quick tier: each entry point with one value of optimize_blocks (alternating with the query), thorough: both
            if thorough or opt == bool(mask & 1):
                calls.append(("parent_to_relative_location",) + run(it, f_p2rl, [q], {"optimize_blocks": opt}, loc))
            if thorough or opt != bool(mask & 1):
                calls.append(("location_relative_to",) + run(it, f_lrt, [loc], {"optimize_blocks": opt}, q))
            n += len(calls)
            desc = f"reference {ref}:{rstr}, query {qlay}:{qstr}, optimize_blocks={opt}"
            for name, k, v in calls:
                cq = f"{LOC}:{'Compound' if len(qlay) > 1 else 'Single'}Interval._location_relative_to"
                if not inter:
                    # the locations must overlap: refusal (or an empty result) is the documented behaviour
                    if k == "ok" and not is_empty_obj(v) and sum(e - s_ for s_, e in blocks_of(v)):
                        out.append((f"{name} without overlap", f"{desc}: returns {blocks_of(v)} although no base is shared", cq))
                    continue
                if k != "ok":
                    out.append((f"{name} raises", f"{desc}: raises {v}; the shared bases have relative positions {want}", cq))
                    continue
                got = sorted(x for s_, e_ in blocks_of(v) for x in range(s_, e_))
                gs = strand_of(v).name if strand_of(v) is not None else None
                if got != want:
                    out.append((f"{name} bases", f"{desc}: -> {blocks_of(v)} = relative positions {got}; point-wise the shared bases "
                                f"map to {want}", cq))
                elif gs != want_strand:
                    out.append((f"{name} strand", f"{desc}: result strand {gs}; composing {qstr} with {rstr} gives {want_strand}", cq))
                elif opt and any(b1[1] >= b2[0] for b1, b2 in zip(blocks_of(v), blocks_of(v)[1:])):
                    out.append((f"{name} optimized", f"{desc}: -> {blocks_of(v)} keeps adjacent / overlapping blocks", cq))
    # windows: scan_windows yields, in 5'->3' order, the sub-locations of consecutive relative windows
    f_sw = repo.fn("location.location:Location.scan_windows")
    L = len(seq)
    if qstr == "PLUS" and part == 0:
        for w in range(1, L + 1):
            for step in (1, 2):
                for start in range(0, L):
                    n += 1
                    k, v = run(it, f_sw, [w, step, start], {}, loc)
                    if k == "ok":
                        try:
                            v = list(it.iterate(v))
                        except Raised as ex:
                            k, v = "raise", ex.exc_name
                    if start + w > L:
                        if k != "raise":
                            out.append(("scan_windows range", f"{ref}:{rstr}.scan_windows({w},{step},{start}) does not reject a first window "
                                        f"past the end (length {L})", f_sw.qual))
                        continue
                    wantw = [seq[a:a + w] for a in range(start, L - w + 1, step)]
                    if k != "ok":
                        out.append(("scan_windows", f"{ref}:{rstr}.scan_windows({w},{step},{start}) raises {v}", f_sw.qual))
                        continue
                    gotw = [enum_positions(blocks_of(x), strand_of(x).name) for x in v]
                    if gotw != wantw:
                        out.append(("scan_windows", f"{ref}:{rstr}.scan_windows({w},{step},{start}) yields windows over parent bases {gotw}; "
                                    f"the consecutive relative windows are {wantw}", f_sw.qual))
    return n, out


def r5_relative_location(ctx):
    repo = ctx.repo
    refs = R5_REFS_QUICK + (R5_REFS_THOROUGH if ctx.thorough else [])
    parts = 8
    specs = [(ref, rs, qs, i, parts, ctx.thorough) for ref in refs for rs in ("PLUS", "MINUS") for qs in ("PLUS", "MINUS")
             for i in range(parts) if ctx.thorough or len(ref) < 3 or rs != qs]

    def work(spec):
        if _W.get("repo") is not repo:
            from ..genekernel import gene_interp
            _W["it"] = gene_interp(repo, max_steps=10 ** 12)
            _W["repo"] = repo
        it = _W["it"]
        try:
            return _relloc_case(repo, it, strands(it), spec)
        except Uninterpretable as ex:
            return 0, [("uninterpretable", str(ex), "location.location:Location.location_relative_to")]

    results = pmap(work, specs, min_items=2)
    from .c05 import _report
    _report(ctx, "C01.R5", results, [
        ("location.location:Location.location_relative_to", "every query of 1..3 blocks over the reference's span (+1 on each side)"),
        ("location.location:Location.parent_to_relative_location", "mirror entry point gives the same relative bases"),
        (f"{LOC}:CompoundInterval._location_relative_to", "multi-block queries"),
        (f"{LOC}:SingleInterval._location_relative_to", "single-block queries"),
        ("location.location:Location.scan_windows", "windows are the consecutive relative sub-intervals, 5'->3'")])
    ctx.r.floor("C01.R5", "relative-location evaluations", sum(x[0] for x in results), 3000)


def r4_wrappers(ctx):
    """feature-level wrappers: decided by interpreting every `<src>_(pos|interval)_to_<dst>` method of a feature over its
    whole small domain on parent-less and offset-chunk features (C06.RW kernel); the structural wiring table then only adds
    the all-inputs argument (strengthening, never alarms)"""
    from .c06 import rw_wrappers, wrapper_table_check
    rw_wrappers(ctx, "C01.R4", classes=("FeatureInterval",))
    ctx.r.soften("C01.R4s")
    try:
        wrapper_table_check(ctx, "C01.R4s", only={"sequence_pos_to_feature", "feature_pos_to_sequence",
                                                  "sequence_interval_to_feature", "feature_interval_to_sequence"})
    except Exception as ex:  # the strengthening part never fails the run
        ctx.r.note(f"C01.R4s (strengthening not claimed): {type(ex).__name__}: {ex}")


RULES = [
    ("C01.R1", r1_affine),
    ("C01.R3", r3_maps),
    ("C01.R4", r4_wrappers),
    ("C01.R5", r5_relative_location),
]

def r6i_identity(ctx):
    """locations on equal parents are comparable whether or not the two Parent objects are the same object (the constructor cache
    holds 1000 entries; an equal parent built later, or spelled with its keyword arguments in another order, is another object):
    no identity comparison between Parent / Location / Sequence values outside an equality fast path (shared with C10.R6)"""
    from .c10 import r6_identity
    r6_identity(ctx, rule="C01.R6i")


RULES.append(("C01.R6i", r6i_identity))
