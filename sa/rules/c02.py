"""C02 - Location set algebra = position-set semantics; results well-formed.

R1  order-type enumeration (E3) of the public set operations on single-block operands (and, thorough, on
    two-/three-block operands): outcome compared with the position-set oracle on every order type.
R1c compound normalisation kernels (optimize/combine/overlap/contiguity/gaps/sort).
R2  well-formedness by construction: Location fields are written only by the constructors (+ named memo fields).
R3  flags are honoured: match_strand / full_span / strict_parent_compare forwarded to delegated calls.
R3b result strand of intersection/minus is this location's strand.
R4  _EmptyLocation identities."""
import ast

from ..astutil import (bind_args, body_nodes, call_name, call_receiver, call_tail, calls_in, dotted, src, walk_shallow,
                       Facts, fact_atoms)
from ..interp import Raised, Uninterpretable, comparison_only, ClassTok, Obj, with_cgranges
from ..par import pmap
from ..lockernel import (blocks_of, is_empty_obj, loc_interp, mk_compound, mk_single, multiset, orderings, positions,
                         run, strand_of, strands, well_formed)

EXPLANATION = (
    "R1: SingleInterval/CompoundInterval set operations (has_overlap, intersection, union, minus, contains, compare, "
    "optimize_*, gap_list, is_overlapping, is_contiguous, merge_overlapping) are interpreted by the analyser on a "
    "representative of every weak ordering of their integer inputs (class invariants start<=end, sorted blocks), "
    "for every strand pair and flag combination, and compared with the position-set oracle; for kernels that touch "
    "their inputs only through comparisons this decides them for all integers. R2: no write to a Location field "
    "outside the constructors and named memo accessors. R3/R3b: flag forwarding and result-strand discipline at "
    "every delegation site. R4: _EmptyLocation method table. R5-R7: derived operations, three-block receivers / distance, and the optional cgranges "
    "branch through a native model of the index. Not decided: arbitrary numbers of blocks; the real cgranges library."
)

LOC = "location.location_impl"


def _strand_pairs(S, full):
    names = ["PLUS", "MINUS", "UNSTRANDED"]
    if full:
        return [(S[a], S[b]) for a in names for b in names]
    return [(S["PLUS"], S["PLUS"]), (S["PLUS"], S["MINUS"]), (S["MINUS"], S["MINUS"]), (S["MINUS"], S["PLUS"]),
            (S["PLUS"], S["UNSTRANDED"]), (S["UNSTRANDED"], S["UNSTRANDED"])]


def _describe(o):
    if is_empty_obj(o):
        return "EmptyLocation"
    if isinstance(o, Obj):
        return f"{o.cls_name}{blocks_of(o)}:{strand_of(o)}"
    return repr(o)


def _build(it, S, spec):
    kind, env, san, sbn = spec
    sa, sb = S[san], S[sbn]
    if kind == "ss":
        a = mk_single(it, env["as"], env["ae"], sa)
        b = mk_single(it, env["bs"], env["be"], sb)
    elif kind == "cs":
        a = mk_compound(it, [env["s0"], env["s1"]], [env["e0"], env["e1"]], sa)
        b = mk_single(it, env["bs"], env["be"], sb)
    elif kind == "sc":
        a = mk_single(it, env["bs"], env["be"], sa)
        b = mk_compound(it, [env["s0"], env["s1"]], [env["e0"], env["e1"]], sb)
    elif kind == "cc":
        a = mk_compound(it, [env["s0"], env["s1"]], [env["e0"], env["e1"]], sa)
        b = mk_compound(it, [env["t0"], env["t1"]], [env["f0"], env["f1"]], sb)
    elif kind in ("lay", "dist"):
        mk = lambda lay, st: (mk_single(it, lay[0][0], lay[0][1], st) if len(lay) == 1 else  # noqa: E731
                              mk_compound(it, [x[0] for x in lay], [x[1] for x in lay], st))
        a, b = mk(env[0], sa), mk(env[1], sb)
    else:
        raise ValueError(kind)
    return a, b, f"a={_describe(a)} b={_describe(b)}"


def _span(o):
    bl = blocks_of(o)
    return set(range(bl[0][0], bl[-1][1])) if bl else set()


def _ops_on_case(repo, it, S, acls, spec):
    """runs every public set operation with every flag combination on one abstract input;
    returns (n_evaluations, [(op, message, function qualname)])"""
    out = []
    n = 0

    def bad(op, msg, fn):
        out.append((op, msg, fn.qual))

    f_overlap = repo.fn(f"{LOC}:{acls}.has_overlap")
    f_inter = repo.fn(f"{LOC}:{acls}.intersection")
    f_union = repo.fn(f"{LOC}:{acls}.union")
    f_minus = repo.fn(f"{LOC}:{acls}.minus")
    f_contains = repo.fn("location.location:Location.contains")
    try:
        a, b, desc = _build(it, S, spec)
    except Raised as ex:
        return 1, [("construct", f"constructing operands for {spec} raises {ex.exc_name}", f"{LOC}:{acls}.__init__")]
    A, B = positions(a), positions(b)
    sa, sb = strand_of(a), strand_of(b)
    a_over = any(v > 1 for v in multiset(a).values())
    b_over = any(v > 1 for v in multiset(b).values())
    # normal-form demands (EmptyLocation for an empty result) are made only for operands without 0-length blocks
    clean = all(e > s_ for s_, e in blocks_of(a) + blocks_of(b))
    for ms in (False, True) if spec[0] != "dist" else ():
        strand_ok = (not ms) or sa == sb
        for fs in (False, True):
            n += 1
            XA, XB = (_span(a), _span(b)) if fs else (A, B)
            want = bool(XA & XB) and strand_ok
            k, v = run(it, f_overlap, [b, ms, fs], {}, a)
            if k != "ok" or bool(v) != want:
                bad("has_overlap", f"{desc} match_strand={ms} full_span={fs}: has_overlap -> {k}:{v}, position sets say {want}", f_overlap)
            n += 1
            k, v = run(it, f_inter, [b], {"match_strand": ms, "full_span": fs}, a)
            wantset = (XA & XB) if strand_ok else set()
            if k != "ok":
                bad("intersection", f"{desc} match_strand={ms} full_span={fs}: intersection raises {v}", f_inter)
            else:
                got = positions(v)
                if got != wantset:
                    bad("intersection", f"{desc} match_strand={ms} full_span={fs}: intersection -> {_describe(v)}, expected positions {sorted(wantset)}", f_inter)
                elif not wantset and not is_empty_obj(v) and clean:
                    bad("intersection", f"{desc} match_strand={ms} full_span={fs}: empty intersection returned as {_describe(v)} instead of EmptyLocation", f_inter)
                elif wantset and strand_of(v) != sa:
                    bad("intersection strand", f"{desc} match_strand={ms}: intersection has strand {strand_of(v)}, this location is {sa}", f_inter)
                elif well_formed(v):
                    bad("intersection form", f"{desc}: intersection result ill-formed: {well_formed(v)}", f_inter)
            n += 1
            if not (a_over or b_over):
                k, v = run(it, f_contains, [b, ms, fs], {}, a)
                want_c = bool(XA & XB) and strand_ok and XB <= XA
                if k != "ok" or bool(v) != want_c:
                    bad("contains", f"{desc} match_strand={ms} full_span={fs}: contains -> {k}:{v}, position sets say {want_c}", f_contains)
        n += 1
        if not b_over and not a_over:
            k, v = run(it, f_minus, [b], {"match_strand": ms}, a)
            wantset = (A - B) if strand_ok else A
            if k != "ok":
                bad("minus", f"{desc} match_strand={ms}: minus raises {v}", f_minus)
            else:
                got = positions(v)
                if got != wantset:
                    bad("minus", f"{desc} match_strand={ms}: minus -> {_describe(v)}, expected positions {sorted(wantset)}", f_minus)
                elif wantset and strand_of(v) != sa:
                    bad("minus strand", f"{desc}: minus result has strand {strand_of(v)}, this location is {sa}", f_minus)
                elif well_formed(v):
                    bad("minus form", f"{desc}: minus result ill-formed: {well_formed(v)}", f_minus)
                elif not wantset and A and clean and not is_empty_obj(v):
                    bad("minus", f"{desc}: empty difference returned as {_describe(v)} instead of EmptyLocation", f_minus)
    if spec[0] == "dist":
        spec = ("lay",) + tuple(spec[1:])
        dist_only = True
    else:
        dist_only = False
    if spec[0] == "lay":
        # closest-block distance, both receiver orders (symmetric by definition)
        f_da = repo.fn(f"{LOC}:{acls}.distance_to")
        f_db = repo.fn(f"{LOC}:{b.cls_name}.distance_to")
        want_d = min((0 if max(s1, s2) < min(e1, e2) else min(abs(s1 - e2), abs(e1 - s2)))
                     for s1, e1 in blocks_of(a) for s2, e2 in blocks_of(b))
        for f, x, y, nm in ((f_da, a, b, "a.distance_to(b)"), (f_db, b, a, "b.distance_to(a)")):
            n += 1
            k, v = run(it, f, [y], {}, x)
            if k != "ok" or v != want_d:
                bad("distance_to", f"{desc}: {nm} -> {k}:{v}; the closest pair of blocks is {want_d} apart", f)
        if dist_only:
            return n, out
    n += 1
    k, v = run(it, f_union, [b], {}, a)
    if sa != sb:
        if not (k == "raise" and v == "ValueError"):
            bad("union", f"{desc}: union of different strands -> {k}:{_describe(v) if k == 'ok' else v}, documented ValueError", f_union)
    elif k != "ok":
        bad("union", f"{desc}: union raises {v}", f_union)
    else:
        if positions(v) != (A | B):
            bad("union", f"{desc}: union -> {_describe(v)}, expected positions {sorted(A | B)}", f_union)
        elif strand_of(v) != sa and (A | B):
            bad("union strand", f"{desc}: union strand {strand_of(v)}", f_union)
        elif well_formed(v):
            bad("union form", f"{desc}: union result ill-formed: {well_formed(v)}", f_union)
        elif not a_over and not b_over and any(c > 1 for c in multiset(v).values()):
            bad("union form", f"{desc}: union of non-overlapping operands has overlapping blocks {_describe(v)}", f_union)
    return n, out


_W = {}


def _check_ops(ctx, rule, specs, acls, quals, cg=False):
    """specs: list of (kind, env, strand-a name, strand-b name).  Every public op x every flag combination.
    cg=True: the library's optional cgranges branches are followed through the analyser's native interval-index model."""
    r = ctx.r
    repo = ctx.repo
    slot = "it_cg" if cg else "it"

    def work(spec):
        if slot not in _W or _W.get("repo") is not repo:
            _W.pop("it", None)
            _W.pop("it_cg", None)
            _W["repo"] = repo
        if slot not in _W:
            _W[slot] = with_cgranges(loc_interp(repo, max_steps=10 ** 12)) if cg else loc_interp(repo, max_steps=10 ** 12)
        it = _W[slot]
        try:
            return _ops_on_case(repo, it, strands(it), acls, spec)
        except Uninterpretable as ex:
            return 0, [("uninterpretable", str(ex), f"{LOC}:{acls}.has_overlap")]

    results = pmap(work, specs)
    n = sum(x[0] for x in results)
    first_bad = {}
    for _, outs in results:
        for op, msg, q in outs:
            first_bad.setdefault(op, (msg, q))
    r.count(n)
    if "uninterpretable" in first_bad:
        from ..model import AnalysisError
        raise AnalysisError(f"{rule}: {first_bad['uninterpretable'][0]}")
    for op, (msg, q) in sorted(first_bad.items()):
        fn = repo.where(q)
        r.violation(rule, q, f"{quals}: {op}", msg, fn)
    if not first_bad:
        for nm in ("has_overlap", "intersection", "union", "minus"):
            fn = repo.fn(f"{LOC}:{acls}.{nm}")
            r.ok(rule, fn.qual, f"{quals}: {nm}", fn, f"{n} interpreted evaluations over all order types")
        fn = repo.fn("location.location:Location.contains")
        r.ok(rule, fn.qual, f"{quals}: contains", fn)


def r1_single_single(ctx):
    it = loc_interp(ctx.repo)
    S = strands(it)
    specs = []
    cons = [lambda e: e["as"] <= e["ae"], lambda e: e["bs"] <= e["be"]]
    nord = 0
    for env in orderings(["as", "ae", "bs", "be"], cons):
        nord += 1
        for sa, sb in _strand_pairs(S, ctx.thorough):
            specs.append(("ss", env, sa.name, sb.name))
    ctx.r.floor("C02.R1", "order types of (a.s,a.e,b.s,b.e) under the invariants", nord, 20)
    _check_ops(ctx, "C02.R1", specs, "SingleInterval", "single x single")
    # comparison-only side condition for the comparison kernels (makes the enumeration a proof for all integers)
    for q in ("SingleInterval._has_overlap_single_interval", "SingleInterval._intersection_single_interval",
              "SingleInterval._union_single_interval"):
        f = ctx.repo.fn_opt(f"{LOC}:{q}")
        if f is None:
            ctx.r.note(f"C02.R1: private kernel {q} not found under that name; agreement shown on representatives only")
            continue
        off = comparison_only(f.node, lambda d: d in ("self.start", "self.end", "other.start", "other.end"))
        if off:
            ctx.r.note(f"C02.R1: {f.qual} is not comparison-only ({off}); agreement shown on representatives only")
        else:
            ctx.r.ok("C02.R1", f.qual, "comparison-only side condition", f, "order-type enumeration is exhaustive for all integers")


def r1_compare(ctx):
    it = loc_interp(ctx.repo)
    S = strands(it)
    f = ctx.repo.fn(f"{LOC}:SingleInterval.compare")
    lt = ctx.repo.fn(f"{LOC}:SingleInterval.__lt__")
    order = {"PLUS": 1, "MINUS": 2, "UNSTRANDED": 3}
    bad = None
    n = 0
    for env in orderings(["as", "ae", "bs", "be"], [lambda e: e["as"] <= e["ae"], lambda e: e["bs"] <= e["be"]]):
        for sa in S.values():
            for sb in S.values():
                n += 1
                a, b = mk_single(it, env["as"], env["ae"], sa), mk_single(it, env["bs"], env["be"], sb)
                ka, kb = (env["as"], env["ae"], order[sa.name]), (env["bs"], env["be"], order[sb.name])
                want = (ka > kb) - (ka < kb)
                k, v = run(it, f, [b], {}, a)
                got = getattr(v, "value", v) if k == "ok" else None
                k2, v2 = run(it, lt, [b], {}, a)
                if k != "ok" or got != want or k2 != "ok" or bool(v2) != (want < 0):
                    bad = bad or f"compare({ka},{kb}) -> {k}:{v}, __lt__ -> {k2}:{v2}; lexicographic order says {want}"
    ctx.r.count(n)
    ctx.r.check(bad is None, "C02.R1", f.qual, "lexicographic (start, end, strand) order", bad or "", f,
                f"{n} interpreted evaluations")


def _two_block_cases(it, S, thorough, nblocks=2):
    """(compound, description) for every order type of nblocks blocks (sorted by start, start<=end)"""
    syms = []
    for i in range(nblocks):
        syms += [f"s{i}", f"e{i}"]
    cons = [(lambda i: (lambda e: e[f"s{i}"] <= e[f"e{i}"]))(i) for i in range(nblocks)]
    cons += [(lambda i: (lambda e: e[f"s{i}"] <= e[f"s{i+1}"]))(i) for i in range(nblocks - 1)]
    for env in orderings(syms, cons):
        yield env


def r1c_compound_kernels(ctx):
    """normalisation kernels of CompoundInterval on all order types of 2 (quick) / 3 (thorough) blocks"""
    r = ctx.r
    it = loc_interp(ctx.repo, max_steps=200_000_000)
    S = strands(it)
    f_opt = ctx.repo.fn(f"{LOC}:CompoundInterval.optimize_blocks")
    f_comb = ctx.repo.fn(f"{LOC}:CompoundInterval.optimize_and_combine_blocks")
    f_isov = ctx.repo.fn(f"{LOC}:CompoundInterval.is_overlapping")
    f_cont = ctx.repo.fn(f"{LOC}:CompoundInterval.is_contiguous")
    f_gap = ctx.repo.fn(f"{LOC}:CompoundInterval.gap_list")
    f_merge = ctx.repo.fn(f"{LOC}:CompoundInterval.merge_overlapping")
    f_init = ctx.repo.fn(f"{LOC}:CompoundInterval.__init__")
    first_bad = {}
    n = 0

    def bad(key, fn, msg):
        first_bad.setdefault(key, (fn, msg))

    # metric coincidences that no order type pins down: blocks whose summed lengths equal the span although a gap is left (the
    # overlap is as long as the gap), equal blocks repeated, a one-base gap between long blocks
    designed = [((0, 10), (5, 15), (20, 25)), ((0, 1), (0, 1), (2, 3)), ((0, 4), (2, 6), (8, 10)), ((3, 9), (3, 9), (15, 21)),
                ((0, 6), (2, 4), (8, 10)), ((0, 2), (1, 3), (2, 4), (5, 6)), ((0, 30), (31, 60))]

    def all_cases():
        for nb_ in ([2, 3] if ctx.thorough else [2]):
            for env_ in _two_block_cases(it, S, ctx.thorough, nb_):
                yield nb_, env_
        for lay_ in designed:
            yield len(lay_), {k_: v_ for i_, (s_, e_) in enumerate(lay_) for k_, v_ in ((f"s{i_}", s_), (f"e{i_}", e_))}

    for nb, env in all_cases():
        if True:
            bl = [(env[f"s{i}"], env[f"e{i}"]) for i in range(nb)]
            for st in (S["PLUS"], S["MINUS"]):
                # constructor: blocks given in reverse order must come out sorted
                n += 1
                try:
                    c = mk_compound(it, [b[0] for b in reversed(bl)], [b[1] for b in reversed(bl)], st)
                except Raised as ex:
                    bad("init", f_init, f"CompoundInterval({bl}) raises {ex.exc_name}")
                    continue
                wf = well_formed(c)
                if wf or sorted(blocks_of(c)) != sorted(bl):
                    bad("init", f_init, f"CompoundInterval built from {list(reversed(bl))}: {wf or _describe(c)}")
                    continue
                M = multiset(c)
                P = set(M)
                nonempty = [b for b in bl if b[1] > b[0]]
                # is_overlapping / is_contiguous against their set meaning
                n += 2
                k, v = run(it, f_isov, [], {}, c)
                stored = blocks_of(c)
                want_ov = any(stored[i][1] > stored[i + 1][0] for i in range(len(stored) - 1))
                if k != "ok" or bool(v) != want_ov:
                    bad("is_overlapping", f_isov, f"{_describe(c)}: is_overlapping -> {k}:{v}, expected {want_ov}")
                k, v = run(it, f_cont, [], {}, c)
                want_ct = all(stored[i][1] == stored[i + 1][0] for i in range(len(stored) - 1))
                if k != "ok" or bool(v) != want_ct:
                    bad("is_contiguous", f_cont, f"{_describe(c)}: is_contiguous -> {k}:{v}, expected {want_ct}")
                # optimize_blocks: coverage multiset preserved, no empty block, no adjacent blocks left
                n += 1
                k, v = run(it, f_opt, [], {}, c)
                if k != "ok":
                    bad("optimize_blocks", f_opt, f"{_describe(c)}: optimize_blocks raises {v}")
                else:
                    ob = blocks_of(v)
                    msg = well_formed(v)
                    if multiset(v) != M:
                        msg = f"coverage changed: {_describe(v)}"
                    elif any(e == s for s, e in ob):
                        msg = f"empty block kept: {_describe(v)}"
                    elif any(ob[i][1] == ob[i + 1][0] for i in range(len(ob) - 1)):
                        msg = f"adjacent blocks not merged: {_describe(v)}"
                    elif not P and not is_empty_obj(v):
                        msg = f"all-empty location not normalised to EmptyLocation: {_describe(v)}"
                    elif len(ob) == 1 and v.cls_name != "SingleInterval":
                        msg = f"one block not converted to SingleInterval: {_describe(v)}"
                    elif P and strand_of(v) != st:
                        msg = f"strand changed to {strand_of(v)}"
                    if msg:
                        bad("optimize_blocks", f_opt, f"{_describe(c)}: {msg}")
                # optimize_and_combine_blocks: position set preserved, blocks disjoint and non-adjacent
                n += 1
                k, v = run(it, f_comb, [], {}, c)
                if k != "ok":
                    bad("optimize_and_combine_blocks", f_comb, f"{_describe(c)}: raises {v}")
                else:
                    ob = blocks_of(v)
                    msg = well_formed(v)
                    if positions(v) != P:
                        msg = f"position set changed: {_describe(v)}"
                    elif any(e == s for s, e in ob):
                        msg = f"empty block kept: {_describe(v)}"
                    elif any(ob[i][1] >= ob[i + 1][0] for i in range(len(ob) - 1)):
                        msg = f"overlapping/adjacent blocks left: {_describe(v)}"
                    elif not P and not is_empty_obj(v):
                        msg = f"all-empty location not normalised to EmptyLocation: {_describe(v)}"
                    elif len(ob) == 1 and v.cls_name != "SingleInterval":
                        msg = f"one block not converted to SingleInterval: {_describe(v)}"
                    elif P and strand_of(v) != st:
                        msg = f"strand changed to {strand_of(v)}"
                    if msg:
                        bad("optimize_and_combine_blocks", f_comb, f"{_describe(c)}: {msg}")
                # gap_list: span minus positions (only when there is something to span)
                if P:
                    n += 1
                    k, v = run(it, f_gap, [], {}, c)
                    if k != "ok":
                        bad("gap_list", f_gap, f"{_describe(c)}: gap_list raises {v}")
                    else:
                        gp = set()
                        for g in v:
                            gp |= positions(g)
                        want = set(range(min(P), max(P) + 1)) - P
                        if gp != want or any(well_formed(g) for g in v) or any(strand_of(g) != st for g in v):
                            bad("gap_list", f_gap, f"{_describe(c)}: gaps {[_describe(g) for g in v]}, expected positions {sorted(want)}")
                # merge_overlapping: position set preserved, no overlaps remain
                if all(e > s for s, e in bl):
                    n += 1
                    k, v = run(it, f_merge, [], {}, c)
                    if k != "ok":
                        bad("merge_overlapping", f_merge, f"{_describe(c)}: raises {v}")
                    elif positions(v) != P or any(x > 1 for x in multiset(v).values()) or well_formed(v):
                        bad("merge_overlapping", f_merge, f"{_describe(c)}: -> {_describe(v)}")
    # the same structural questions on a one-block location (non-empty and zero-length), both strands
    for (a_, b_) in ((2, 7), (4, 4)):
        for st in (S["PLUS"], S["MINUS"]):
            si = mk_single(it, a_, b_, st)
            for attr, want in (("is_overlapping", False), ("is_contiguous", True), ("num_blocks", 1)):
                fs_ = ctx.repo.fn(f"{LOC}:SingleInterval.{attr}")
                n += 1
                k, v = run(it, fs_, [], {}, si)
                if k != "ok" or v != want or type(v) is not type(want):
                    bad(f"SingleInterval.{attr}", fs_, f"SingleInterval({a_},{b_},{st.name}).{attr} -> {k}:{v!r}, expected {want!r}")
    r.count(n)
    for key, (fn, msg) in first_bad.items():
        r.violation("C02.R1c", fn.qual, key, msg, fn)
    if not first_bad:
        for fn in (f_init, f_isov, f_cont, f_opt, f_comb, f_gap, f_merge):
            r.ok("C02.R1c", fn.qual, "all order types of 2 (thorough: 3) blocks x strands", fn, f"{n} interpreted evaluations")
    # side condition for the merge predicate
    cb = ctx.repo.fn_opt(f"{LOC}:CompoundInterval._combine_blocks")
    off = comparison_only(cb.node, lambda d: d in ("block_start", "block_end", "curr_start", "curr_end", "next_start", "next_end")) if cb else None
    if off and "block_end - block_start" not in off:
        r.note(f"C02.R1c: _combine_blocks not comparison-only: {off}")


def r1b_compound_single(ctx):
    """two-block compound x single (6 symbols) - both receiver orders"""
    it = loc_interp(ctx.repo)
    S = strands(it)
    cons = [lambda e: e["s0"] <= e["e0"], lambda e: e["s1"] <= e["e1"], lambda e: e["s0"] <= e["s1"],
            lambda e: e["bs"] <= e["be"]]
    pairs = [(S["PLUS"], S["PLUS"]), (S["MINUS"], S["PLUS"])]
    if ctx.thorough:
        pairs = _strand_pairs(S, False)
    cases_cs, cases_sc = [], []
    nord = 0
    for env in orderings(["s0", "e0", "s1", "e1", "bs", "be"], cons):
        nord += 1
        for sa, sb in pairs:
            cases_cs.append(("cs", env, sa.name, sb.name))
            cases_sc.append(("sc", env, sa.name, sb.name))
    ctx.r.floor("C02.R1b", "order types (2-block compound, single)", nord, 50)
    _check_ops(ctx, "C02.R1b", cases_cs, "CompoundInterval", "compound(2) x single")
    _check_ops(ctx, "C02.R1b", cases_sc, "SingleInterval", "single x compound(2)")


def r1d_compound_compound(ctx):
    """two-block x two-block, disjoint-block operands (8 symbols, thorough only)"""
    cons = [lambda e: e["s0"] < e["e0"] < e["s1"] < e["e1"], lambda e: e["t0"] < e["f0"] < e["t1"] < e["f1"]]
    cases = []
    nord = 0
    for env in orderings(["s0", "e0", "s1", "e1", "t0", "f0", "t1", "f1"], cons):
        nord += 1
        for sa, sb in ([("PLUS", "PLUS"), ("MINUS", "PLUS"), ("MINUS", "MINUS")] if ctx.thorough else [("PLUS", "PLUS")]):
            cases.append(("cc", env, sa, sb))
    ctx.r.floor("C02.R1d", "order types (2-block x 2-block)", nord, 100)
    _check_ops(ctx, "C02.R1d", cases, "CompoundInterval", "compound(2) x compound(2)")



def _run_layouts(universe, nruns):
    """all sets of positions in range(universe) with exactly nruns maximal runs, as block lists"""
    out = []
    for mask in range(1, 1 << universe):
        blocks = []
        for p in range(universe):
            if mask >> p & 1:
                if blocks and blocks[-1][1] == p:
                    blocks[-1][1] = p + 1
                else:
                    blocks.append([p, p + 1])
        if len(blocks) == nruns:
            out.append(tuple((a + 2, b + 2) for a, b in blocks))
    return out


def r6_multi_block(ctx):
    """three-block receivers against one-/two-/three-block arguments: every pair of position sets over a small universe
    (the loops over blocks see receivers and arguments with more blocks than the order-type rules enumerate)"""
    U = 8 if ctx.thorough else 7
    three, two, one = _run_layouts(U, 3), _run_layouts(U, 2), _run_layouts(U, 1)
    args = (two + three + one) if ctx.thorough else (two[::2] + three[::4] + one[::4])
    pairs = [("PLUS", "PLUS"), ("MINUS", "MINUS"), ("MINUS", "PLUS")] if ctx.thorough else [("PLUS", "PLUS")]
    cases = [("lay", (a, b), sa, sb) for a in three for b in args for sa, sb in pairs]
    # distance needs room for a far / near / nearer arrangement: wider universe, short blocks, distance only
    W, maxlen = (10, 2) if ctx.thorough else (9, 1)
    short = lambda lays: [x for x in lays if all(e - s_ <= maxlen for s_, e in x)]  # noqa: E731
    cases += [("dist", (a, b), "PLUS", "PLUS") for a in short(_run_layouts(W, 3)) for b in short(_run_layouts(W, 2) + _run_layouts(W, 1))]
    ctx.r.floor("C02.R6", "pairs of position sets (3-block receiver)", len(cases), 1000)
    _check_ops(ctx, "C02.R6", cases, "CompoundInterval", "compound(3) x compound(1..3)")
    fn = ctx.repo.fn(f"{LOC}:CompoundInterval.distance_to")
    if not any(x.rule == "C02.R6" for x in ctx.r.findings):
        ctx.r.ok("C02.R6", fn.qual, "closest-block distance, both receiver orders", fn)


def size_thresholds(repo, module, lo=4, hi=5000):
    """integer literals that a size (len(...), num_blocks, a count) is compared with in `module`: code that switches to another
    algorithm above such a size has a regime that small layouts never enter"""
    out = set()
    m = repo.module(module)
    for node in ast.walk(m.tree):
        if isinstance(node, ast.Compare):
            sides = [node.left] + list(node.comparators)
            consts = [x.value for x in sides if isinstance(x, ast.Constant) and isinstance(x.value, int) and not isinstance(x.value, bool)]
            sized = any(isinstance(y, ast.Call) and dotted(y.func) in ("len", "sum") or isinstance(y, ast.Attribute) and y.attr in ("num_blocks", "length")
                        for x in sides for y in ast.walk(x))
            if sized:
                out |= {c for c in consts if lo <= c <= hi}
    return sorted(out)


def r9_many_blocks(ctx):
    """locations with many blocks (more than any size threshold found in the module, at least 40 per operand): the set operations
    still equal position-set semantics - an algorithm chosen by size has to give the same answers"""
    r, repo = ctx.r, ctx.repo
    it = loc_interp(repo, max_steps=10 ** 10)
    S = strands(it)
    ths = size_thresholds(repo, LOC)
    sizes = sorted({40} | {t // 2 + 2 for t in ths} | {t + 2 for t in ths if t <= 400})
    n = 0
    for nb in sizes:
        for sn in (("PLUS", "MINUS") if nb == sizes[0] else ("PLUS",)):
            A = [(10 * i, 10 * i + 6) for i in range(nb)]
            B = [(10 * i + 4, 10 * i + 9) for i in range(nb)]          # every block overlaps one of A and is adjacent to nothing
            C = [(10 * i + 6, 10 * i + 8) for i in range(nb)]          # adjacent to A's blocks, disjoint from them
            a, b, c = (mk_compound(it, [x[0] for x in L], [x[1] for x in L], S[sn]) for L in (A, B, C))
            pa, pb, pc = positions(a), positions(b), positions(c)
            both = mk_compound(it, [x[0] for x in A + B], [x[1] for x in A + B], S[sn])
            sub = mk_compound(it, [x[0] + 1 for x in A[::3]], [x[1] - 1 for x in A[::3]], S[sn])
            desc = f"{nb}-block operands on {sn}"
            checks = [
                ("union", a, [b], pa | pb, True), ("union", a, [c], pa | pc, True), ("intersection", a, [b], pa & pb, False),
                ("minus", a, [b], pa - pb, False), ("minus", b, [a], pb - pa, False), ("intersection", a, [c], set(), False),
                ("merge_overlapping", both, [], pa | pb, True), ("optimize_and_combine_blocks", both, [], pa | pb, True),
            ]
            for op, recv, args, want, merged in checks:
                n += 1
                f = repo.fn(f"{LOC}:CompoundInterval.{op}")
                k, v = run(it, f, args, {}, recv)
                got = positions(v) if k == "ok" and isinstance(v, Obj) and not is_empty_obj(v) else (set() if k == "ok" else None)
                ok = k == "ok" and got == want
                why = ""
                if ok and want and merged:
                    # a merged result has no overlapping or adjacent blocks left: its length counts every position once
                    bl = sorted(blocks_of(v))
                    if sum(e - s_ for s_, e in bl) != len(want) or any(x[1] >= y[0] for x, y in zip(bl, bl[1:])):
                        ok, why = False, f"; blocks still overlap or touch: {bl[:4]}.. (sum of block lengths {sum(e - s_ for s_, e in bl)}, positions {len(want)})"
                r.check(ok, "C02.R9", f.qual, f"{op} on many blocks",
                        f"{desc}: {op} -> {k}:{'%d positions' % len(got) if got is not None else v}; position sets give {len(want)} positions{why}", f)
            for op, recv, arg, want in (("has_overlap", a, b, True), ("has_overlap", a, c, False), ("contains", a, sub, True), ("contains", a, b, False)):
                n += 1
                f = repo.fn("location.location:Location.contains") if op == "contains" else repo.fn(f"{LOC}:CompoundInterval.{op}")
                k, v = run(it, f, [arg], {}, recv)
                r.check(k == "ok" and bool(v) is want, "C02.R9", f.qual, f"{op} on many blocks", f"{desc}: {op} -> {k}:{v}; expected {want}", f)
    r.note(f"C02.R9: size thresholds found in {LOC}: {ths}; operand sizes evaluated: {sizes}")
    r.floor("C02.R9", "many-block evaluations", n, 20)


def r7_cgranges_path(ctx):
    """the optional interval-index branch of the compound x compound intersection (taken only when the cgranges package is
    installed - it is not in this environment, so no test runs it) gives position-set answers as well: the same operand
    pairs as R6 / R1d, evaluated with HAS_CGRANGES = True through a native model of the index"""
    U = 8 if ctx.thorough else 7
    three, two, one = _run_layouts(U, 3), _run_layouts(U, 2), _run_layouts(U, 1)
    args = (two + three + one) if ctx.thorough else (two[::2] + three[::4] + one[::4])
    cases = [("lay", (a, b), sa, sb) for a in (three if ctx.thorough else three[::2]) for b in args
             for sa, sb in ([("PLUS", "PLUS"), ("MINUS", "PLUS")] if ctx.thorough else [("PLUS", "PLUS")])]
    cases += [("lay", (a, b), "PLUS", "PLUS") for a in two[::3] for b in two[1::3]]
    ctx.r.floor("C02.R7", "pairs of position sets (interval-index branch)", len(cases), 500)
    _check_ops(ctx, "C02.R7", cases, "CompoundInterval", "compound x compound through the cgranges branch", cg=True)


def r8_parents(ctx):
    """set operations on located operands: positions are shared only inside one coordinate system.  Two operands are in the
    same system when their parents agree in id, type, sequence and in their own parent *including its placement*; chunk
    parents with the same id cut from different places of the chromosome are different systems.  Position-set answers inside a
    system, no shared position (or the documented refusal under strict_parent_compare) across systems."""
    from ..genekernel import gene_interp, mk_parent, mk_sequence
    r, repo = ctx.r, ctx.repo
    it = gene_interp(repo, max_steps=10 ** 9)
    S = strands(it)
    st = it.enum("SequenceType")
    si = lambda a, b, sn="PLUS", p=None: it.apply(ClassTok("SingleInterval"), [a, b, S[sn]], {"parent": p} if p is not None else {}, None, 0)  # noqa: E731
    ci = lambda bl, sn="PLUS", p=None: it.apply(ClassTok("CompoundInterval"), [[x[0] for x in bl], [x[1] for x in bl], S[sn]],  # noqa: E731
                                                {"parent": p} if p is not None else {}, None, 0)
    chrom = lambda name: mk_parent(it, id=name, sequence_type=st["CHROMOSOME"])  # noqa: E731

    def chunk(name, a, b, cname="chr1"):
        return mk_parent(it, id=name, sequence_type=st["SEQUENCE_CHUNK"], parent=mk_parent(it, location=si(a, b, "PLUS", chrom(cname))))

    def chunk_of_chunk(a, b, a0, b0):
        inner = mk_parent(it, id="mid", sequence_type=st["SEQUENCE_CHUNK"], location=si(a, b), parent=mk_parent(it, location=si(a0, b0, "PLUS", chrom("chr1"))))
        return mk_parent(it, id="sub", sequence_type=st["SEQUENCE_CHUNK"], parent=inner)
    systems = {
        "no parent": (lambda: None),
        "chr1": (lambda: chrom("chr1")), "chr2": (lambda: chrom("chr2")),
        "chunk c at chr1:0-20": (lambda: chunk("c", 0, 20)), "chunk c at chr1:100-120": (lambda: chunk("c", 100, 120)),
        "chunk c at chr2:0-20": (lambda: chunk("c", 0, 20, "chr2")),
        "chunk of chunk (mid at chr1:0-40)": (lambda: chunk_of_chunk(5, 25, 0, 40)),
        "chunk of chunk (mid at chr1:200-240)": (lambda: chunk_of_chunk(5, 25, 200, 240)),
        # parents without an id (every documented way of giving one): sharing the id None does not make a parent-less operand comparable
        "typed parent without id": (lambda: mk_parent(it, sequence_type=st["CHROMOSOME"])),
        "sequence parent without id": (lambda: mk_parent(it, sequence=mk_sequence(it, "ACGTACGTACGTACGTACGT"))),
        # the same id with and without sequence data, and with other sequence data: three systems (a parent that carries a
        # sequence is not the bare name)
        "chr1 carrying a sequence": (lambda: mk_parent(it, id="chr1", sequence_type=st["CHROMOSOME"],
                                                         sequence=mk_sequence(it, "ACGTACGTACGTACGTACGT", id="chr1", type=st["CHROMOSOME"]))),
        "chr1 carrying another sequence": (lambda: mk_parent(it, id="chr1", sequence_type=st["CHROMOSOME"],
                                                               sequence=mk_sequence(it, "TTGTACGTACGTACGTACAA", id="chr1", type=st["CHROMOSOME"]))),
    }
    ops = [("has_overlap", {}), ("has_overlap", {"match_strand": True}), ("intersection", {}), ("minus", {}), ("contains", {})]
    n = 0
    shapes = [("single", lambda p: si(2, 9, "PLUS", p), lambda p: si(5, 12, "PLUS", p)),
              ("compound", lambda p: ci([(1, 4), (6, 10)], "PLUS", p), lambda p: ci([(3, 7), (9, 14)], "PLUS", p)),
              ("compound x single", lambda p: ci([(1, 4), (6, 10)], "PLUS", p), lambda p: si(3, 8, "PLUS", p))]
    mkb_minus = {"single": lambda p: si(5, 12, "MINUS", p), "compound": lambda p: ci([(3, 7), (9, 14)], "MINUS", p),
                 "compound x single": lambda p: si(3, 8, "MINUS", p)}
    for na, pa in systems.items():
        for nb, pb in systems.items():
            same = na == nb
            for shape, mka, mkb in shapes:
                a, b = mka(pa()), mkb(pb())
                A, B = positions(a), positions(b)
                acls = a.cls_name
                for op, kw in ops:
                    n += 1
                    f = repo.fn("location.location:Location.contains") if op == "contains" else repo.fn(f"{LOC}:{acls}.{op}")
                    k, v = run(it, f, [b], dict(kw), a)
                    desc = f"{shape}: a on [{na}], b on [{nb}]: a.{op}(b{', match_strand=True' if kw else ''})"
                    if op == "has_overlap":
                        want = bool(A & B) and same
                        ok = k == "ok" and bool(v) == want
                    elif op == "contains":
                        want = same and B <= A
                        ok = k == "ok" and bool(v) == want
                    elif op == "intersection":
                        want = (A & B) if same else set()
                        ok = k == "ok" and positions(v) == want
                    else:
                        want = (A - B) if same else A
                        ok = k == "ok" and positions(v) == want
                    r.check(ok, "C02.R8", f.qual, f"{op} {'inside one system' if same else 'across systems'} ({shape})",
                            f"{desc} -> {k}:{_describe(v) if k == 'ok' and isinstance(v, Obj) else v}; "
                            f"{'position sets give' if same else 'the operands sit in different coordinate systems: expected'} {sorted(want) if isinstance(want, set) else want}", f)
                if not same:
                    for op in ("has_overlap", "intersection", "minus"):
                        n += 1
                        f = repo.fn(f"{LOC}:{acls}.{op}")
                        k, v = run(it, f, [b], {"strict_parent_compare": True}, a)
                        r.check(k == "raise" and v in ("MismatchedParentException", "NullParentException"), "C02.R8", f.qual,
                                f"{op} strict across systems ({shape})",
                                f"{shape}: a on [{na}], b on [{nb}]: a.{op}(b, strict_parent_compare=True) -> {k}:{v if k == 'raise' else ''}; "
                                f"documented MismatchedParentException", f)
                        # two things wrong at once: the operands also differ in strand and strands must match - the parent refusal stays
                        n += 1
                        b_minus = mkb_minus[shape](pb())
                        k, v = run(it, f, [b_minus], {"strict_parent_compare": True, "match_strand": True}, a)
                        r.check(k == "raise" and v in ("MismatchedParentException", "NullParentException"), "C02.R8", f.qual,
                                f"{op} strict across systems, strands differ too ({shape})",
                                f"{shape}: a on [{na}] (+), b on [{nb}] (-): a.{op}(b, match_strand=True, strict_parent_compare=True) -> {k}:"
                                f"{v if k == 'raise' else 'answers'}; documented MismatchedParentException (the strand mismatch does not excuse the parent mismatch)", f)
            # the empty location as argument of a located receiver: nothing is shared, whatever the flags
            for shape, mka, _mkb in shapes[:2]:
                a = mka(pa())
                A = positions(a)
                for op, kw in (("has_overlap", {}), ("has_overlap", {"match_strand": True}), ("has_overlap", {"full_span": True}),
                               ("intersection", {}), ("intersection", {"match_strand": False}), ("minus", {}), ("minus", {"match_strand": False})):
                    n += 1
                    f = repo.fn(f"{LOC}:{a.cls_name}.{op}")
                    k, v = run(it, f, [it.empty], dict(kw), a)
                    if op == "has_overlap":
                        ok = k == "ok" and v is False
                    elif op == "intersection":
                        ok = k == "ok" and is_empty_obj(v)
                    else:
                        ok = k == "ok" and not is_empty_obj(v) and positions(v) == A
                    r.check(ok, "C02.R8", f.qual, f"{op}(EmptyLocation{', ' + str(kw) if kw else ''}) on a located receiver ({shape})",
                            f"{shape} on [{na}]: a.{op}(EmptyLocation(), {kw}) -> {k}:{_describe(v) if k == 'ok' and isinstance(v, Obj) else v}; "
                            f"the empty location shares nothing", f)
    r.floor("C02.R8", "located operand evaluations", n, 800)


RULES = [
    ("C02.R1", r1_single_single),
    ("C02.R1cmp", r1_compare),
    ("C02.R1c", r1c_compound_kernels),
    ("C02.R1b", r1b_compound_single),
    ("C02.R1d", r1d_compound_compound),
    ("C02.R6", r6_multi_block),
    ("C02.R7", r7_cgranges_path),
    ("C02.R8", r8_parents),
    ("C02.R9", r9_many_blocks),
]


# ---------------------------------------------------------------------------------------------------------
# R5: derived operations (extension, distance, shift, reversal, strand reset, preserve-overlap union)
# ---------------------------------------------------------------------------------------------------------

def _derived_case(repo, it, S, spec):
    kind, env, sn = spec
    out = []
    n = 0
    st = S[sn]
    base = 6  # keep room below the location for extensions
    if kind == "s":
        a = mk_single(it, base + env["as"], base + env["ae"], st)
        cls = "SingleInterval"
    else:
        a = mk_compound(it, [base + env["s0"], base + env["s1"]], [base + env["e0"], base + env["e1"]], st)
        cls = "CompoundInterval"
    A = positions(a)
    M = multiset(a)
    bl = blocks_of(a)
    desc = _describe(a)
    lo, hi = bl[0][0], bl[-1][1]
    q = lambda m: repo.fn(f"{LOC}:{cls}.{m}")  # noqa: E731

    def bad(key, msg, fn):
        out.append((key, msg, fn.qual))

    overlapping = any(v > 1 for v in M.values())
    for ea, eb in ((0, 0), (1, 0), (0, 2), (2, 3), (base + 1, 0), (-1, 1)):
        n += 1
        f = q("extend_absolute")
        k, v = run(it, f, [ea, eb], {}, a)
        if min(ea, eb) < 0:
            if not (k == "raise" and v == "ValueError"):
                bad("extend_absolute negative", f"{desc}.extend_absolute({ea},{eb}) -> {k}:{v}; documented ValueError", f)
            continue
        if lo - ea < 0:
            if not (k == "raise" and v == "InvalidPositionException"):
                bad("extend_absolute below zero", f"{desc}.extend_absolute({ea},{eb}) -> {k}:{_describe(v) if k == 'ok' else v}; documented InvalidPositionException", f)
            continue
        want = A | set(range(lo - ea, lo)) | set(range(hi, hi + eb))
        if k != "ok" or positions(v) != want or (want and strand_of(v) != st) or well_formed(v):
            bad("extend_absolute", f"{desc}.extend_absolute({ea},{eb}) -> {k}:{_describe(v) if k == 'ok' else v}; expected positions {sorted(want)}", f)
        if sn in ("PLUS", "MINUS") and (ea, eb) != (base + 1, 0):
            n += 1
            f2 = q("extend_relative")
            k, v = run(it, f2, [ea, eb], {}, a)
            up, down = (ea, eb)
            want2 = A | (set(range(lo - up, lo)) | set(range(hi, hi + down)) if sn == "PLUS" else set(range(lo - down, lo)) | set(range(hi, hi + up)))
            if lo - (up if sn == "PLUS" else down) >= 0 and (k != "ok" or positions(v) != want2):
                bad("extend_relative", f"{desc}.extend_relative({up},{down}) -> {k}:{_describe(v) if k == 'ok' else v}; upstream/downstream extension gives {sorted(want2)}", f2)
    if sn == "UNSTRANDED":
        n += 1
        k, v = run(it, q("extend_relative"), [1, 1], {}, a)
        if not (k == "raise" and v == "InvalidStrandException"):
            bad("extend_relative unstranded", f"{desc}.extend_relative(1,1) -> {k}:{v}; direction is undefined: documented InvalidStrandException", q("extend_relative"))
    for sh in (0, 3, -2, -(lo + 1)):
        n += 1
        f = q("shift_position")
        k, v = run(it, f, [sh], {}, a)
        if lo + sh < 0:
            if k != "raise":
                bad("shift_position below zero", f"{desc}.shift_position({sh}) -> {_describe(v)}; must be refused", f)
            continue
        if k != "ok" or multiset(v) != {p + sh: c for p, c in M.items()} or strand_of(v) != st:
            bad("shift_position", f"{desc}.shift_position({sh}) -> {k}:{_describe(v) if k == 'ok' else v}", f)
    # strand operations keep the blocks
    for m, want_strand in (("reverse_strand", {"PLUS": "MINUS", "MINUS": "PLUS", "UNSTRANDED": "UNSTRANDED"}[sn]), ("reset_strand", "MINUS")):
        n += 1
        f = q(m)
        k, v = run(it, f, [S["MINUS"]] if m == "reset_strand" else [], {}, a)
        if k != "ok" or multiset(v) != M or strand_of(v).name != want_strand:
            bad(m, f"{desc}.{m}() -> {k}:{_describe(v) if k == 'ok' else v}; same blocks on strand {want_strand}", f)
    n += 1
    f = q("reverse")
    k, v = run(it, f, [], {}, a)
    mirror = {lo + hi - 1 - p: c for p, c in M.items()}
    wantM = M if kind == "s" else mirror
    if k != "ok" or multiset(v) != wantM or strand_of(v).name != {"PLUS": "MINUS", "MINUS": "PLUS", "UNSTRANDED": "UNSTRANDED"}[sn]:
        bad("reverse", f"{desc}.reverse() -> {k}:{_describe(v) if k == 'ok' else v}; {'same blocks' if kind == 's' else 'blocks mirrored within the span'} on the opposite strand", f)
    if kind == "c" and A:
        n += 1
        f = q("gaps_location")
        k, v = run(it, f, [], {}, a)
        want = set(range(min(A), max(A) + 1)) - A
        got = positions(v) if k == "ok" else None
        if got != want:
            bad("gaps_location", f"{desc}.gaps_location() -> {k}:{_describe(v) if k == 'ok' else v}; span minus blocks is {sorted(want)}", f)
    # distance to a fixed second location
    DT = it.enum("DistanceType")
    for ob in ([(2, 4)], [(base + 3, base + 5)], [(base + 20, base + 22), (base + 25, base + 26)]):
        b = mk_single(it, ob[0][0], ob[0][1], st) if len(ob) == 1 else mk_compound(it, [x[0] for x in ob], [x[1] for x in ob], st)
        blo, bhi = ob[0][0], ob[-1][1]
        for dt in ("STARTS", "ENDS", "OUTER", "INNER"):
            n += 1
            f = q("distance_to")
            k, v = run(it, f, [b, DT[dt]], {}, a)
            if dt == "STARTS":
                want = abs(lo - blo)
            elif dt == "ENDS":
                want = abs(hi - bhi)
            elif dt == "OUTER":
                want = max(abs(lo - bhi), abs(hi - blo))
            else:
                nb_a = [x for x in bl]
                want = None
                for s1, e1 in nb_a:
                    for s2, e2 in ob:
                        ov = s1 < e1 and s2 < e2 and max(s1, s2) < min(e1, e2)
                        d = 0 if ov else min(abs(s1 - e2), abs(e1 - s2))
                        want = d if want is None else min(want, d)
            if k != "ok" or v != want:
                bad(f"distance_to {dt}", f"{desc}.distance_to({ob}, {dt}) -> {k}:{v}; the documented function of the end points gives {want}", f)
    return n, out


def r5_derived(ctx):
    repo = ctx.repo
    specs = []
    for env in orderings(["as", "ae"], [lambda e: e["as"] <= e["ae"]]):
        for sn in ("PLUS", "MINUS", "UNSTRANDED"):
            specs.append(("s", env, sn))
    cons = [lambda e: e["s0"] <= e["e0"], lambda e: e["s1"] <= e["e1"], lambda e: e["s0"] <= e["s1"]]
    for env in orderings(["s0", "e0", "s1", "e1"], cons):
        for sn in ("PLUS", "MINUS") if not ctx.thorough else ("PLUS", "MINUS", "UNSTRANDED"):
            specs.append(("c", env, sn))

    def work(spec):
        if "it" not in _W or _W.get("repo") is not repo:
            _W["it"] = loc_interp(repo, max_steps=10 ** 12)
            _W["repo"] = repo
        it = _W["it"]
        try:
            return _derived_case(repo, it, strands(it), spec)
        except Uninterpretable as ex:
            return 0, [("uninterpretable", str(ex), f"{LOC}:SingleInterval.extend_absolute")]

    results = pmap(work, specs)
    n = sum(x[0] for x in results)
    ctx.r.count(n)
    first = {}
    for _, outs in results:
        for key, msg, q in outs:
            first.setdefault((q, key), msg)
    if any(k[1] == "uninterpretable" for k in first):
        from ..model import AnalysisError
        raise AnalysisError("C02.R5: " + [m for k, m in first.items() if k[1] == "uninterpretable"][0])
    for (q, key), msg in sorted(first.items()):
        ctx.r.violation("C02.R5", q, key, msg, repo.where(q))
    if not first:
        for cls in ("SingleInterval", "CompoundInterval"):
            for m in ("extend_absolute", "extend_relative", "shift_position", "reverse", "reverse_strand", "reset_strand", "distance_to"):
                ctx.r.ok("C02.R5", f"{LOC}:{cls}.{m}", "derived operation on all order types", repo.fn(f"{LOC}:{cls}.{m}"), f"{n} interpreted evaluations")


def r4_empty_location(ctx):
    """_EmptyLocation identities: every set-algebra method returns an empty answer or raises EmptyLocationException"""
    r, repo = ctx.r, ctx.repo
    it = loc_interp(repo)
    S = strands(it)
    e = it.empty
    other = mk_single(it, 3, 9, S["PLUS"])
    expect = {"has_overlap": ("ok", False), "intersection": ("ok", "empty"), "minus": ("ok", "empty"), "optimize_blocks": ("ok", "empty"),
              "gap_list": ("ok", []), "gaps_location": ("ok", "empty"), "merge_overlapping": ("ok", "empty"), "reverse": ("ok", "empty"),
              "reverse_strand": ("ok", "empty"), "union": ("raise", "EmptyLocationException"), "extend_absolute": ("raise", "EmptyLocationException"),
              "shift_position": ("raise", "EmptyLocationException"), "distance_to": ("raise", "EmptyLocationException"),
              "parent_to_relative_pos": ("raise", "EmptyLocationException"), "relative_to_parent_pos": ("raise", "EmptyLocationException"),
              "extract_sequence": ("raise", "EmptyLocationException"), "reset_strand": ("raise", "EmptyLocationException"),
              # the rest of the class: nothing of an empty location has a position, a strand or a parent system
              "is_contiguous": ("raise", "EmptyLocationException"), "parent_to_relative_location": ("raise", "EmptyLocationException"),
              "relative_interval_to_parent_location": ("raise", "EmptyLocationException"), "reset_parent": ("raise", "EmptyLocationException"),
              "union_preserve_overlaps": ("raise", "EmptyLocationException"), "extend_relative": ("raise", "EmptyLocationException"),
              "to_biopython": ("raise", "EmptyLocationException"), "first_ancestor_of_type": ("raise", "EmptyLocationException"),
              "strand": ("raise", "EmptyLocationException"), "start": ("raise", "EmptyLocationException"), "end": ("raise", "EmptyLocationException"),
              "location_relative_to": ("ok", "empty"), "_full_span_interval": ("ok", "empty"), "length": ("ok", 0), "parent": ("ok", None),
              "__str__": ("ok", "EmptyLocation")}
    args = {"has_overlap": [other], "intersection": [other], "minus": [other], "union": [other], "extend_absolute": [1, 1], "shift_position": [1],
            "distance_to": [other], "parent_to_relative_pos": [3], "relative_to_parent_pos": [0], "reset_strand": [S["PLUS"]],
            "parent_to_relative_location": [other], "relative_interval_to_parent_location": [0, 1, S["PLUS"]], "reset_parent": [None],
            "union_preserve_overlaps": [other], "extend_relative": [1, 1], "first_ancestor_of_type": ["chromosome"], "location_relative_to": [other]}
    def ask(m, a):
        """the member as a client reaches it: attribute access on the object, then a call when it is a method"""
        try:
            val = it.getattr(e, m, None, 0)
            if isinstance(val, tuple) and val and val[0] in ("bound", "closure", "rawfn", "lambda"):
                val = it.apply(val, list(a), {}, None, 0)
            return "ok", val
        except Raised as ex:
            return "raise", ex.exc_name

    for m, (wk, wv) in expect.items():
        fn = repo.where(f"{LOC}:_EmptyLocation.{m}")
        k, v = ask(m, args.get(m, []))
        ok = k == wk and ((wv == "empty" and is_empty_obj(v)) or (wv != "empty" and v == wv))
        r.check(ok, "C02.R4", f"{LOC}:_EmptyLocation.{m}", f"EmptyLocation.{m}", f"EmptyLocation.{m} -> {k}:{_describe(v) if k == 'ok' and isinstance(v, Obj) else v}; expected {wk}:{wv}", fn)
    fe = repo.fn(f"{LOC}:_EmptyLocation.__eq__")
    for what, arg, want in (("the empty location", e, True), ("a non-empty location", other, False), ("None", None, False)):
        k, v = run(it, fe, [arg], {}, e)
        r.check(k == "ok" and v is want, "C02.R4", fe.qual, f"EmptyLocation == {what}", f"EmptyLocation == {what} -> {k}:{v}; expected {want}", fe)
    k, v = run(it, repo.fn(f"{LOC}:_EmptyLocation.scan_blocks"), [], {}, e)
    r.check(k == "ok" and not list(it.iterate(v) if v is not None else []), "C02.R4", f"{LOC}:_EmptyLocation.scan_blocks", "EmptyLocation.scan_blocks",
            f"scan_blocks -> {k}:{v}; an empty location has no block to scan", repo.fn(f"{LOC}:_EmptyLocation.scan_blocks"))
    for prop_, want in (("is_empty", True), ("blocks", []), ("num_blocks", 0), ("is_overlapping", False)):
        fn = repo.where(f"{LOC}:_EmptyLocation.{prop_}")
        k, v = ask(prop_, [])
        r.check(k == "ok" and v == want, "C02.R4", f"{LOC}:_EmptyLocation.{prop_}", f"EmptyLocation.{prop_}", f"EmptyLocation.{prop_} -> {k}:{v}", fn)
    # and the non-empty classes against it
    for cls, mk in (("SingleInterval", lambda: mk_single(it, 3, 9, S["PLUS"])), ("CompoundInterval", lambda: mk_compound(it, [3, 12], [9, 15], S["PLUS"]))):
        a = mk()
        for m, want in (("has_overlap", False),):
            fn = repo.fn(f"{LOC}:{cls}.{m}")
            k, v = run(it, fn, [e], {}, a)
            r.check(k == "ok" and v is want, "C02.R4", fn.qual, f"{m}(EmptyLocation)", f"{cls}.{m}(EmptyLocation) -> {k}:{v}", fn)


RULES += [
    ("C02.R5", r5_derived),
    ("C02.R4", r4_empty_location),
]

def r6i_identity(ctx):
    """locations on equal parents are comparable whether or not the two Parent objects are the same object (the constructor cache
    holds 1000 entries; an equal parent built later, or spelled with its keyword arguments in another order, is another object):
    no identity comparison between Parent / Location / Sequence values outside an equality fast path (shared with C10.R6)"""
    from .c10 import r6_identity
    r6_identity(ctx, rule="C02.R6i")


RULES.append(("C02.R6i", r6i_identity))
