"""C18 - identifier / qualifier extraction is order-independent and priority-respecting.

RK  the analyser interprets extract_feature_name_id for every subset (size <= 3) and every ordering of the recognised
    name / id keys (in three case spellings, with look-alike keys interleaved), extract_feature_types and
    merge_qualifiers, and compares with the documented priority list / set-union semantics.
R2  tables: lower-cased enum member names = the literal qualifier sets = the regex alternatives; alternatives anchored
    and compiled IGNORECASE; enum values distinct (a tie makes the choice order-dependent).
R4  structural: groupby on the GenBank locus-tag path consumes input sorted by the grouping key."""
import ast
import itertools

from ..astutil import call_tail, calls_in, src
from ..interp import Raised, Uninterpretable, module_const, std_interp
from ..lockernel import run
from .c05 import _report
from .c13 import _refines

def _stable(x):
    # process-independent selector (the builtin hash of strings changes from run to run)
    import zlib
    return zlib.crc32(repr(x).encode())


EXPLANATION = (
    "RK: extract_feature_name_id is interpreted for every subset of up to three recognised keys in every order, three "
    "case spellings, with look-alike keys interleaved, and compared with the documented priority list; "
    "extract_feature_types and merge_qualifiers are interpreted against set semantics (sorted values, symmetric, "
    "idempotent). R2: enum / literal-set / regex agreement and distinct priorities. R4: groupby sortedness on the "
    "locus-tag path. Not decided: whole-record permutation invariance of GenBank parses (Biopython objects)."
)

F = "io.features"
NAME_PRIORITY = ["feature_name", "standard_name", "name", "gene", "gene_name", "label", "operon"]
ID_PRIORITY = ["feature_id", "id"]
LOOKALIKE = ["names", "gene_names", "xid", "feature_names", "my_label"]


def spell(k, mode):
    return k if mode == 0 else k.upper() if mode == 1 else k.title()


def _name_case(repo, it, S, spec):
    keys, mode = spec
    f = repo.fn(f"{F}:extract_feature_name_id")
    out = []
    n = 0
    for perm in itertools.permutations(keys):
        n += 1
        q = {}
        for i, k in enumerate(perm):
            q[LOOKALIKE[i % len(LOOKALIKE)] + str(i)] = [f"decoy{i}"]
            q[spell(k, mode)] = [f"value_of_{k}", "second"]
        names = [k for k in NAME_PRIORITY if k in keys]
        ids = [k for k in ID_PRIORITY if k in keys]
        want = (f"value_of_{names[0]}" if names else None, f"value_of_{ids[0]}" if ids else None)
        k_, v = run(it, f, [q], {}, None)
        got = tuple(v) if k_ == "ok" else v
        if got != want:
            zero = ("feature_name" in keys and len(names) > 1) or ("feature_id" in keys and len(ids) > 1)
            key = "priority respected in every order" + (" [a rank-0 key competes with another key]" if zero else "")
            out.append((key, f"extract_feature_name_id({list(q)}) -> {got}; the documented priority gives {want}", f"{F}:extract_feature_name_id"))
    return n, out


_W = {}


def _runner(repo, fn):
    def work(spec):
        if _W.get("repo") is not repo:
            _W["it"] = std_interp(repo, max_steps=10 ** 12)
            _W["repo"] = repo
        try:
            return fn(repo, _W["it"], None, spec)
        except Uninterpretable as ex:
            return 0, [("uninterpretable", str(ex), f"{F}:extract_feature_name_id")]
    return work


def rk_name_id(ctx):
    allk = NAME_PRIORITY + ID_PRIORITY
    specs = []
    for r_ in (1, 2, 3):
        for keys in itertools.combinations(allk, r_):
            for mode in (0, 1, 2):
                if r_ == 3 and mode and not ctx.thorough and _stable(keys) % 3:
                    continue
                specs.append((keys, mode))
    ctx.r.floor("C18.RK", "key subsets x spellings", len(specs), 150)
    from ..par import pmap
    results = pmap(_runner(ctx.repo, _name_case), specs)
    _report(ctx, "C18.RK", results, [(f"{F}:extract_feature_name_id", "documented priority in every order and spelling")])
    # note fallback and no-match behaviour, types, merge
    r, repo = ctx.r, ctx.repo
    it = std_interp(repo)
    f = repo.fn(f"{F}:extract_feature_name_id")
    for q, want in (({"note": ["hello, world"], "x": ["1"]}, ("hello", "hello")), ({"x": ["1"]}, (None, None)),
                    ({"note": [""]}, (None, None)), ({"names": ["a"], "identifier": ["b"]}, (None, None)),
                    ({"note": ["n"], "label": ["L"]}, ("L", None))):
        k, v = run(it, f, [q], {}, None)
        r.check(k == "ok" and tuple(v) == want, "C18.RK", f.qual, f"fallback {list(q)}", f"extract_feature_name_id({q}) -> {k}:{v}; expected {want}", f)
    ft = repo.fn(f"{F}:extract_feature_types")
    for q, start, want in (({"gbkey": ["Gene"], "regulatory_class": ["promoter", "x"], "other": ["no"], "Feature_Type": ["t"]}, ["primary"],
                            {"primary", "Gene", "promoter", "x", "t"}),
                           ({"a": ["1"]}, ["p"], {"p"}), ({"GBKEY": ["k"], "mol_type": ["m"]}, [], {"k", "m"})):
        s0 = it._dedupe(start, 0)
        k, v = run(it, ft, [s0, q], {}, None)
        r.check(k == "ok" and set(s0) == want, "C18.RK", ft.qual, f"types from {sorted(q)}", f"extract_feature_types -> {sorted(s0)}; every type-like qualifier gives {sorted(want)}", ft)
    mq = repo.fn(f"{F}:merge_qualifiers")
    ds = [{}, {"a": ["2", "1", "2"]}, {"a": ["3"], "b": ["x"]}, {"b": ["y", "x"], "c": ["z"]}, {"c": []},
          # values of different lengths: the documented order is plain string order, not "natural" / by length
          {"a": ["10", "9"], "db_xref": ["GeneID:99", "GeneID:100"]}, {"db_xref": ["GeneID:1000", "X"], "b": ["exon10", "exon2"]},
          # values that differ in case, and values equal up to case: plain string order (upper case first), the same in every process
          {"a": ["b", "B", "a"], "k": ["abc", "ABC", "Abc"]}, {"a": ["A", "c"], "k": ["aBC", "abd"]}]
    for a in ds:
        for b in ds:
            k, v = run(it, mq, [dict(a), dict(b)], {}, None)
            want = {}
            for d in (a, b):
                for kk, vv in d.items():
                    want.setdefault(kk, set()).update(vv)
            want = {kk: sorted(vv) for kk, vv in want.items()}
            ok = k == "ok" and {kk: list(vv) for kk, vv in v.items()} == want
            r.check(ok, "C18.RK", mq.qual, f"merge {a} + {b}", f"merge_qualifiers({a}, {b}) -> {k}:{v}; key-wise sorted set union is {want}", mq)
            if ok:
                from ..interp import other_hash_seed
                with other_hash_seed():
                    k2, v2 = run(it, mq, [dict(a), dict(b)], {}, None)
                r.check(k2 == "ok" and {kk: list(vv) for kk, vv in v2.items()} == want, "C18.RK", mq.qual, f"merge independent of the hash seed {a} + {b}",
                        f"merge_qualifiers({a}, {b}) with every set iterated in the opposite order -> {k2}:{v2}; expected {want}", mq)
            if ok:
                from ..interp import DDict
                r.check(not (isinstance(v, DDict) and v.factory is not None) and all(isinstance(vv, list) for vv in v.values()),
                        "C18.RK", mq.qual, f"merge result is a plain dictionary of lists {a} + {b}",
                        f"merge_qualifiers({a}, {b}) returns a {'defaultdict' if isinstance(v, DDict) else type(v).__name__} with values "
                        f"{sorted({type(vv).__name__ for vv in v.values()})}: looking up a key neither input has must raise KeyError and leave the "
                        f"key set alone (a defaultdict inserts it), and every value is a sorted list", mq)
                r.check(all(vv is not a.get(kk) and vv is not b.get(kk) for kk, vv in v.items()), "C18.RK", mq.qual, f"merge result is fresh {a} + {b}",
                        "merge_qualifiers returns the caller's own list objects", mq)


def r2_tables(ctx):
    r, repo = ctx.r, ctx.repo
    it = std_interp(repo)
    for enum_name, set_name, regex_name in (("FeatureIntervalNameQualifiers", "FEATURE_INTERVAL_NAME_QUALIFIERS", "FEATURE_INTERVAL_NAME_QUALIFIERS_REGEX"),
                                            ("FeatureIntervalIDQualifiers", "FEATURE_INTERVAL_ID_QUALIFIERS", "FEATURE_INTERVAL_ID_QUALIFIERS_REGEX")):
        members = it.enum(enum_name)
        cls = repo.cls(enum_name)
        lit = set(module_const(it, F, set_name))
        r.check({m.lower() for m in members} == lit, "C18.R2", f"{F}:{set_name}", "literal set = lower-cased enum member names",
                f"{set_name} = {sorted(lit)} but {enum_name} has members {sorted(m.lower() for m in members)}", cls)
        vals = [m.value for m in {id(x): x for x in members.values()}.values()]
        raw = [ast.literal_eval(v) for _n, v in repo.enum_members(cls)]
        r.check(len(raw) == len(set(raw)), "C18.R2", cls.qual, "distinct priorities",
                f"{enum_name} values {raw} are not distinct: tied keys are chosen by insertion order", cls)
        rx = module_const(it, F, regex_name)
        import re as _re
        # the flag is read off the evaluated pattern object (however the module builds it)
        ok = bool(getattr(rx, "flags", 0) & _re.IGNORECASE)
        r.check(ok, "C18.R2", f"{F}:{regex_name}", "compiled with IGNORECASE", f"{regex_name} is not compiled case-insensitively", cls)
        pat = getattr(rx, "pattern", "")
        alts = pat[1:-1].split("|") if pat.startswith("(") and pat.endswith(")") else []
        if alts and all(a.startswith("^") and a.endswith("$") for a in alts):
            r.check({a[1:-1] for a in alts} == lit, "C18.R2", f"{F}:{regex_name}",
                    "anchored alternatives = the literal set", f"{regex_name} pattern {pat!r} is not the anchored alternation of {sorted(lit)}", cls)
        else:
            # another way of writing the pattern: exact, case-insensitive matching is decided by C18.RK on look-alike keys
            r.note(f"C18.R2: {regex_name} pattern {pat!r} is not of the form (^a$|^b$...); table comparison skipped, matching decided by C18.RK")


def _sorted_by(fn_node, name, gkey):
    """is local `name` assigned from sorted(..., key refining gkey) in this function?"""
    for a in ast.walk(fn_node):
        if isinstance(a, ast.Assign) and any(isinstance(t, ast.Name) and t.id == name for t in a.targets) \
                and isinstance(a.value, ast.Call) and call_tail(a.value) == "sorted":
            skey = next((k.value for k in a.value.keywords if k.arg == "key"), None)
            if skey is not None and (src(skey) == src(gkey) or _refines(skey, gkey)):
                return True
    return False


def _order_preserving_filter(fn_node, name, attr):
    """is local `name` a list filled by `.append(x)` inside `for x in <something iterating self.<attr>>`?"""
    for loop in ast.walk(fn_node):
        if isinstance(loop, ast.For) and isinstance(loop.target, ast.Name):
            appends = [c for c in calls_in(loop, shallow=False) if call_tail(c) == "append" and isinstance(c.func, ast.Attribute)
                       and src(c.func.value) == name and c.args and src(c.args[0]) == loop.target.id]
            if appends:
                # the iterated value must come from self.<attr> (directly or as the loop variable of enumerate(self.<attr>))
                itsrc = src(loop.iter)
                if attr in itsrc:
                    return True
                for outer in ast.walk(fn_node):
                    if isinstance(outer, ast.For) and attr in src(outer.iter) and any(n_ is loop for n_ in ast.walk(outer)) \
                            and itsrc in [x.id for x in ast.walk(outer.target) if isinstance(x, ast.Name)]:
                        return True
    return False


def r4i_record_order(ctx):
    """deciding rule (interpreted): the records the GenBank writer produces for several genes, presented in other orders
    (reversed, rotated, genes interleaved record by record), give the same gene models through the locus-tag parser (and
    the hybrid parser) as in file order.  Uses the re-parse machinery of C12.RP."""
    from . import c12
    from ..genekernel import gene_interp
    from ..lockernel import strands
    r, repo = ctx.r, ctx.repo
    it = c12.bio_hooks(gene_interp(repo, max_steps=10 ** 10))
    S = strands(it)
    n = 0
    for idxs, flavor in (((1, 3, 6), "EUKARYOTIC"), ((1, 3, 0), "PROKARYOTIC"), ((2, 5), "EUKARYOTIC")):
        ms = sorted((c12.MODELS[i] for i in idxs), key=lambda m: min(t["exons"][0][0] for t in m["txs"]))
        try:
            feats = c12.written_features(repo, it, S, ms, flavor)
        except Raised as ex:
            r.violation("C18.R4", "io.genbank.writer:gene_to_feature", "export", f"writing genes {[m['id'] for m in ms]} raises {ex.exc_name}", None)
            continue
        by_tag = {}
        for f_ in feats:
            by_tag.setdefault(f_.fields["qualifiers"]["locus_tag"][0], []).append(f_)
        interleaved = []
        cols = list(by_tag.values())
        for j in range(max(len(c) for c in cols)):
            interleaved += [c[j] for c in cols if j < len(c)]
        orders = {"reversed": list(reversed(feats)), "rotated": feats[1:] + feats[:1], "genes interleaved record by record": interleaved,
                  "children before their gene record": [x for x in feats if x.fields["type"] != "gene"] + [x for x in feats if x.fields["type"] == "gene"]}
        for pname in ("LocusTagGenBankParser", "HybridGenBankParser"):
            ref = c12.parse_with(repo, it, pname, feats)
            q = f"io.genbank.parser:{pname}.parse"
            fn = repo.fn(q)
            if isinstance(ref, tuple):
                r.violation("C18.R4", q, f"file order ({flavor.lower()})", f"genes {[m['id'] for m in ms]} {flavor}: {pname} refuses the written records: {ref[1]}", fn)
                continue
            for oname, order in orders.items():
                n += 1
                got = c12.parse_with(repo, it, pname, order)
                same = not isinstance(got, tuple) and sorted(map(repr, got)) == sorted(map(repr, ref))
                r.check(same, "C18.R4", q, f"records {oname} ({flavor.lower()}, {len(ms)} genes)",
                        f"genes {[m['id'] for m in ms]} {flavor}: with the records {oname} {pname} recovers "
                        f"{('an error: ' + got[1]) if isinstance(got, tuple) else str(len(got)) + ' gene models that differ from file order'}; "
                        f"grouping by locus tag must not depend on the order of the records", fn)
    r.floor("C18.R4", "record-order evaluations", n, 16)


def r4_groupby(ctx):
    ctx.r.soften("C18.R4s")  # strengthening (all files): locus-tag groupby inputs are sorted by locus tag; never alarms
    _r4_groupby(ctx)


def _r4_groupby(ctx):
    """locus-tag grouping consumes input sorted by locus tag: directly, or through the parser attribute it is stored in"""
    r, repo = ctx.r, ctx.repo
    m = repo.module("io.genbank.parser")
    n = 0
    classes = list(m.classes.values())
    for cls in classes:
        for fn in cls.methods.values():
            for call in calls_in(fn.node, shallow=False):
                if call_tail(call) != "groupby":
                    continue
                key = call.args[1] if len(call.args) > 1 else next((k.value for k in call.keywords if k.arg == "key"), None)
                if key is None or "LOCUS_TAG" not in src(key):
                    continue
                n += 1
                it_arg = call.args[0]
                subj = f"groupby by locus tag in {fn.name}"
                if isinstance(it_arg, ast.Call) and call_tail(it_arg) == "sorted":
                    skey = next((k.value for k in it_arg.keywords if k.arg == "key"), None)
                    r.check(skey is not None and (src(skey) == src(key) or _refines(skey, key)), "C18.R4s", fn.qual, subj,
                            f"`{src(call)[:120]}`: the input is sorted by another key than the grouping key", (fn, call))
                    continue
                if isinstance(it_arg, ast.Name) and it_arg.id in fn.pos_params:
                    # every call site must pass a parser attribute that is only ever filled with locus-tag-sorted lists
                    sites = []
                    for c2 in classes:
                        for f2 in c2.methods.values():
                            for cc in calls_in(f2.node, shallow=False):
                                if call_tail(cc) == fn.name and cc.args:
                                    sites.append((c2, f2, cc))
                    ok_all = bool(sites)
                    why = "no call site found"
                    for c2, f2, cc in sites:
                        arg = cc.args[fn.pos_params.index(it_arg.id) - 1]
                        base = arg.value if isinstance(arg, ast.Subscript) else arg
                        attr = src(base)
                        if not attr.startswith("self."):
                            ok_all, why = False, f"{f2.qual} passes `{src(arg)}`"
                            continue
                        # all stores into that attribute within the classes of c2's hierarchy
                        for k in [c2] + repo.base_classes(c2):
                            for f3 in k.methods.values():
                                if f3.name == "__init__":
                                    continue
                                for node in ast.walk(f3.node):
                                    val = None
                                    if isinstance(node, ast.Call) and call_tail(node) == "extend" and isinstance(node.func, ast.Attribute) \
                                            and src(node.func.value).startswith(attr + "["):
                                        val = node.args[0]
                                    elif isinstance(node, ast.Assign) and any(src(t).startswith(attr + "[") for t in node.targets):
                                        val = node.value
                                    if val is None:
                                        continue
                                    good = isinstance(val, ast.Name) and (_sorted_by(f3.node, val.id, key) or _order_preserving_filter(f3.node, val.id, attr.split(".")[-1]))
                                    good = good or (isinstance(val, ast.Call) and call_tail(val) == "sorted" and _refines(
                                        next((kk.value for kk in val.keywords if kk.arg == "key"), ast.Lambda(args=ast.arguments(posonlyargs=[], args=[ast.arg(arg="f")], kwonlyargs=[], kw_defaults=[], defaults=[]), body=ast.Constant(value=0))), key))
                                    if not good and "position" in src(val):
                                        continue  # the position-sorted list is grouped by position elsewhere; only flag when it feeds this site
                                    if not good:
                                        ok_all, why = False, f"{f3.qual} stores `{src(val)[:60]}` into {attr} without sorting by locus tag"
                    r.check(ok_all, "C18.R4s", fn.qual, subj,
                            f"`{src(call)[:90]}` groups its parameter by locus tag, but {why}: genes then depend on the order of records", (fn, call))
                    continue
                if fn.name == "_parse_features":
                    # non-gene features (the property's clause is about genes): reported as an observation only
                    r.note(f"C18.R4: {fn.qual} groups `{src(it_arg)[:50]}` (non-gene features) by locus tag without sorting")
                    continue
                r.undecide("C18.R4s", fn.qual, subj, f"cannot trace the grouped input `{src(it_arg)[:60]}`", (fn, call))
    r.floor("C18.R4s", "locus-tag groupby sites", n, 2)


def r5_interval_merge(ctx):
    """the interval-level merge (AbstractFeatureInterval._merge_qualifiers, used by export_qualifiers of features, transcripts
    and CDSs when the parent's qualifiers are handed down): key-wise set union of own and parent values, both inputs
    unchanged.  Interpreted on objects built by the analyser."""
    from ..genekernel import gene_interp, mk_feature, mk_transcript
    from ..lockernel import strands
    r, repo = ctx.r, ctx.repo
    it = gene_interp(repo, max_steps=10 ** 9)
    S = strands(it)
    Fr = it.enum("CDSFrame")
    own_sets = [{"note": ["child"], "only_child": ["c1", "c2"]}, {"note": ["same"], "k": ["v"]}, {}, {"note": []}]
    parent_sets = [{"note": ["parent", "child"], "only_parent": ["p"]}, {"note": ["same"]}, {}, None, {"only_parent": []}]
    n = 0
    mergef = repo.fn_opt("gene.interval:AbstractFeatureInterval._merge_qualifiers")
    mq = "gene.interval:AbstractFeatureInterval._merge_qualifiers"
    if mergef is None:
        r.note("C18.R5: private helper _merge_qualifiers not found under that name; the merge is asked through export_qualifiers only")

    def as_map(q):
        return {str(k): sorted(str(x) for x in v) for k, v in (q or {}).items()}

    for kind in ("feature", "transcript", "cds"):
        for own in own_sets:
            for par in parent_sets:
                n += 1
                if kind == "feature":
                    o = mk_feature(it, [(3, 9)], S["PLUS"], qualifiers={k: list(v) for k, v in own.items()} or None)
                    q = "gene.feature:FeatureInterval.export_qualifiers"
                else:
                    tx = mk_transcript(it, [(3, 15)], S["MINUS"], [(3, 12)], [Fr["ZERO"]], qualifiers={k: list(v) for k, v in own.items()} or None)
                    o = tx if kind == "transcript" else tx.fields["cds"]
                    q = "gene.transcript:TranscriptInterval.export_qualifiers" if kind == "transcript" else "gene.cds:CDSInterval.export_qualifiers"
                pq = None if par is None else {k: it._dedupe(list(v), 0) for k, v in par.items()}
                before_own, before_par = as_map(o.fields.get("qualifiers")), as_map(pq)
                k, v = run(it, mergef, [pq], {}, o) if mergef is not None else ("skipped", None)
                want = {}
                for src_ in (before_own, before_par):
                    for key, vals in src_.items():
                        want[key] = sorted(set(want.get(key, [])) | set(vals))
                desc = f"{kind} with qualifiers {own}, parent qualifiers {par}"
                if mergef is not None:
                    r.check(k == "ok" and as_map(v) == want, "C18.R5", mq, f"{kind}: own {sorted(own)} + parent {sorted(par) if par else par}",
                            f"{desc}: _merge_qualifiers -> {k}:{as_map(v) if k == 'ok' else v}; the key-wise union is {want}", mergef)
                k2, v2 = run(it, repo.fn(q), [pq], {}, o)
                exported = as_map(v2) if k2 == "ok" else None
                r.check(k2 == "ok" and all(set(vals) <= set(exported.get(key, [])) for key, vals in want.items()), "C18.R5", q,
                        f"{kind}: own {sorted(own)} + parent {sorted(par) if par else par}",
                        f"{desc}: export_qualifiers -> {k2}:{exported}; it must contain the key-wise union {want}", repo.fn(q))
                r.check(as_map(o.fields.get("qualifiers")) == before_own and as_map(pq) == before_par, "C18.R5", mq,
                        f"{kind}: inputs unchanged ({sorted(own)} / {sorted(par) if par else par})",
                        f"{desc}: merging changed an input: own {as_map(o.fields.get('qualifiers'))}, parent {as_map(pq)}", repo.where(mq))
    r.floor("C18.R5", "interval-level merges", n, 40)


RULES = [
    ("C18.RK", rk_name_id),
    ("C18.R2", r2_tables),
    ("C18.R4", r4i_record_order),
    ("C18.R4s", r4_groupby),
    ("C18.R5", r5_interval_merge),
]
