"""C08 - serialised forms round-trip; identifiers are deterministic functions of content.

RK  to_dict -> from_dict -> to_dict, model load -> to_<object> -> to_dict, __getstate__ -> __setstate__, interpreted by
    the analyser for every interval / collection class on no parent, a chromosome and a chunk: the re-built object must
    have an equal dictionary form (identifiers, coordinates, qualifiers, exported sequence).
RG  identifiers: every permutation class of qualifier key / value insertion order gives the same guid (incl. keys that
    differ only in case); changing a coordinate, the strand or a frame changes the guid; str() of a set never reaches
    a digest.
R2  structural: keys written by each to_dict are fields of the corresponding data model and every model field is
    passed on by Model.to_<object>()."""
import ast
import itertools

from ..astutil import bind_args, call_tail, calls_in, dotted, src
from ..genekernel import (chrom_parent, chunk_parent, gene_interp, mk_collection, mk_feature, mk_feature_collection,
                          mk_gene, mk_transcript)
from ..interp import ClassTok, EnumVal, Obj, Opaque, Raised, Uninterpretable, SetVal
from ..lockernel import run, strands
from ..model import AnalysisError
from ..par import pmap
from .c05 import GENOME, _report, _runner
from .c11 import build, models

EXPLANATION = (
    "RK: dictionary export/import, data-model load (marshmallow-dataclass schema modelled as: unknown key rejected, "
    "enums by name, nested models) followed by Model.to_<object>, and pickling (__getstate__/__setstate__) are "
    "interpreted by the analyser for CDS, transcript, feature, gene, feature collection and annotation collection "
    "(also query results with completely_within set) on no parent / chromosome / chunk; the dictionary form of the "
    "re-built object must be identical (guid, coordinates, qualifiers, sequence). RG: the library's own digest_object "
    "is interpreted: guid invariant under every insertion order of qualifier keys/values (incl. case-twin keys), guid "
    "changes with coordinates / strand / frames / child identifiers. R2: to_dict keys vs model fields. Not decided: "
    "marshmallow itself, JSON encoding of UUIDs."
)

MODEL_OF = {"FeatureInterval": ("FeatureIntervalModel", "to_feature_interval"),
            "TranscriptInterval": ("TranscriptIntervalModel", "to_transcript_interval"),
            "GeneInterval": ("GeneIntervalModel", "to_gene_interval"),
            "FeatureIntervalCollection": ("FeatureIntervalCollectionModel", "to_feature_collection"),
            "AnnotationCollection": ("AnnotationCollectionModel", "to_annotation_collection"),
            "VariantInterval": ("VariantIntervalModel", "to_variant_interval"),
            "VariantIntervalCollection": ("VariantIntervalCollectionModel", "to_variant_interval_collection")}


def plain(v):
    """comparable form of an interpreted value"""
    if isinstance(v, dict):
        return {k: plain(x) for k, x in v.items()}
    if isinstance(v, SetVal):
        return ("set", sorted(map(repr, map(plain, v))))
    if isinstance(v, (list, tuple)):
        return [plain(x) for x in v]
    if isinstance(v, EnumVal):
        return f"{v.cls}.{v.name}"
    if isinstance(v, Obj):
        if v.cls_name == "Sequence":
            return ("Sequence", v.fields.get("sequence"))
        return ("obj", v.cls_name)
    if isinstance(v, Opaque):
        return "<opaque>"
    if type(v).__module__ == "uuid":
        return str(v)
    return v


def model_fields(repo, mname):
    c = repo.cls(f"io.models:{mname}")
    fields = {}
    for k in reversed(repo.mro(c)):
        for nm in k.order:
            if nm in k.annots and nm != "Schema":
                fields[nm] = src(k.annots[nm])
    return fields


def schema_load(it, repo, mname, d, path=""):
    """marshmallow-dataclass load, as far as this repo relies on it: unknown keys are rejected, enum-typed fields are
    loaded by member name, nested model lists recursively.  Returns a model record or raises ValueError(message)."""
    fields = model_fields(repo, mname)
    unknown = [k for k in d if k not in fields]
    if unknown:
        raise ValueError(f"{mname}.Schema().load: unknown field(s) {unknown} (to_dict writes a key the model does not declare)")
    kwargs = {}
    for k, ann in fields.items():
        if k not in d:
            continue
        v = d[k]
        if v is None:
            kwargs[k] = None
            continue
        m = [x for x in MODEL_OF.values() if x[0] in ann] + ([("ParentModel", None)] if "ParentModel" in ann else [])
        if m and isinstance(v, list):
            kwargs[k] = [schema_load(it, repo, m[0][0], x, f"{path}.{k}") for x in v]
        elif m and isinstance(v, dict):
            kwargs[k] = schema_load(it, repo, m[0][0], v, f"{path}.{k}")
        elif "CDSFrame" in ann:
            kwargs[k] = [it.enum("CDSFrame")[x] for x in v]
        elif "Strand" in ann and isinstance(v, str):
            kwargs[k] = it.enum("Strand")[v]
        elif "Biotype" in ann and isinstance(v, str):
            kwargs[k] = it.enum("Biotype")[v]
        elif "Alphabet" in ann and isinstance(v, str):
            kwargs[k] = it.enum("Alphabet")[v]
        else:
            kwargs[k] = v
    return it.apply(ClassTok(mname), [], kwargs, None, 0)


def round_trips(repo, it, obj, cls_name, parent, desc, want_parent_export=False):
    out = []
    n = 0
    cq = {"CDSInterval": "gene.cds", "TranscriptInterval": "gene.transcript", "FeatureInterval": "gene.feature",
          "GeneInterval": "gene.gene", "FeatureIntervalCollection": "gene.feature",
          "AnnotationCollection": "gene.collections", "VariantInterval": "gene.variants",
          "VariantIntervalCollection": "gene.variants"}[cls_name]
    f_to = repo.fn(f"{cq}:{cls_name}.to_dict")
    f_from = repo.fn(f"{cq}:{cls_name}.from_dict")
    k, d = run(it, f_to, [], {}, obj)
    n += 1
    if k != "ok":
        return n, [("to_dict", f"{desc}: to_dict raises {d}", f_to.qual)]
    # dictionary round trip
    n += 1
    k, back = run(it, f_from, [d, parent], {}, None)
    if k != "ok":
        out.append(("from_dict(to_dict)", f"{desc}: from_dict(to_dict()) raises {back}", f_from.qual))
    else:
        k2, d2 = run(it, f_to, [], {}, back)
        qa, qb = _quals(obj), _quals(back)
        if k2 != "ok" or plain(d2) != plain(d):
            diff = _diff(plain(d), plain(d2)) if k2 == "ok" else d2
            out.append(("from_dict(to_dict)", f"{desc}: dictionary round trip changes the object: {diff}", f_from.qual))
        elif qa != qb:
            out.append(("from_dict(to_dict) qualifiers", f"{desc}: the re-built object has qualifiers {qb}; the original has {qa}", f_to.qual))
        elif str(back.fields.get("guid")) != str(obj.fields.get("guid")):
            out.append(("from_dict(to_dict) guid", f"{desc}: the re-built object has guid {back.fields.get('guid')}; the original has "
                        f"{obj.fields.get('guid')}", f_from.qual))
        elif _eq_hash_problem(repo, it, obj, back):
            out.append(("re-built object equals the original", f"{desc}: {_eq_hash_problem(repo, it, obj, back)}", f_from.qual))
        elif plain(back.fields.get("_location") and it.py_str(back.fields["_location"])) != plain(
                obj.fields.get("_location") and it.py_str(obj.fields["_location"])):
            out.append(("from_dict keeps the parent", f"{desc}: the re-built object sits on another location "
                        f"({it.py_str(back.fields['_location'])} vs {it.py_str(obj.fields['_location'])}): parent not forwarded", f_from.qual))
    # model round trip
    if cls_name in MODEL_OF:
        mname, conv = MODEL_OF[cls_name]
        n += 1
        try:
            model = schema_load(it, repo, mname, d)
            fconv = repo.fn(f"io.models:{mname}.{conv}")
            k, back = run(it, fconv, [parent], {}, model)
            if k != "ok":
                out.append(("model round trip", f"{desc}: {mname}.{conv} raises {back}", fconv.qual))
            else:
                k2, d2 = run(it, f_to, [], {}, back)
                if k2 != "ok" or plain(d2) != plain(d):
                    out.append(("model round trip", f"{desc}: {mname}.Schema().load(to_dict()).{conv}() changes the object: "
                                f"{_diff(plain(d), plain(d2)) if k2 == 'ok' else d2}", fconv.qual))
        except ValueError as ex:
            out.append(("model load", f"{desc}: {ex}", f_to.qual))
    return n, out


def _eq_hash_problem(repo, it, obj, back):
    """the library's own equality and hash on an object and its re-built twin: equal, both ways, with equal hashes; and not equal
    to something of another kind"""
    fe = it.method(obj, "__eq__")
    fh = it.method(obj, "__hash__")
    if fe is None:
        return None
    k1, v1 = run(it, fe, [back], {}, obj)
    k2, v2 = run(it, fe, [obj], {}, back)
    if k1 != "ok" or k2 != "ok" or not (v1 is True and v2 is True):
        return f"original == re-built -> {k1}:{v1}, re-built == original -> {k2}:{v2}; an import of an export is an equal object"
    k3, v3 = run(it, fe, ["not an interval"], {}, obj)
    if k3 != "ok" or v3 is not False:
        return f"comparison with a value of another kind -> {k3}:{v3}; expected False"
    if fh is not None:
        k4, h1 = run(it, fh, [], {}, obj)
        k5, h2 = run(it, fh, [], {}, back)
        if k4 != "ok" or k5 != "ok" or h1 != h2 or not isinstance(h1, int):
            return f"hash(original) -> {k4}:{h1}, hash(re-built) -> {k5}:{h2}; equal objects have equal hashes"
    return None


def _quals(o):
    q = o.fields.get("qualifiers")
    if not isinstance(q, dict):
        return q
    return {str(k): sorted(str(x) for x in v) for k, v in q.items()}


def _diff(a, b, path=""):
    if isinstance(a, dict) and isinstance(b, dict):
        for k in sorted(set(a) | set(b), key=str):
            if a.get(k) != b.get(k):
                return _diff(a.get(k), b.get(k), f"{path}.{k}")
    if isinstance(a, list) and isinstance(b, list) and len(a) == len(b):
        for i, (x, y) in enumerate(zip(a, b)):
            if x != y:
                return _diff(x, y, f"{path}[{i}]")
    return f"{path or 'value'}: {str(a)[:120]!r} -> {str(b)[:120]!r}"


# qualifiers that are flags (a key with no value) at every level: export and import must keep the key
VALUELESS = [
    dict(kind="gene", gene_id="G4", gene_symbol="flagged", gene_type="protein_coding", locus_tag=None,
         qualifiers={"pseudo": []},
         transcripts=[dict(exons=[(33, 39), (42, 48)], strand="PLUS", cds=[(34, 39), (42, 46)], start_frame=0, transcript_id="T9",
                           transcript_symbol="t9", transcript_type="protein_coding", protein_id="P9", product=None,
                           qualifiers={"pseudo": [], "note": ["has a flag"]})]),
    dict(kind="fc", feature_collection_id="FC4", feature_collection_name="flags", feature_collection_type=None, locus_tag=None,
         qualifiers={"partial": []},
         features=[dict(blocks=[(40, 44)], strand="PLUS", feature_name="f4", feature_id=None, feature_types=["site"],
                        qualifiers={"flag": []})]),
]


def _case(repo, it, S, spec):
    parent_kind, what = spec
    out = []
    n = 0
    if parent_kind == "chrom":
        parent = chrom_parent(it, GENOME, alphabet="NT_EXTENDED")
    elif parent_kind == "chunk":
        parent = chunk_parent(it, GENOME, 2, 49, alphabet="NT_EXTENDED")
    else:
        parent = None
    ms = models() + VALUELESS
    desc0 = f"parent={parent_kind}"
    try:
        objs = [build(it, S, parent, m) for m in ms]
    except Raised as ex:
        return 1, [("construct", f"{desc0}: {ex.exc_name}", "gene.gene:GeneInterval.__init__")]
    genes = [o for o, m in zip(objs, ms) if m["kind"] == "gene"]
    fcs = [o for o, m in zip(objs, ms) if m["kind"] != "gene"]
    if what == "intervals":
        for g in genes:
            for tx in g.fields["transcripts"]:
                a, b = round_trips(repo, it, tx, "TranscriptInterval", parent, f"{desc0} transcript {tx.fields['transcript_id']}")
                n += a
                out += b
                if tx.fields.get("cds") is not None:
                    a, b = round_trips(repo, it, tx.fields["cds"], "CDSInterval", parent, f"{desc0} CDS of {tx.fields['transcript_id']}")
                    n += a
                    out += b
        for fc in fcs:
            for ft in fc.fields["feature_intervals"]:
                a, b = round_trips(repo, it, ft, "FeatureInterval", parent, f"{desc0} feature {ft.fields['feature_name']}")
                n += a
                out += b
    elif what == "collections":
        for g in genes:
            a, b = round_trips(repo, it, g, "GeneInterval", parent, f"{desc0} gene {g.fields['gene_id']}")
            n += a
            out += b
        for fc in fcs:
            a, b = round_trips(repo, it, fc, "FeatureIntervalCollection", parent, f"{desc0} feature collection")
            n += a
            out += b
    else:
        for cw in (None, True, False):
            ac = mk_collection(it, genes, fcs, sequence_name="chr1", name="the collection", id="ac1",
                               qualifiers={"q": ["b", "a"]}, completely_within=cw, parent_or_seq_chunk_parent=parent)
            desc = f"{desc0} annotation collection completely_within={cw}"
            a, b = round_trips(repo, it, ac, "AnnotationCollection", parent, desc)
            n += a
            out += b
            # exported parent: rebuilt without passing a parent
            f_to = repo.fn("gene.collections:AnnotationCollection.to_dict")
            f_from = repo.fn("gene.collections:AnnotationCollection.from_dict")
            n += 1
            k, d = run(it, f_to, [], {"export_parent": True}, ac)
            if k != "ok":
                out.append(("export_parent", f"{desc}: to_dict(export_parent=True) raises {d}", f_to.qual))
            else:
                k2, back = run(it, f_from, [d], {}, None)
                if k2 != "ok":
                    out.append(("export_parent", f"{desc}: from_dict of a dictionary with exported parent raises {back}", f_from.qual))
                else:
                    k3, d3 = run(it, f_to, [], {"export_parent": True}, back)
                    if k3 != "ok" or plain(d3) != plain(d):
                        out.append(("export_parent", f"{desc}: exported-parent round trip changes the object: "
                                    f"{_diff(plain(d), plain(d3)) if k3 == 'ok' else d3}", f_from.qual))
                # the data-model leg of the same trip: Schema().load of the dictionary with its exported parent, converted without an
                # explicit parent (ParentModel.to_parent rebuilds it) - the sibling of from_dict's own parent reconstruction
                n += 1
                try:
                    model = schema_load(it, repo, "AnnotationCollectionModel", d)
                    fconv = repo.fn("io.models:AnnotationCollectionModel.to_annotation_collection")
                    k4, back2 = run(it, fconv, [], {}, model)
                    if k4 != "ok":
                        out.append(("export_parent (model)", f"{desc}: AnnotationCollectionModel.Schema().load(dictionary with exported parent)"
                                    f".to_annotation_collection() raises {back2}", fconv.qual))
                    else:
                        k5, d5 = run(it, f_to, [], {"export_parent": True}, back2)
                        if k5 != "ok" or plain(d5) != plain(d):
                            out.append(("export_parent (model)", f"{desc}: the collection re-built through the data model from its exported parent differs: "
                                        f"{_diff(plain(d), plain(d5)) if k5 == 'ok' else d5}", "io.models:ParentModel.to_parent"))
                except ValueError as ex:
                    out.append(("model load", f"{desc}: {ex}", f_to.qual))
            # an explicitly passed parent takes precedence over the one embedded in the dictionary (documented override): the same
            # dictionary with and without the embedded parent, imported onto another parent, gives the same collection
            if k == "ok" and parent is not None:
                other = chunk_parent(it, GENOME, 1, 50, alphabet="NT_EXTENDED") if parent_kind == "chrom" else chrom_parent(it, GENOME, alphabet="NT_EXTENDED")
                n += 1
                kp, dplain = run(it, f_to, [], {}, ac)
                ka, a_ = run(it, f_from, [d, other], {}, None)
                kb, b_ = run(it, f_from, [dplain, other], {}, None)
                if ka != kb:
                    out.append(("explicit parent overrides the embedded one", f"{desc}: from_dict(dictionary with exported parent, other parent) -> {ka}:"
                                f"{a_ if ka != 'ok' else ''}; without the embedded parent -> {kb}", f_from.qual))
                elif ka == "ok":
                    da = plain(run(it, f_to, [], {"export_parent": True}, a_)[1])
                    db = plain(run(it, f_to, [], {"export_parent": True}, b_)[1])
                    la, lb = it.py_str(a_.fields["_location"]), it.py_str(b_.fields["_location"])
                    if da != db or la != lb:
                        out.append(("explicit parent overrides the embedded one", f"{desc}: importing the dictionary with its exported parent onto "
                                    f"another parent gives location {la} / {_diff(db, da)}; the explicitly passed parent must win "
                                    f"(location {lb})", f_from.qual))
            # the name recorded for the parent is the parent's own id - also when the collection's sequence_name metadata says
            # something else (an alias): the re-built members sit on a parent with the same id as before
            if parent is not None and cw is None:
                n += 1
                ac_alias = mk_collection(it, genes, fcs, sequence_name="alias_of_chr1", name="the collection", id="ac1",
                                         parent_or_seq_chunk_parent=parent)
                ka_, da_ = run(it, f_to, [], {"export_parent": True}, ac_alias)
                if ka_ == "ok":
                    kb_, back_ = run(it, f_from, [da_], {}, None)
                    pid = lambda o_: (lambda l_: l_.fields["parent"].fields.get("id") if isinstance(l_, Obj) and isinstance(l_.fields.get("parent"), Obj) else None)(  # noqa: E731
                        run(it, repo.fn("gene.interval:AbstractInterval.chromosome_location"), [], {}, o_)[1])
                    if kb_ != "ok":
                        out.append(("export_parent with an alias sequence_name", f"{desc}: from_dict raises {back_}", f_from.qual))
                    elif pid(back_) != pid(ac_alias) or back_.fields.get("sequence_name") != "alias_of_chr1":
                        out.append(("export_parent with an alias sequence_name", f"{desc}: a collection with sequence_name 'alias_of_chr1' on parent "
                                    f"{pid(ac_alias)!r} comes back on parent {pid(back_)!r} with sequence_name {back_.fields.get('sequence_name')!r}",
                                    "gene.interval:AbstractInterval._parent_to_dict"))
                else:
                    out.append(("export_parent with an alias sequence_name", f"{desc}: to_dict(export_parent=True) raises {da_}", f_to.qual))
            # pickling
            n += 1
            gs = repo.fn("gene.collections:AnnotationCollection.__getstate__")
            ss = repo.fn("gene.collections:AnnotationCollection.__setstate__")
            k, state = run(it, gs, [], {}, ac)
            if k != "ok":
                out.append(("pickle", f"{desc}: __getstate__ raises {state}", gs.qual))
                continue
            fresh = Obj("AnnotationCollection")
            k, _ = run(it, ss, [state], {}, fresh)
            if k != "ok":
                out.append(("pickle", f"{desc}: __setstate__ raises {_}", ss.qual))
                continue
            k, state2 = run(it, gs, [], {}, fresh)
            if k != "ok" or plain(state2) != plain(state) or str(fresh.fields.get("guid")) != str(ac.fields.get("guid")):
                out.append(("pickle", f"{desc}: unpickled collection differs: "
                            f"{_diff(plain(state), plain(state2)) if k == 'ok' else state2}; guid {ac.fields.get('guid')} -> {fresh.fields.get('guid')}", ss.qual))
    return n, out


def rk_round_trips(ctx):
    specs = [(p, w) for p in ("none", "chrom", "chunk") for w in ("intervals", "collections", "annotation")]
    from ..par import pmap
    results = pmap(_runner(ctx.repo, _case), specs, min_items=4)
    oks = []
    for c, m in (("CDSInterval", "gene.cds"), ("TranscriptInterval", "gene.transcript"), ("FeatureInterval", "gene.feature"),
                 ("GeneInterval", "gene.gene"), ("FeatureIntervalCollection", "gene.feature"), ("AnnotationCollection", "gene.collections")):
        oks.append((f"{m}:{c}.from_dict", "dictionary / model round trip keeps the dictionary form"))
    oks.append(("gene.collections:AnnotationCollection.__setstate__", "pickle round trip"))
    _report(ctx, "C08.RK", results, oks)


# ---- identifiers ---------------------------------------------------------------------------------------------

def _guid_case(repo, it, S, spec):
    kind, = spec
    out = []
    n = 0
    F = it.enum("CDSFrame")
    quals = {"note": ["b", "a", "c"], "Note": ["x"], "ID2": ["1"], "id2": ["2"], "zeta": ["q", "p"]}
    keys = list(quals)

    def mk(q, **over):
        if kind == "feature":
            args = dict(blocks=[(3, 9), (12, 20)], strand="PLUS")
            args.update(over)
            return mk_feature(it, args["blocks"], S[args["strand"]], qualifiers=q, feature_name="f", feature_types=["t2", "t1"]), "gene.feature:FeatureInterval.__init__"
        if kind == "transcript":
            args = dict(exons=[(3, 9), (12, 20)], strand="PLUS", frames=[F["ZERO"], F["ZERO"]])
            args.update(over)
            return mk_transcript(it, args["exons"], S[args["strand"]], [(3, 9), (12, 18)], args["frames"], qualifiers=q,
                                 transcript_id="t"), "gene.transcript:TranscriptInterval.__init__"
        if kind == "cds":
            args = dict(exons=[(3, 9), (12, 18)], strand="PLUS", frames=[F["ONE"], F["ONE"]])
            args.update(over)
            return it.apply(ClassTok("CDSInterval"), [], dict(
                cds_starts=[b[0] for b in args["exons"]], cds_ends=[b[1] for b in args["exons"]], strand=S[args["strand"]],
                frames_or_phases=args["frames"], qualifiers=q, protein_id="p"), None, 0), "gene.cds:CDSInterval.__init__"
        if kind == "gene":
            args = dict(exons=[(3, 9), (12, 20)], strand="PLUS")
            args.update(over)
            tx = mk_transcript(it, args["exons"], S[args["strand"]], transcript_id="t")
            tx2 = mk_transcript(it, [(4, 8)], S["MINUS"], transcript_id="u")
            order = [tx, tx2] if not over.get("swap") else [tx2, tx]
            return mk_gene(it, order, qualifiers=q, gene_id="g"), "gene.gene:GeneInterval.__init__"
        if kind == "collection":
            args = dict(blocks=[(3, 9)], strand="PLUS")
            args.update(over)
            ft = mk_feature(it, args["blocks"], S[args["strand"]], feature_name="f")
            fc = mk_feature_collection(it, [ft], qualifiers=q)
            vs, ve, valt = args.get("variant", (20, 21, "T"))
            var = it.apply(ClassTok("VariantInterval"), [vs, ve, valt, "SNV"], {"variant_name": "v"}, None, 0)
            vc = it.apply(ClassTok("VariantIntervalCollection"), [[var]], {"variant_collection_id": "vc"}, None, 0)
            return mk_collection(it, None, [fc], variant_collections=[vc], qualifiers=q, name="n"), "gene.collections:AnnotationCollection.__init__"
        raise ValueError(kind)

    try:
        base, qn = mk(dict(quals))
    except Uninterpretable as ex:
        if "hash order" in str(ex):
            return 1, [("set order", f"{kind}: an identifier digest takes str() of a set ({ex})", "util.hashing:digest_object")]
        raise
    g0 = str(base.fields["guid"])
    # every rotation / reversal of key order and value order
    perms = []
    for r in range(len(keys)):
        ks = keys[r:] + keys[:r]
        perms.append({k: list(quals[k]) for k in ks})
        perms.append({k: list(reversed(quals[k])) for k in reversed(ks)})
    for q in perms:
        n += 1
        o, _ = mk(q)
        if str(o.fields["guid"]) != g0:
            out.append(("insertion order", f"{kind}: the guid depends on qualifier insertion order: keys {list(q)} values "
                        f"{[q[k] for k in q]} give {o.fields['guid']}, the original order gives {g0}", qn))
            break
    # another hash seed: the same object built with every set iterated in the opposite order has the same guid and dictionary
    from ..interp import other_hash_seed
    n += 1
    try:
        with other_hash_seed():
            o2, _ = mk(dict(quals))
            k2, d2 = run(it, it.method(o2, "to_dict"), [], {}, o2)
        k1, d1 = run(it, it.method(base, "to_dict"), [], {}, base)
        if str(o2.fields["guid"]) != g0:
            out.append(("hash seed", f"{kind}: built with every set iterated in the opposite order the guid is {o2.fields['guid']}; it is {g0} otherwise", qn))
        elif k1 != k2 or plain(d1) != plain(d2):
            out.append(("hash seed", f"{kind}: to_dict() differs when every set is iterated in the opposite order: "
                        f"{_diff(plain(d1), plain(d2)) if k1 == k2 == 'ok' else (k1, k2)}", qn))
    except Raised as ex:
        out.append(("hash seed", f"{kind}: construction with every set iterated in the opposite order raises {ex.exc_name}", qn))
    # content sensitivity
    changes = {"feature": [dict(blocks=[(3, 9), (12, 21)]), dict(blocks=[(4, 9), (12, 20)]), dict(strand="MINUS")],
               "transcript": [dict(exons=[(3, 9), (12, 21)]), dict(strand="MINUS"), dict(frames=[F["ZERO"], F["ONE"]])],
               "gene": [dict(exons=[(3, 9), (12, 21)]), dict(strand="MINUS")],
               "cds": [dict(exons=[(3, 9), (12, 21)]), dict(strand="MINUS"), dict(frames=[F["ONE"], F["TWO"]])],
               "collection": [dict(blocks=[(3, 10)]), dict(strand="MINUS"), dict(variant=(21, 22, "T")), dict(variant=(20, 21, "G")),
                              dict(variant=(20, 22, "T"))]}[kind]
    for ch in changes:
        n += 1
        try:
            o, _ = mk(dict(quals), **ch)
        except Raised:
            continue
        if str(o.fields["guid"]) == g0:
            out.append(("content sensitivity", f"{kind}: changing {ch} leaves the guid unchanged ({g0})", qn))
    if kind == "cds":
        # the documented alternative input, phases: the same reading frame written as CDSPhase values is the same content
        P = it.enum("CDSPhase")
        n += 1
        k_, o = "ok", None
        try:
            o, _ = mk(dict(quals), frames=[P["TWO"], P["TWO"]])
        except Raised as ex:
            k_ = ex.exc_name
        if k_ != "ok" or str(o.fields["guid"]) != g0:
            out.append(("frames given as phases", f"cds: built from phases [TWO, TWO] (= frames [ONE, ONE]) -> {k_}:"
                        f"{o.fields['guid'] if o is not None else ''}; the same CDS built from frames has guid {g0}", qn))
        elif o is not None:
            n += 1
            fd, td = repo.fn("gene.cds:CDSInterval.from_dict"), repo.fn("gene.cds:CDSInterval.to_dict")
            k1, d = run(it, td, [], {}, o)
            k2, back = run(it, fd, [d], {}, ClassTok("CDSInterval")) if k1 == "ok" else (k1, d)
            if k2 != "ok" or str(back.fields["guid"]) != g0:
                out.append(("frames given as phases", f"cds: built from phases, exported and imported again -> {k2}:"
                            f"{back.fields['guid'] if k2 == 'ok' else back}; the original guid is {g0}", qn))
    if kind == "gene":
        n += 1
        o, _ = mk(dict(quals), swap=True)
        if str(o.fields["guid"]) != g0:
            out.append(("child order", f"gene: the guid depends on the order in which the same transcripts are listed", qn))
    # a changed qualifier value changes the guid
    n += 1
    q2 = {k: list(v) for k, v in quals.items()}
    q2["note"] = ["b", "a", "d"]
    o, _ = mk(q2)
    if str(o.fields["guid"]) == g0:
        out.append(("content sensitivity", f"{kind}: changing a qualifier value leaves the guid unchanged", qn))
    return n, out


def rg_identifiers(ctx):
    specs = [("feature",), ("transcript",), ("gene",), ("collection",), ("cds",)]
    from ..par import pmap
    results = pmap(_runner(ctx.repo, _guid_case), specs, min_items=2)
    _report(ctx, "C08.RG", results, [("util.hashing:digest_object", "guid invariant under insertion order, sensitive to content"),
                                     ("util.hashing:_order_dict_of_possible_sets", "dictionary keys ordered deterministically")])
    # digits must not migrate between adjacent numeric arguments of a digest: objects that differ in coordinates differ in guid
    r, repo = ctx.r, ctx.repo
    it = gene_interp(repo, max_steps=10 ** 9)
    S = strands(it)
    pairs = [("VariantInterval", "gene.variants:VariantInterval.__init__",
              lambda a, b: it.apply(ClassTok("VariantInterval"), [a, b, "T", "SNV"], {"variant_name": "v"}, None, 0), ((1, 213), (12, 13))),
             ("FeatureInterval", "gene.feature:FeatureInterval.__init__",
              lambda a, b: mk_feature(it, [(a, b)], S["PLUS"], feature_name="f"), ((1, 213), (12, 13))),
             ("TranscriptInterval", "gene.transcript:TranscriptInterval.__init__",
              lambda a, b: mk_transcript(it, [(a, b)], S["PLUS"], transcript_id="t"), ((1, 213), (12, 13)))]
    for cname, q, mk, ((a1, b1), (a2, b2)) in pairs:
        try:
            g1, g2 = str(mk(a1, b1).fields["guid"]), str(mk(a2, b2).fields["guid"])
        except Raised as ex:
            r.violation("C08.RG", q, "coordinates separated in the digest", f"{cname}: construction raises {ex.exc_name}", repo.where(q))
            continue
        r.check(g1 != g2, "C08.RG", q, "coordinates separated in the digest",
                f"{cname}({a1}, {b1}, ...) and {cname}({a2}, {b2}, ...) have the same guid {g1}: start and end are digested as adjacent "
                f"strings without a separator, so digits migrate between them", repo.where(q))


def rg_derived_identifiers(ctx):
    """objects derived by incorporating a variant that moves their coordinates are other content: a new identifier, for every
    class alike, equal to the identifier computed when the derived object's dictionary is imported without its recorded guids"""
    r, repo = ctx.r, ctx.repo
    it = gene_interp(repo, max_steps=10 ** 9)
    S = strands(it)
    mkv = lambda s_, e, alt: it.apply(ClassTok("VariantInterval"), [s_, e, alt, "x"], {"variant_name": "v"}, None, 0)  # noqa: E731
    ins = mkv(2, 3, "ACGT")          # an insertion-like replacement upstream of everything: every coordinate moves by 3
    ft = mk_feature(it, [(10, 16), (20, 26)], S["PLUS"], feature_name="f", feature_id="fid", sequence_name="chr1")
    ft2 = mk_feature(it, [(30, 36)], S["MINUS"], feature_name="f2", sequence_name="chr1")
    tx = mk_transcript(it, [(10, 16), (20, 26)], S["PLUS"], transcript_id="t", sequence_name="chr1")
    fc = mk_feature_collection(it, [ft, ft2], feature_collection_id="fc", sequence_name="chr1")
    gene = mk_gene(it, [tx], gene_id="g", sequence_name="chr1")
    objs = [("FeatureInterval", "gene.feature", ft), ("TranscriptInterval", "gene.transcript", tx),
            ("FeatureIntervalCollection", "gene.feature", fc), ("GeneInterval", "gene.gene", gene)]
    n = 0
    for cname, mod, o in objs:
        f = repo.fn(f"{mod}:{cname}.incorporate_variants")
        n += 1
        k, d = run(it, f, [ins], {}, o)
        if k != "ok":
            r.violation("C08.RD", f.qual, "identifier of an object derived by incorporating a variant", f"{cname}.incorporate_variants raises {d}", f)
            continue
        moved = (d.fields.get("start"), d.fields.get("end")) != (o.fields.get("start"), o.fields.get("end"))
        r.check(moved and str(d.fields.get("guid")) != str(o.fields.get("guid")), "C08.RD", f.qual, "identifier of an object derived by incorporating a variant",
                f"{cname}: after incorporating {(2, 3, 'ACGT')} the object spans ({d.fields.get('start')},{d.fields.get('end')}) (was ({o.fields.get('start')},"
                f"{o.fields.get('end')})) and has guid {d.fields.get('guid')}; the operand has {o.fields.get('guid')}: changed coordinates are other content", f)
    r.floor("C08.RD", "derived-object identifiers", n, 4)


def r2_model_keys(ctx):
    """the dictionaries written by to_dict carry only keys the corresponding marshmallow model declares (an undeclared key
    makes Model.Schema().load(obj.to_dict()) fail).  Interpreted: to_dict is evaluated on objects of every class built by
    the analyser (chromosome and chunk coordinates) and the keys actually written are compared with the model's fields."""
    r, repo = ctx.r, ctx.repo
    it = gene_interp(repo, max_steps=10 ** 10)
    S = strands(it)
    where = {"FeatureInterval": "gene.feature", "TranscriptInterval": "gene.transcript", "GeneInterval": "gene.gene",
             "FeatureIntervalCollection": "gene.feature", "AnnotationCollection": "gene.collections",
             "VariantInterval": "gene.variants", "VariantIntervalCollection": "gene.variants"}
    parent = chunk_parent(it, GENOME, 2, 49, alphabet="NT_EXTENDED")
    ms = models()
    objs = [build(it, S, parent, m) for m in ms]
    genes = [o for o, m in zip(objs, ms) if m["kind"] == "gene"]
    fcs = [o for o, m in zip(objs, ms) if m["kind"] != "gene"]
    var = it.apply(ClassTok("VariantInterval"), [10, 12, "T", "delins"], {"parent_or_seq_chunk_parent": parent, "variant_name": "v"}, None, 0)
    samples = {"GeneInterval": genes[0], "TranscriptInterval": genes[0].fields["transcripts"][0], "FeatureIntervalCollection": fcs[0],
               "FeatureInterval": fcs[0].fields["feature_intervals"][0],
               "AnnotationCollection": mk_collection(it, genes, fcs, sequence_name="chr1", parent_or_seq_chunk_parent=parent),
               "VariantInterval": var,
               "VariantIntervalCollection": it.apply(ClassTok("VariantIntervalCollection"), [[var]],
                                                      {"variant_collection_id": "vc", "parent_or_seq_chunk_parent": parent}, None, 0)}
    n = 0
    for cname, (mname, conv) in MODEL_OF.items():
        f = repo.fn(f"{where[cname]}:{cname}.to_dict")
        fields = model_fields(repo, mname)
        for chrom_rel in (True, False):
            k, d = run(it, f, [], {"chromosome_relative_coordinates": chrom_rel} if "chromosome_relative_coordinates" in f.pos_params else {},
                       samples[cname])
            if k != "ok":
                r.violation("C08.R2", f.qual, "to_dict", f"{cname}.to_dict(chromosome_relative_coordinates={chrom_rel}) raises {d}", f)
                continue
            n += 1
            for key in d:
                r.check(key in fields, "C08.R2", f.qual, f"key {key}",
                        f"{cname}.to_dict writes key {key!r} which {mname} does not declare (fields: {sorted(fields)}): "
                        f"{mname}.Schema().load(obj.to_dict()) rejects it", f)
            if "chromosome_relative_coordinates" not in f.pos_params:
                break
    r.floor("C08.R2", "to_dict evaluations", n, 7)


def r2b_model_fields_forwarded(ctx):
    """strengthening (never alarms): every declared model field is read by Model.to_<object>; the round trips in RK decide the
    behaviour on the enumerated objects"""
    r, repo = ctx.r, ctx.repo
    r.soften("C08.R2b")
    for cname, (mname, conv) in MODEL_OF.items():
        fields = model_fields(repo, mname)
        conv_fn = repo.fn(f"io.models:{mname}.{conv}")
        used = {src(x) for x in ast.walk(conv_fn.node) if isinstance(x, ast.Attribute) and dotted(x.value) == "self"}
        for fld in fields:
            r.check(f"self.{fld}" in used, "C08.R2b", conv_fn.qual, f"field {fld} forwarded",
                    f"{mname}.{conv} never reads self.{fld}: the value is lost when the model is turned into an object", conv_fn)


def rq_chunk_dictionaries(ctx):
    """the dictionary form in chunk coordinates (`to_dict(chromosome_relative_coordinates=False)`) of intervals built on chunks
    that contain, clip and miss them: the listed blocks are the chunk-relative blocks, the chromosome-coordinate dictionary is
    that of the chromosome-built twin.  Decided with the chunk-twin evaluation of C07 (same interpreter, same oracle); only the
    dictionary questions are reported here."""
    from . import c07
    from ..par import pmap
    specs = []
    for kind in ("tx", "feat", "ctx0"):
        for lay in c07.LAYOUTS[:3]:
            for sn in ("PLUS", "MINUS"):
                lo, hi = lay[0][0], lay[-1][1]
                for cs, ce in ((lo - 2, hi + 2), (lo + 2, hi + 2), (lo - 2, hi - 2), (lo + 1, hi - 1), (lay[0][1] - 1, hi)):
                    if 0 <= cs < ce:
                        specs.append((kind, lay, sn, cs, ce))
    ctx.r.floor("C08.RQ", "chunk-coordinate dictionary cases", len(specs), 60)
    results = pmap(c07._runner(ctx.repo, c07._tx_case), specs)
    results = [(n_, [(k_, m_, q_) for k_, m_, q_ in outs if k_.startswith("to_dict") or k_ in ("construct", "chunk construct", "uninterpretable")])
               for n_, outs in results]
    _report(ctx, "C08.RQ", results, [("gene.transcript:TranscriptInterval.to_dict", "chunk-coordinate blocks = chunk-relative location"),
                                     ("gene.feature:FeatureInterval.to_dict", "chunk-coordinate blocks = chunk-relative location")])


RULES = [
    ("C08.RK", rk_round_trips),
    ("C08.RQ", rq_chunk_dictionaries),
    ("C08.RG", rg_identifiers),
    ("C08.RD", rg_derived_identifiers),
    ("C08.R2", r2_model_keys),
    ("C08.R2b", r2b_model_fields_forwarded),
]
