"""C20 - gene and collection aggregates are the stated functions of their children.

RK  the analyser interprets GeneInterval / FeatureIntervalCollection / AnnotationCollection construction and their
    aggregate accessors for generated child sets (1..3 children, strand mix, coding mix, primary flags none / one /
    several, ties in CDS length and in spliced length; no parent, chromosome, chunk with an offset) and compares with an
    integer oracle: span, is_coding, feature_types, primary member and its accessors, merged transcript / CDS /
    feature blocks, iteration order."""
import itertools

from ..genekernel import (chrom_parent, chunk_parent, gene_interp, mk_collection, mk_feature, mk_feature_collection,
                          mk_gene, mk_transcript)
from ..interp import ClassTok, Obj, Raised, Uninterpretable
from ..lockernel import blocks_of, is_empty_obj, run, strand_of, strands
from .c05 import GENOME, _report, _runner, bases
from .c07 import consistent_frames

def _stable(x):
    # process-independent selector (the builtin hash of strings changes from run to run)
    import zlib
    return zlib.crc32(repr(x).encode())


EXPLANATION = (
    "GeneInterval, FeatureIntervalCollection and AnnotationCollection are built inside the analyser's interpreter from "
    "generated child sets (1-3 transcripts / features; both strands mixed; coding and non-coding; primary flag on none, "
    "one or two members; ties in CDS length and in spliced length; no parent / chromosome / offset chunk) and compared "
    "with an integer oracle: span = (min start, max end), is_coding = any child coding, feature_types = union, primary = "
    "flagged member (two flags -> error) else longest CDS, then longest spliced length, then earliest; primary "
    "sequence / CDS / protein accessors return that member's values; merged transcript / CDS / feature blocks = union "
    "of the children's chromosome blocks; annotation collection children sorted by start."
)

TX = [
    dict(exons=[(4, 10), (14, 20)], strand="PLUS", cds=[(6, 10), (14, 16)]),       # cds 6, len 12
    dict(exons=[(5, 11), (13, 19)], strand="PLUS", cds=[(5, 11)]),                 # cds 6, len 12  (ties with the first)
    dict(exons=[(3, 21)], strand="MINUS", cds=None),                               # non-coding, len 18
    dict(exons=[(8, 12), (22, 30)], strand="MINUS", cds=[(9, 12), (22, 28)]),     # cds 9, len 12
    dict(exons=[(25, 31)], strand="PLUS", cds=None),                               # non-coding, len 6
    dict(exons=[(6, 12), (16, 22)], strand="PLUS", cds=[(8, 11)]),                 # cds 3, len 12
    dict(exons=[(0, 24)], strand="PLUS", cds=[(0, 24)]),                           # cds 24 with an in-frame stop (ATG GCA TTG TAA ...): read-through
]
FT = [
    dict(blocks=[(4, 9), (12, 15)], strand="PLUS", types=["a", "b"]),   # len 8
    dict(blocks=[(6, 14)], strand="MINUS", types=["b"]),               # len 8 (ties)
    dict(blocks=[(20, 23)], strand="PLUS", types=None),                # len 3
    dict(blocks=[(2, 5), (8, 18)], strand="MINUS", types=["c"]),      # len 13
]


def union_blocks(blocks):
    out = []
    for s, e in sorted(blocks):
        if out and s <= out[-1][1]:
            out[-1] = (out[-1][0], max(out[-1][1], e))
        else:
            out.append((s, e))
    # adjacent blocks stay separate unless they overlap: union() merges overlapping only; touching blocks are merged by
    # has_overlap? no - [a,b) and [b,c) do not overlap
    res = []
    for s, e in sorted(blocks):
        if res and s < res[-1][1]:
            res[-1] = (res[-1][0], max(res[-1][1], e))
        else:
            res.append((s, e))
    return res


def positions(blocks):
    return sorted({p for s, e in blocks for p in range(s, e)})


def _gene_case(repo, it, S, spec):
    idxs, flags, parent_kind = spec
    out = []
    n = 0
    F = it.enum("CDSFrame")
    nm = {0: "ZERO", 1: "ONE", 2: "TWO"}
    if parent_kind == "chrom":
        parent, off = chrom_parent(it, GENOME, alphabet="NT_EXTENDED"), 0
    elif parent_kind == "chunk":
        parent, off = chunk_parent(it, GENOME, 2, 45, alphabet="NT_EXTENDED"), 2
    elif parent_kind == "cut":
        # a chunk that cuts into the members (and into their CDSs): lengths that rank the members are those of the whole members
        parent, off = chunk_parent(it, GENOME, 10, 45, alphabet="NT_EXTENDED"), 10
    elif parent_kind == "late":
        # the members are built without a parent and receive the gene's parent when the gene is built
        parent, off = chrom_parent(it, GENOME, alphabet="NT_EXTENDED"), 0
    else:
        parent, off = None, 0
    desc = f"gene of transcripts {list(idxs)} primary flags {list(flags)} parent={parent_kind}"
    q = "gene.gene:GeneInterval"
    txs = []
    for i, fl in zip(idxs, flags):
        t = TX[i]
        kw = dict(transcript_id=f"t{i}", is_primary_tx=fl, sequence_name="chr1", parent_or_seq_chunk_parent=None if parent_kind == "late" else parent)
        if t["cds"]:
            fr = consistent_frames(t["cds"], t["strand"], 0)
            txs.append(mk_transcript(it, t["exons"], S[t["strand"]], t["cds"], [F[nm[x]] for x in fr], **kw))
        else:
            txs.append(mk_transcript(it, t["exons"], S[t["strand"]], **kw))
    nflag = sum(1 for f in flags if f)
    try:
        gt = it.enum("Biotype")["protein_coding"] if sum(idxs) % 2 == 0 else None
        g = mk_gene(it, txs, gene_id="g", gene_symbol="gs", gene_type=gt,
                    sequence_name="chr1", parent_or_seq_chunk_parent=parent)
    except Raised as ex:
        n += 1
        if nflag > 1 and ex.exc_name == "ValidationException":
            return n, out
        return n, [("construct", f"{desc}: construction raises {ex.exc_name}", f"{q}.__init__")]
    n += 1
    if nflag > 1:
        return n, [("two primary flags refused", f"{desc}: more than one member is flagged primary but no error is raised", f"{q}.__init__")]
    members = [TX[i] for i in idxs]
    lo, hi = min(t["exons"][0][0] for t in members), max(t["exons"][-1][1] for t in members)
    if (g.fields["start"], g.fields["end"]) != (lo, hi):
        out.append(("span", f"{desc}: span ({g.fields['start']},{g.fields['end']}); min start / max end of the children is ({lo},{hi})", f"{q}.__init__"))
    k, v = run(it, repo.fn(f"{q}.is_coding"), [], {}, g)
    n += 1
    if k != "ok" or bool(v) != any(t["cds"] for t in members):
        out.append(("is_coding", f"{desc}: is_coding -> {k}:{v}; some transcript coding: {any(t['cds'] for t in members)}", f"{q}.is_coding"))
    # primary member
    if nflag == 1:
        want = flags.index(True)
    else:
        def key(j):
            t = members[j]
            cds = sum(e - s for s, e in t["cds"]) if t["cds"] else 0
            ln = sum(e - s for s, e in t["exons"])
            return (-cds, -ln, j)
        want = sorted(range(len(members)), key=key)[0]
    prim = g.fields.get("primary_transcript")
    got = [j for j, t in enumerate(txs) if t is prim]
    n += 1
    if got != [want]:
        out.append(("primary transcript", f"{desc}: primary transcript is member {got} ({prim.fields.get('transcript_id') if isinstance(prim, Obj) else prim}); "
                    f"documented choice (flag, longest CDS, longest spliced length, earliest) is member {want} (t{idxs[want]})", "gene.interval:AbstractFeatureIntervalCollection._find_primary_feature"))
    else:
        for acc, sub in (("get_primary_transcript", None), ("get_primary_feature", None), ("get_primary_cds", "cds")):
            n += 1
            k, v = run(it, repo.fn(f"{q}.{acc}"), [], {}, g)
            target = txs[want] if sub is None else txs[want].fields.get("cds")
            if k != "ok" or v is not target:
                out.append((acc, f"{desc}: {acc}() does not return the primary member's {'own object' if sub is None else sub}", f"{q}.{acc}"))
        if parent is not None:
            t = members[want]
            n += 1
            k, v = run(it, repo.fn(f"{q}.get_primary_transcript_sequence"), [], {}, g)
            from .c01 import enum_positions
            inside = [p for p in enum_positions(t["exons"], t["strand"]) if parent_kind not in ("chunk", "cut") or off <= p < 45]
            wseq = bases(inside, t["strand"])
            gotseq = v.fields.get("sequence") if k == "ok" and isinstance(v, Obj) else v
            if k != "ok" or gotseq != wseq:
                out.append(("get_primary_transcript_sequence", f"{desc}: primary transcript sequence -> {k}:{gotseq}; the primary member's sequence is {wseq!r}", f"{q}.get_primary_transcript_sequence"))
            if t["cds"]:
                n += 2
                k1, v1 = run(it, repo.fn(f"{q}.get_primary_cds_sequence"), [], {}, g)
                # (the member's own answer is the reference - also when it is a refusal: members that were built without a parent
                # and received the gene's parent afterwards keep answers memoised before that, as _reset_parent documents)
                ref_cds = txs[want].fields["cds"]
                k2, v2 = run(it, repo.fn("gene.cds:CDSInterval.extract_sequence"), [], {}, ref_cds)
                sq = lambda x: x.fields.get("sequence") if isinstance(x, Obj) else x  # noqa: E731
                if k1 != k2 or (k1 == "ok" and sq(v1) != sq(v2)):
                    out.append(("get_primary_cds_sequence", f"{desc}: primary CDS sequence differs from the primary member's CDS sequence", f"{q}.get_primary_cds_sequence"))
                k1, v1 = run(it, repo.fn(f"{q}.get_primary_protein"), [], {}, g)
                k2, v2 = run(it, repo.fn("gene.cds:CDSInterval.translate"), [], {}, ref_cds)
                if k1 != k2 or (k1 == "ok" and sq(v1) != sq(v2)):
                    out.append(("get_primary_protein", f"{desc}: primary protein differs from the primary member's translation", f"{q}.get_primary_protein"))
    # a second gene around the same transcript objects (other order): the inferred primary is a function of that gene's own
    # children, not of genes built earlier from them
    if nflag == 0 and len(txs) > 1:
        n += 1
        rev = list(reversed(txs))
        rmembers = list(reversed(members))

        def rkey(j):
            t = rmembers[j]
            cds = sum(e - s_ for s_, e in t["cds"]) if t["cds"] else 0
            return (-cds, -sum(e - s_ for s_, e in t["exons"]), j)
        want2 = sorted(range(len(rmembers)), key=rkey)[0]
        try:
            g2 = mk_gene(it, rev, gene_id="g2", sequence_name="chr1", parent_or_seq_chunk_parent=parent)
            prim2 = g2.fields.get("primary_transcript")
            got2 = [j for j, t in enumerate(rev) if t is prim2]
            if got2 != [want2]:
                out.append(("primary transcript of a second gene on the same children", f"{desc}: a second gene built from the same transcript "
                            f"objects in reverse order picks member {got2}; the documented choice among its children is member {want2} "
                            f"({rev[want2].fields.get('transcript_id')})", f"{q}.__init__"))
        except Raised as ex:
            out.append(("primary transcript of a second gene on the same children", f"{desc}: building a second gene from the same transcript "
                        f"objects raises {ex.exc_name} although no member is flagged primary by the caller", f"{q}.__init__"))
    # an export reads the gene: the children stay in the order given (the tie-break of the primary rule is the position in that
    # list), and a gene re-built from the exported dictionary names the same primary
    if nflag <= 1:
        n += 2
        k, rows = run(it, repo.fn(f"{q}.to_gff"), [], {}, g)
        if k == "ok":
            try:
                list(it.iterate(rows))
            except Raised:
                pass
        if [id(t) for t in g.fields["transcripts"]] != [id(t) for t in txs]:
            out.append(("children order after an export", f"{desc}: after to_gff() the gene lists its transcripts as "
                        f"{[t.fields.get('transcript_id') for t in g.fields['transcripts']]}; they were given as {[t.fields.get('transcript_id') for t in txs]}", f"{q}.to_gff"))
        k1, d = run(it, repo.fn(f"{q}.to_dict"), [], {}, g)
        k2, g3 = run(it, repo.fn(f"{q}.from_dict"), [d], {}, ClassTok("GeneInterval")) if k1 == "ok" else (k1, d)
        if k2 != "ok":
            out.append(("primary after a dictionary round trip", f"{desc}: to_dict / from_dict after an export -> {k2}:{g3}", f"{q}.from_dict"))
        else:
            p3 = g3.fields.get("primary_transcript")
            got3 = p3.fields.get("transcript_id") if isinstance(p3, Obj) else None
            if got3 != f"t{idxs[want]}":
                out.append(("primary after a dictionary round trip", f"{desc}: the gene exported with to_gff() and re-built from to_dict() names {got3} "
                            f"primary; the documented choice among the children as given is t{idxs[want]}", f"{q}.to_gff"))
    # merged transcript / CDS: union of the children's chromosome blocks
    for acc, blocks in (("get_merged_transcript", [b for t in members for b in t["exons"]]),
                        ("get_merged_cds", [b for t in members if t["cds"] for b in t["cds"]])):
        n += 1
        k, v = run(it, repo.fn(f"{q}.{acc}"), [], {}, g)
        if not blocks:
            if not (k == "raise" and v == "NoncodingTranscriptError"):
                out.append((acc, f"{desc}: {acc} on a gene without CDS -> {k}:{v}; documented NoncodingTranscriptError", f"{q}.{acc}"))
            continue
        if k != "ok":
            mixed = len({t["strand"] for t in members if (acc != "get_merged_cds" or t["cds"])}) > 1
            if v in ("AttributeError", "KeyError", "IndexError", "TypeError"):
                out.append((acc + f" internal {v}", f"{desc} (gene_type={'set' if gt else None}): {acc} raises {v}", f"{q}.{acc}"))
                continue
            out.append((acc + (" [children on both strands]" if mixed else ""), f"{desc}: {acc} raises {v}", f"{q}.{acc}"))
            continue
        gb = list(zip(v.fields["_genomic_starts"], v.fields["_genomic_ends"]))
        ub = union_blocks(blocks)
        if positions(gb) != positions(blocks):
            out.append((acc, f"{desc}: {acc} covers blocks {gb}; the union of the children's blocks is {union_blocks(blocks)}", f"{q}.{acc}"))
        elif gb != sorted(gb) or (v.fields.get("start"), v.fields.get("end")) != (ub[0][0], ub[-1][1]) or any(a >= b for a, b in gb):
            # the returned object itself is well formed: blocks in ascending order, start / end = its span (anything done with it next
            # - another collection around it, an export - reads these)
            out.append((acc + " returns a well-formed feature", f"{desc}: the feature returned by {acc} lists its blocks as {gb} with start/end "
                        f"({v.fields.get('start')},{v.fields.get('end')}); ascending blocks spanning ({ub[0][0]},{ub[-1][1]}) are expected", f"{q}.{acc}"))
        elif parent_kind == "chunk":
            loc = v.fields["_location"]
            want_rel = [p - off for p in positions(blocks) if 2 <= p < 45]
            got_rel = [] if is_empty_obj(loc) else positions(blocks_of(loc))
            if got_rel != want_rel:
                out.append((acc + " on chunk", f"{desc}: {acc}: chunk-relative location covers {got_rel}; expected {want_rel}", f"{q}.{acc}"))
    return n, out


def _fc_case(repo, it, S, spec):
    idxs, flags, parent_kind = spec
    out = []
    n = 0
    if parent_kind == "chunk":
        parent, off = chunk_parent(it, GENOME, 1, 40, alphabet="NT_EXTENDED"), 1
    elif parent_kind == "chrom":
        parent, off = chrom_parent(it, GENOME, alphabet="NT_EXTENDED"), 0
    else:
        parent, off = None, 0
    q = "gene.feature:FeatureIntervalCollection"
    desc = f"feature collection of features {list(idxs)} primary flags {list(flags)} parent={parent_kind}"
    members = [FT[i] for i in idxs]
    feats = [mk_feature(it, f["blocks"], S[f["strand"]], feature_types=f["types"], feature_name=f"f{i}", is_primary_feature=fl,
                        sequence_name="chr1", parent_or_seq_chunk_parent=parent) for (i, fl), f in zip(zip(idxs, flags), members)]
    nflag = sum(1 for f in flags if f)
    try:
        fc = mk_feature_collection(it, feats, feature_collection_id="fc", sequence_name="chr1", parent_or_seq_chunk_parent=parent)
    except Raised as ex:
        if nflag > 1 and ex.exc_name == "ValidationException":
            return 1, out
        return 1, [("construct", f"{desc}: construction raises {ex.exc_name}", f"{q}.__init__")]
    n += 1
    if nflag > 1:
        return n, [("two primary flags refused", f"{desc}: more than one member is flagged primary but no error is raised", f"{q}.__init__")]
    lo, hi = min(f["blocks"][0][0] for f in members), max(f["blocks"][-1][1] for f in members)
    if (fc.fields["start"], fc.fields["end"]) != (lo, hi):
        out.append(("span", f"{desc}: span ({fc.fields['start']},{fc.fields['end']}); children give ({lo},{hi})", f"{q}.__init__"))
    wt = sorted({t for f in members for t in (f["types"] or [])})
    gt = sorted(fc.fields["feature_types"])
    if gt != wt:
        out.append(("feature_types", f"{desc}: feature_types {gt}; union of the features' types is {wt}", f"{q}.__init__"))
    if nflag == 1:
        want = flags.index(True)
    else:
        want = sorted(range(len(members)), key=lambda j: (-sum(e - s for s, e in members[j]["blocks"]), j))[0]
    got = [j for j, f in enumerate(feats) if f is fc.fields.get("primary_feature")]
    if got != [want]:
        out.append(("primary feature", f"{desc}: primary feature is member {got}; documented choice is member {want}", "gene.interval:AbstractFeatureIntervalCollection._find_primary_feature"))
    n += 1
    k, v = run(it, repo.fn(f"{q}.get_merged_feature"), [], {}, fc)
    blocks = [b for f in members for b in f["blocks"]]
    if k != "ok":
        mixed = len({f["strand"] for f in members}) > 1
        out.append(("get_merged_feature" + (" [children on both strands]" if mixed else ""), f"{desc}: get_merged_feature raises {v}", f"{q}.get_merged_feature"))
    else:
        gb = list(zip(v.fields["_genomic_starts"], v.fields["_genomic_ends"]))
        if positions(gb) != positions(blocks):
            out.append(("get_merged_feature", f"{desc}: merged feature covers {gb}; union of the children's blocks is {union_blocks(blocks)}", f"{q}.get_merged_feature"))
        elif parent_kind == "chunk":
            loc = v.fields["_location"]
            want_rel = [p - off for p in positions(blocks) if 1 <= p < 40]
            got_rel = [] if is_empty_obj(loc) else positions(blocks_of(loc))
            if got_rel != want_rel:
                out.append(("get_merged_feature on chunk", f"{desc}: merged feature's chunk-relative location covers {got_rel}; expected {want_rel}", f"{q}.get_merged_feature"))
    k, v = run(it, repo.fn(f"{q}.is_coding"), [], {}, fc)
    if k != "ok" or v is not False:
        out.append(("is_coding", f"{desc}: feature collection is_coding -> {k}:{v}", f"{q}.is_coding"))
    # the primary accessors return the primary member and its values
    if got == [want]:
        n += 1
        k, v = run(it, repo.fn(f"{q}.get_primary_feature"), [], {}, fc)
        if k != "ok" or v is not feats[want]:
            out.append(("get_primary_feature", f"{desc}: get_primary_feature() does not return the primary member's own object ({k})", f"{q}.get_primary_feature"))
        if parent is not None and repo.has_fn(f"{q}.get_primary_feature_sequence"):
            n += 1
            k1, v1 = run(it, repo.fn(f"{q}.get_primary_feature_sequence"), [], {}, fc)
            k2, v2 = run(it, repo.fn("gene.interval:AbstractFeatureInterval.get_spliced_sequence"), [], {}, feats[want])
            s1 = v1.fields.get("sequence") if k1 == "ok" and isinstance(v1, Obj) else v1
            s2 = v2.fields.get("sequence") if k2 == "ok" and isinstance(v2, Obj) else v2
            if (k1, s1) != (k2, s2):
                out.append(("get_primary_feature_sequence", f"{desc}: get_primary_feature_sequence() -> {k1}:{s1}; the primary member's spliced sequence is {k2}:{s2}",
                            f"{q}.get_primary_feature_sequence"))
    return n, out


def _ac_case(repo, it, S, spec):
    order, = spec
    out = []
    q = "gene.collections:AnnotationCollection"
    genes, fcs = [], []
    starts = {}
    for name in order:
        if name.startswith("g"):
            i = int(name[1:])
            t = TX[i]
            tx = mk_transcript(it, t["exons"], S[t["strand"]], transcript_id=f"t{i}", sequence_name="chr1")
            genes.append(mk_gene(it, [tx], gene_id=name, sequence_name="chr1"))
            starts[name] = t["exons"][0][0]
        else:
            i = int(name[1:])
            f = FT[i]
            fcs.append(mk_feature_collection(it, [mk_feature(it, f["blocks"], S[f["strand"]], feature_name=name, sequence_name="chr1")],
                                             feature_collection_id=name, sequence_name="chr1"))
            starts[name] = f["blocks"][0][0]
    ac = mk_collection(it, genes, fcs, sequence_name="chr1")
    k, v = run(it, repo.fn(f"{q}.iter_children"), [], {}, ac)
    ids = [o.fields.get("gene_id") or o.fields.get("feature_collection_id") for o in it.iterate(v)] if k == "ok" else None
    desc = f"annotation collection built from {list(order)}"
    if ids is None or [starts[i] for i in ids] != sorted(starts.values()) or sorted(ids) != sorted(order):
        out.append(("children ordered by start", f"{desc}: iteration order {ids} (starts {[starts[i] for i in ids] if ids else None})", f"{q}.children"))
    # the same order through every way of walking the members: the iterator protocol (`for x in collection`, list(), unpacking) and
    # the children accessor, also on a collection returned by a query
    cid = lambda o: o.fields.get("gene_id") or o.fields.get("feature_collection_id")  # noqa: E731
    walks = [("for member in collection", lambda c_: [cid(o) for o in it.iterate(c_)])]
    if repo.has_fn(f"{q}.children"):
        walks.append(("collection.children", lambda c_: [cid(o) for o in it.iterate(it.getattr(c_, "children", None, 0))]))
    targets = [("", ac)]
    kq, sub = run(it, repo.fn(f"{q}.query_by_position"), [0, 60], {"completely_within": False}, ac)
    if kq == "ok":
        targets.append((" (result of query_by_position(0, 60))", sub))
    for tname, tgt in targets:
        for wname, walk in walks:
            try:
                ids2 = walk(tgt)
            except Raised as ex:
                ids2 = f"raises {ex.exc_name}"
            if not isinstance(ids2, list) or [starts[i] for i in ids2] != sorted(starts.values()) or sorted(ids2) != sorted(order):
                out.append(("children ordered by start", f"{desc}{tname}: {wname} walks the members as {ids2} "
                            f"(starts {[starts[i] for i in ids2] if isinstance(ids2, list) else None}); ordered by start they are "
                            f"{sorted(order, key=lambda i_: starts[i_])}", f"{q}.children"))
    lo = min(starts.values())
    his = [max(TX[int(n_[1:])]["exons"][-1][1] if n_.startswith("g") else FT[int(n_[1:])]["blocks"][-1][1] for n_ in order)]
    if (ac.fields.get("start"), ac.fields.get("end")) != (lo, his[0]):
        out.append(("inferred bounds", f"{desc}: bounds ({ac.fields.get('start')},{ac.fields.get('end')}); children give ({lo},{his[0]})", f"{q}.__init__"))
    k, v = run(it, repo.fn(f"{q}.__len__"), [], {}, ac)
    if k != "ok" or v != len(order):
        out.append(("len", f"{desc}: len -> {v}", f"{q}.__len__"))
    return 3, out


BIG_TX = [
    # (exons, cds): the ranking compares (CDS length, spliced length, position) lexicographically at any size
    ([(0, 100)], [(0, 99)]),                                   # cds 99, len 100
    ([(0, 11 * 2 ** 20)], [(0, 90)]),                          # cds 90, len 11.5M (longer, smaller CDS)
    ([(5, 2 ** 21 + 5), (2 ** 22, 2 ** 22 + 2 ** 20)], None),  # non-coding, len 3M
    ([(10, 2 ** 24)], [(10, 109)]),                            # cds 99 (ties with the first), len 16M
]


def _big_gene_case(repo, it, S, spec):
    idxs, kind = spec
    F = it.enum("CDSFrame")
    out = []
    members = [BIG_TX[i] for i in idxs]
    if kind == "gene":
        kids = [mk_transcript(it, ex, S["PLUS"], cds, [F["ZERO"]] * len(cds), transcript_id=f"b{i}") if cds else
                mk_transcript(it, ex, S["PLUS"], transcript_id=f"b{i}") for i, (ex, cds) in zip(idxs, members)]
        q = "gene.gene:GeneInterval.__init__"
        try:
            o = mk_gene(it, kids, gene_id="big")
        except Raised as ex_:
            return 1, [("large members", f"gene of large transcripts {list(idxs)}: construction raises {ex_.exc_name}", q)]
        prim = o.fields.get("primary_transcript")
        key = lambda j: (-(sum(e - s_ for s_, e in members[j][1]) if members[j][1] else 0), -sum(e - s_ for s_, e in members[j][0]), j)  # noqa: E731
    else:
        kids = [mk_feature(it, ex, S["PLUS"], feature_name=f"b{i}") for i, (ex, _c) in zip(idxs, members)]
        q = "gene.feature:FeatureIntervalCollection.__init__"
        try:
            o = mk_feature_collection(it, kids, feature_collection_id="big")
        except Raised as ex_:
            return 1, [("large members", f"feature collection of large features {list(idxs)}: construction raises {ex_.exc_name}", q)]
        prim = o.fields.get("primary_feature")
        key = lambda j: (-sum(e - s_ for s_, e in members[j][0]), j)  # noqa: E731
    want = sorted(range(len(members)), key=key)[0]
    got = [j for j, k_ in enumerate(kids) if k_ is prim]
    if got != [want]:
        out.append(("primary member among large members", f"{kind} of members {[BIG_TX[i] for i in idxs]}: primary is member {got}; documented "
                    f"choice (longest CDS, then longest spliced length, then earliest) is member {want}",
                    "gene.interval:AbstractFeatureIntervalCollection._find_primary_feature"))
    lo, hi = min(m[0][0][0] for m in members), max(m[0][-1][1] for m in members)
    if (o.fields["start"], o.fields["end"]) != (lo, hi):
        out.append(("span of large members", f"{kind}: span ({o.fields['start']},{o.fields['end']}); expected ({lo},{hi})", q))
    return 1, out


def rk_genes(ctx):
    specs = []
    for r_ in (1, 2, 3):
        for idxs in itertools.permutations(range(len(TX)), r_):
            if r_ == 3 and (sum(idxs) + idxs[0]) % (2 if ctx.thorough else 5):
                continue
            flagsets = [tuple([None] * r_)]
            flagsets += [tuple(True if j == i else None for j in range(r_)) for i in range(r_)]
            if r_ > 1:
                flagsets.append(tuple([True, True] + [None] * (r_ - 2)))
                flagsets.append(tuple([False] * r_))
            for fl in flagsets:
                for pk in (("none", "chrom", "chunk") if (sum(idxs) % 3 == 0 or r_ < 3) else ("chunk",)):
                    specs.append((idxs, fl, pk))
                if r_ < 3 and fl == flagsets[0]:
                    specs.append((idxs, fl, "late"))
                    specs.append((idxs, fl, "cut"))
    ctx.r.floor("C20.RK", "gene cases", len(specs), 150)
    from ..par import pmap
    results = pmap(_runner(ctx.repo, _gene_case), specs)
    big = [(idxs, kind) for r_ in (2, 3) for idxs in itertools.permutations(range(len(BIG_TX)), r_) for kind in ("gene", "fc")]
    results += pmap(_runner(ctx.repo, _big_gene_case), big, min_items=8)
    q = "gene.gene:GeneInterval"
    _report(ctx, "C20.RK", results, [(f"{q}.__init__", "span / primary"), (f"{q}.is_coding", "any transcript coding"),
                                     ("gene.interval:AbstractFeatureIntervalCollection._find_primary_feature", "flag, CDS length, length, index"),
                                     (f"{q}.get_merged_transcript", "union of exon blocks"), (f"{q}.get_merged_cds", "union of CDS blocks"),
                                     (f"{q}.get_primary_protein", "primary member's values")])


def rk_feature_collections(ctx):
    specs = []
    for r_ in (1, 2, 3):
        for idxs in itertools.permutations(range(len(FT)), r_):
            flagsets = [tuple([None] * r_)] + [tuple(True if j == i else None for j in range(r_)) for i in range(r_)]
            if r_ > 1:
                flagsets.append(tuple([True, True] + [None] * (r_ - 2)))
            for fl in flagsets:
                for pk in ("none", "chunk") if r_ > 1 else ("none", "chrom", "chunk"):
                    specs.append((idxs, fl, pk))
    ctx.r.floor("C20.RF", "feature collection cases", len(specs), 100)
    from ..par import pmap
    results = pmap(_runner(ctx.repo, _fc_case), specs)
    q = "gene.feature:FeatureIntervalCollection"
    _report(ctx, "C20.RF", results, [(f"{q}.__init__", "span / types / primary"), (f"{q}.get_merged_feature", "union of feature blocks")])


def rk_annotation(ctx):
    names = ["g0", "g2", "g3", "f0", "f2", "g4"]
    specs = [(p,) for p in itertools.permutations(names, 4) if _stable(p) % (3 if not ctx.thorough else 1) == 0][:120]
    specs += [(tuple(names),), (tuple(reversed(names)),)]
    from ..par import pmap
    results = pmap(_runner(ctx.repo, _ac_case), specs)
    q = "gene.collections:AnnotationCollection"
    _report(ctx, "C20.RN", results, [(f"{q}.children", "sorted by start"), (f"{q}.__init__", "bounds inferred from children")])


RULES = [
    ("C20.RK", rk_genes),
    ("C20.RF", rk_feature_collections),
    ("C20.RN", rk_annotation),
]
