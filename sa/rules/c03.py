"""C03 - extracted sequence = base-by-base image of the coordinate map.

RK  the analyser interprets extract_sequence / reverse_strand / relative sub-intervals for every order type of
    1..2 block layouts (thorough 3) on both strands over a genome that contains every letter of the alphabet in
    both cases, and compares with the image oracle (IUPAC complement on the minus strand).
RS  derived Sequence objects (slice with every bound form incl. None/negative, reverse_complement, append of
    adjacent slices): the characters must equal the image of the recorded parent location.
    Unstranded locations are refused.
R1  strengthening note (never an alarm): when SingleInterval.extract_sequence slices with the literal form
    [self.start : self.end] the single-block kernel holds for all integers; otherwise only a note is written."""
import ast

from ..astutil import Aff, affine, NotAffine, call_tail, calls_in, enumerate_paths, src, strand_of_test
from ..genekernel import chrom_parent, gene_interp, mk_parent, mk_sequence
from ..interp import ClassTok, Raised, Uninterpretable, Obj
from ..lockernel import blocks_of, is_empty_obj, run, strand_of, strands
from ..model import AnalysisError
from ..par import pmap
from .c01 import _layouts, enum_positions
from .c15 import IUPAC_COMPLEMENT

EXPLANATION = (
    "RK/RS: Location.extract_sequence, reverse_strand, relative sub-intervals and Sequence.__getitem__/"
    "reverse_complement/append are interpreted by the analyser for every order type of 1-2 block layouts (3 in "
    "thorough), both strands, over a genome containing every letter of NT_EXTENDED_GAPPED in both cases, and compared "
    "with the image oracle (parent base at the i-th mapped position, IUPAC-complemented on the minus strand; recorded "
    "parent location of a derived sequence must spell its characters). R1: all-integers note on the literal slice form of "
    "SingleInterval.extract_sequence (informational; never alarms). Not decided: layouts with more blocks; other alphabets' tables are C15."
)

LOC = "location.location_impl"
GENOME = "ACGTUacgtuRYSWKMBDHVNryswkmbdhvn-ACGGTTCA"
ALPHA = "NT_EXTENDED_GAPPED"


def comp(ch):
    c = IUPAC_COMPLEMENT[ch.upper()]
    return c.lower() if ch.islower() else c


def ut(text):
    """U is identified with T for complement round trips (U -> A -> T is what the IUPAC complement does)"""
    return text.replace("U", "T").replace("u", "t")


def image(blocks, strand_name, genome=GENOME):
    pos = enum_positions(blocks, strand_name)
    if strand_name == "MINUS":
        return "".join(comp(genome[p]) for p in pos)
    return "".join(genome[p] for p in pos)


def _mk_loc(it, S, layout, sn, parent):
    if len(layout) == 1:
        return it.apply(ClassTok("SingleInterval"), [layout[0][0], layout[0][1], S[sn]], {"parent": parent}, None, 0)
    return it.apply(ClassTok("CompoundInterval"), [[b[0] for b in layout], [b[1] for b in layout], S[sn]],
                    {"parent": parent}, None, 0)


def _seq_str(v):
    return v.fields.get("sequence") if isinstance(v, Obj) and v.cls_name == "Sequence" else None


def _case(repo, it, S, layout, sn):
    out = []
    n = 0
    par = chrom_parent(it, GENOME, alphabet=ALPHA)
    layout = [b for b in layout]
    cls = "SingleInterval" if len(layout) == 1 else "CompoundInterval"
    try:
        loc = _mk_loc(it, S, layout, sn, par)
    except Raised as ex:
        return 1, [("construct", f"{layout}:{sn} raises {ex.exc_name}", f"{LOC}:{cls}.__init__")]
    stored = blocks_of(loc)
    overlapping = len(set(enum_positions(stored, sn))) != len(enum_positions(stored, sn))
    desc = f"{cls}{stored}:{sn}"
    f_ext = repo.fn(f"{LOC}:{cls}.extract_sequence")
    want = image(stored, sn)
    L = len(want)
    if L == 0:
        return 0, []
    # append() refuses overlapping / unordered blocks: only claim the image for layouts it accepts
    n += 1
    k, v = run(it, f_ext, [], {}, loc)
    if overlapping:
        if k == "ok" and _seq_str(v) != want:
            out.append(("extract_sequence", f"{desc}.extract_sequence() = {_seq_str(v)!r}; image is {want!r}", f_ext.qual))
        # a sequence located on overlapping blocks (a base read twice, e.g. a -1 frameshift): every slice keeps one recorded
        # position per character (plus strand; the minus-strand sub-interval order of overlapping blocks is not claimed)
        if sn == "PLUS" and k == "ok":
            try:
                s_ov = mk_sequence(it, want, ALPHA, parent=mk_parent(it, location=loc))
            except Raised:
                return n, out
            f_get = repo.fn("sequence.sequence:Sequence.__getitem__")
            for a in range(0, L):
                for b in range(a + 1, L + 1):
                    n += 1
                    kk, d = run(it, f_get, [slice(a, b)], {}, s_ov)
                    if kk != "ok":
                        out.append(("slice on overlapping blocks", f"{desc}: sequence[{a}:{b}] raises {d}", f_get.qual))
                        return n, out
                    p_ = d.fields.get("parent")
                    dl = p_.fields.get("location") if isinstance(p_, Obj) else None
                    npos = 0 if dl is None or is_empty_obj(dl) else sum(e - s_ for s_, e in blocks_of(dl))
                    spelled = "" if not npos else image(blocks_of(dl), strand_of(dl).name)
                    if d.fields["sequence"] != want[a:b] or npos != b - a or sorted(ut(spelled)) != sorted(ut(want[a:b])):
                        out.append(("slice on overlapping blocks", f"{desc}: sequence[{a}:{b}] = {d.fields['sequence']!r} is recorded on "
                                    f"{blocks_of(dl) if dl is not None and not is_empty_obj(dl) else None} ({npos} positions spelling {spelled!r}); "
                                    f"one position per character of {want[a:b]!r} is required", f_get.qual))
                        return n, out
        return n, out
    if k != "ok" or _seq_str(v) != want:
        out.append(("extract_sequence", f"{desc}.extract_sequence() -> {k}:{_seq_str(v) if k == 'ok' else v!r}; the base-by-base image is {want!r}", f_ext.qual))
        return n, out
    # asked again on the same object (the sequence is memoised), and asked of the blocks of a multi-block location after the
    # whole was extracted: same image
    n += 1
    k, v2 = run(it, f_ext, [], {}, loc)
    if k != "ok" or _seq_str(v2) != want:
        out.append(("extract_sequence repeated", f"{desc}.extract_sequence() a second time on the same object -> {k}:{_seq_str(v2) if k == 'ok' else v2!r}; "
                    f"the first answer (the image) was {want!r}", f_ext.qual))
    if cls == "CompoundInterval":
        kb, blocks_v = run(it, it.method(loc, "blocks"), [], {}, loc)
        for b in (blocks_v if kb == "ok" else []):
            n += 1
            (bs, be), = blocks_of(b)
            if be == bs:
                continue
            k, bv = run(it, repo.fn(f"{LOC}:SingleInterval.extract_sequence"), [], {}, b)
            wb = image([(bs, be)], sn)
            if k != "ok" or _seq_str(bv) != wb:
                out.append(("block sequence after whole extraction", f"{desc}: block [{bs},{be}) extracts {k}:{_seq_str(bv) if k == 'ok' else bv!r} "
                            f"after the whole location was extracted; its image is {wb!r}", f"{LOC}:SingleInterval.extract_sequence"))
                break
    # a location without direction has no 5'->3' reading: refused, never a silent plus-strand read
    if sn == "PLUS":
        n += 1
        try:
            uloc = _mk_loc(it, S, layout, "UNSTRANDED", par)
            k, v = run(it, f_ext, [], {}, uloc)
        except Raised as ex:
            k, v = "raise", ex.exc_name
        if k != "raise" or v != "InvalidStrandException":
            out.append(("unstranded refused", f"{cls}{stored}:UNSTRANDED.extract_sequence() -> {k}:{_seq_str(v) if k == 'ok' else v!r}; "
                        f"documented InvalidStrandException", f_ext.qual))
    # reversing the strand reverse-complements the sequence
    f_rev = repo.fn(f"{LOC}:{cls}.reverse_strand")
    n += 1
    k, rv = run(it, f_rev, [], {}, loc)
    if k == "ok":
        cls2 = rv.cls_name
        k2, v2 = run(it, repo.fn(f"{LOC}:{cls2}.extract_sequence"), [], {}, rv)
        other = "MINUS" if sn == "PLUS" else "PLUS"
        want2 = image(stored, other)
        if k2 != "ok" or _seq_str(v2) != want2:
            out.append(("reverse_strand", f"{desc}.reverse_strand().extract_sequence() -> {k2}:{_seq_str(v2) if k2 == 'ok' else v2!r}; expected the reverse complement {want2!r}", f_rev.qual))
    else:
        out.append(("reverse_strand", f"{desc}.reverse_strand() raises {rv}", f_rev.qual))
    # consecutive relative sub-intervals split the sequence
    f_riv = repo.fn(f"{LOC}:{cls}.relative_interval_to_parent_location")
    for kcut in range(0, L + 1):
        parts = []
        okp = True
        for a, b in ((0, kcut), (kcut, L)):
            if a == b:
                parts.append("")
                continue
            n += 1
            k, sub = run(it, f_riv, [a, b, S["PLUS"]], {}, loc)
            if k != "ok":
                okp = False
                out.append(("split", f"{desc}.relative_interval_to_parent_location({a},{b},+) raises {sub}", f_riv.qual))
                break
            k2, sv = run(it, repo.fn(f"{LOC}:{sub.cls_name}.extract_sequence"), [], {}, sub)
            if k2 != "ok":
                okp = False
                out.append(("split", f"{desc}: sub-interval [{a},{b}) sequence raises {sv}", f_riv.qual))
                break
            parts.append(_seq_str(sv))
        if okp and "".join(parts) != want:
            out.append(("split", f"{desc}: sub-interval sequences [0,{kcut}) + [{kcut},{L}) = {parts}; whole is {want!r}", f_riv.qual))
    # derived Sequence objects keep a consistent recorded location
    SEQ = "sequence.sequence:Sequence"
    locp = mk_parent(it, location=loc)
    try:
        s = mk_sequence(it, want, ALPHA, parent=locp)
    except Raised as ex:
        out.append(("sequence construct", f"Sequence({want!r}, parent location {desc}) raises {ex.exc_name}", f"{SEQ}.__init__"))
        return n, out

    def consistent(d, how, fn):
        nonlocal n
        n += 1
        if not (isinstance(d, Obj) and d.cls_name == "Sequence"):
            out.append((how, f"{desc}: {how} returned {d!r}", fn.qual))
            return
        p = d.fields.get("parent")
        dl = p.fields.get("location") if isinstance(p, Obj) else None
        if dl is None:
            out.append((how, f"{desc}: {how} lost the recorded location", fn.qual))
            return
        text = d.fields["sequence"]
        if is_empty_obj(dl):
            spelled = ""
        else:
            spelled = image(blocks_of(dl), strand_of(dl).name)
        if ut(text) != ut(spelled):
            out.append((how, f"{desc}: {how} has characters {text!r} but its recorded location {blocks_of(dl)}:{strand_of(dl)} spells {spelled!r}", fn.qual))

    f_get = repo.fn(f"{SEQ}.__getitem__")
    f_rc = repo.fn(f"{SEQ}.reverse_complement")
    f_app = repo.fn(f"{SEQ}.append")
    k, rc = run(it, f_rc, [], {}, s)
    if k != "ok":
        out.append(("reverse_complement", f"{desc}: reverse_complement raises {rc}", f_rc.qual))
    else:
        consistent(rc, "reverse_complement()", f_rc)
        wantrc = image(stored, "MINUS" if sn == "PLUS" else "PLUS")
        if ut(rc.fields["sequence"]) != ut(wantrc):
            out.append(("reverse_complement", f"{desc}: reverse_complement() = {rc.fields['sequence']!r}; expected {wantrc!r}", f_rc.qual))
        k2, rc2 = run(it, f_rc, [], {}, rc)
        if k2 == "ok":
            consistent(rc2, "reverse_complement() twice", f_rc)
    bounds = [(None, None), (None, 1), (1, None), (0, L), (1, L), (0, L - 1), (-1, None), (None, -1)]
    bounds += [(a, b) for a in range(0, L) for b in range(a + 1, L + 1) if (a + b) % 2 == 0]
    seen = set()
    for a, b in bounds:
        if (a, b) in seen:
            continue
        seen.add((a, b))
        ia, ib, _ = slice(a, b).indices(L)
        if ia >= ib:
            continue
        n += 1
        k, d = run(it, f_get, [slice(a, b)], {}, s)
        if k != "ok":
            out.append(("slice", f"{desc}: sequence[{a}:{b}] raises {d}; a valid slice of a located sequence", f_get.qual))
            continue
        if d.fields["sequence"] != want[a:b]:
            out.append(("slice", f"{desc}: sequence[{a}:{b}] = {d.fields['sequence']!r}; expected {want[a:b]!r}", f_get.qual))
        consistent(d, f"sequence[{a}:{b}]", f_get)
        if (ia + ib) % 3 == 0:
            k3, d3 = run(it, f_rc, [], {}, d)
            if k3 == "ok":
                consistent(d3, f"sequence[{a}:{b}].reverse_complement()", f_rc)
    # integer index
    for i in range(-L, L):
        n += 1
        k, d = run(it, f_get, [i], {}, s)
        if k != "ok":
            out.append(("integer index", f"{desc}: sequence[{i}] raises {d}; a valid index of a located sequence of length {L}", f_get.qual))
            continue
        if d.fields["sequence"] != want[i]:
            out.append(("integer index", f"{desc}: sequence[{i}] = {d.fields['sequence']!r}; expected {want[i]!r}", f_get.qual))
        consistent(d, f"sequence[{i}]", f_get)
    # append of adjacent slices
    for cut in range(1, L):
        k1, d1 = run(it, f_get, [slice(0, cut)], {}, s)
        k2, d2 = run(it, f_get, [slice(cut, L)], {}, s)
        if k1 == "ok" and k2 == "ok":
            n += 1
            k3, d3 = run(it, f_app, [d2], {}, d1)
            if k3 != "ok":
                out.append(("append", f"{desc}: appending adjacent slices [0,{cut}) + [{cut},{L}) raises {d3}", f_app.qual))
            else:
                if d3.fields["sequence"] != want:
                    out.append(("append", f"{desc}: append of slices = {d3.fields['sequence']!r}; expected {want!r}", f_app.qual))
                consistent(d3, f"sequence[0:{cut}].append(sequence[{cut}:{L}])", f_app)
            # the wrong order must be refused (5'->3' order = concatenation order)
            if cut != L - cut or True:
                k4, d4 = run(it, f_app, [d1], {}, d2)
                if k4 == "ok" and L > 1:
                    dl = d4.fields["parent"].fields.get("location") if isinstance(d4.fields.get("parent"), Obj) else None
                    if dl is not None:
                        consistent(d4, f"sequence[{cut}:{L}].append(sequence[0:{cut}])", f_app)
    return n, out


_W = {}


def rk_interpreted(ctx):
    r, repo = ctx.r, ctx.repo
    specs = []
    for nb in ([1, 2, 3] if ctx.thorough else [1, 2]):
        for layout in _layouts(nb, "tri"):
            if max(e for _, e in layout) > len(GENOME):
                continue
            for sn in ("PLUS", "MINUS"):
                specs.append((layout, sn))
    # every letter of the alphabet, both cases: the whole genome as one block and as two / three blocks
    n_ = len(GENOME)
    for layout in (((0, n_),), ((0, 11), (11, n_)), ((0, 7), (9, 25), (25, n_))):
        for sn in ("PLUS", "MINUS"):
            specs.append((layout, sn))
    r.floor("C03.RK", "located sequences (layout x strand)", len(specs), 24)

    def work(spec):
        if _W.get("repo") is not repo:
            _W["it"] = gene_interp(repo, max_steps=10 ** 12)
            _W["repo"] = repo
        it = _W["it"]
        try:
            return _case(repo, it, strands(it), spec[0], spec[1])
        except Uninterpretable as ex:
            return 0, [("uninterpretable", str(ex), f"{LOC}:SingleInterval.extract_sequence")]

    results = pmap(work, specs, min_items=8)
    n = sum(x[0] for x in results)
    r.count(n)
    first = {}
    for _, outs in results:
        for key, msg, q in outs:
            first.setdefault((q, key.split("[")[0].strip()), msg)
    if any(k[1] == "uninterpretable" for k in first):
        raise AnalysisError("C03.RK: " + [m for k, m in first.items() if k[1] == "uninterpretable"][0])
    for (q, key), msg in sorted(first.items()):
        r.violation("C03.RK", q, key, msg, repo.where(q))
    if not first:
        for q in (f"{LOC}:SingleInterval.extract_sequence", f"{LOC}:CompoundInterval.extract_sequence",
                  "sequence.sequence:Sequence.__getitem__", "sequence.sequence:Sequence.reverse_complement",
                  "sequence.sequence:Sequence.append"):
            r.ok("C03.RK", q, "image oracle on all enumerated located sequences", repo.where(q), f"{n} interpreted evaluations")


def r1_structural(ctx):
    """Strengthening note only (never an alarm: the form of the code is free, RK decides the behaviour on the enumerated
    inputs).  When the slice of the parent string has the recognised form, the slice bounds are (start, end) for all
    integers, which extends RK's verdict on the single-block kernel beyond the enumerated coordinates."""
    r = ctx.r
    fn = ctx.repo.fn(f"{LOC}:SingleInterval.extract_sequence")
    slices = [n for n in ast.walk(fn.node) if isinstance(n, ast.Subscript) and isinstance(n.slice, ast.Slice)]
    ok = False
    for sl in slices:
        try:
            lo, hi = affine(sl.slice.lower), affine(sl.slice.upper)
            if (lo, hi) == (Aff.sym("self.start"), Aff.sym("self.end")):
                ok = True
        except (NotAffine, AttributeError, TypeError):
            pass
    if ok:
        r.ok("C03.R1", fn.qual, "slice bounds are exactly (self.start, self.end) for all integers", fn)
    else:
        r.note("C03.R1: SingleInterval.extract_sequence does not slice with the literal form [self.start : self.end]; the "
               "all-integers strengthening is not claimed on this tree, the verdict rests on RK's enumerated layouts")


SEQ = "sequence.sequence:Sequence"


def rc_chains(ctx):
    """chains on located sequences whose location has several blocks (products of append): concatenation is accepted exactly
    when the second operand lies wholly 3' of the first (5'->3' order = concatenation order), so operands whose blocks interleave
    are refused; every accepted product, its reverse complement, and slices of those spell their recorded location"""
    r, repo = ctx.r, ctx.repo
    it = gene_interp(repo, max_steps=10 ** 10)
    S = strands(it)
    f_get, f_rc, f_app = repo.fn(f"{SEQ}.__getitem__"), repo.fn(f"{SEQ}.reverse_complement"), repo.fn(f"{SEQ}.append")
    n = 0
    L = len(GENOME)
    for sn in ("PLUS", "MINUS"):
        whole = mk_sequence(it, image([(0, L)], sn), ALPHA, parent=mk_parent(it, location=_mk_loc(it, S, [(0, L)], sn, None)))
        cut = lambda a, b: run(it, f_get, [slice(a, b)], {}, whole)[1]  # noqa: E731
        # pieces in 5'->3' order of the located sequence
        p1, p2, p3, p4 = cut(0, 4), cut(7, 11), cut(14, 18), cut(20, 23)

        def spelled_ok(d):
            par = d.fields.get("parent")
            dl = par.fields.get("location") if isinstance(par, Obj) else None
            if dl is None or is_empty_obj(dl):
                return False, "no recorded location"
            sp = image(blocks_of(dl), strand_of(dl).name)
            return ut(sp) == ut(d.fields["sequence"]), f"characters {d.fields['sequence']!r}, recorded location {blocks_of(dl)}:{strand_of(dl).name} spells {sp!r}"

        def app(a, b):
            return run(it, f_app, [b], {}, a)
        k13, x13 = app(p1, p3)          # blocks 1 and 3: a gap that holds piece 2
        k24, x24 = app(p2, p4)
        k12, x12 = app(p1, p2)
        k34, x34 = app(p3, p4)
        cases = [
            ("x(1,3).append(piece 2)  [piece 2 lies inside the gap of x]", x13, p2, False),
            ("piece 2.append(x(1,3))  [x starts 5' of piece 2]", p2, x13, False),
            ("x(1,3).append(x(2,4))  [blocks interleave]", x13, x24, False),
            ("x(2,4).append(x(1,3))  [blocks interleave, wrong order]", x24, x13, False),
            ("x(1,2).append(x(3,4))  [wholly 3']", x12, x34, True),
            ("x(3,4).append(x(1,2))  [wholly 5': wrong order]", x34, x12, False),
            ("x(1,3).append(piece 4)  [wholly 3']", x13, p4, True),
            ("piece 1.append(x(2,4))  [wholly 3']", p1, x24, True),
        ]
        if not all(k == "ok" for k in (k13, k24, k12, k34)):
            r.violation("C03.RC", f_app.qual, f"append across a gap ({sn})", f"appending two ordered pieces of a {sn} sequence raises", f_app)
            continue
        for label, a, b, accept in cases:
            n += 1
            k, v = app(a, b)
            if accept:
                okv = k == "ok" and v.fields["sequence"] == a.fields["sequence"] + b.fields["sequence"]
                detail = ""
                if okv:
                    okv, detail = spelled_ok(v)
                r.check(okv, "C03.RC", f_app.qual, f"ordered compound operands are concatenated ({sn})",
                        f"{sn}: {label} -> {k}:{v.fields['sequence'] if k == 'ok' else v}; expected the concatenation with a location that spells it ({detail})", f_app)
                if okv:
                    # reverse complement of the product, and a slice of that: still spelled by their recorded locations
                    n += 2
                    kr, rcv = run(it, f_rc, [], {}, v)
                    good, detail = spelled_ok(rcv) if kr == "ok" else (False, rcv)
                    r.check(good, "C03.RC", f_rc.qual, f"reverse complement of a product of append ({sn})",
                            f"{sn}: ({label}).reverse_complement(): {detail}", f_rc)
                    if kr == "ok":
                        ks, sl = run(it, f_get, [slice(1, len(rcv.fields["sequence"]) - 2)], {}, rcv)
                        good, detail = spelled_ok(sl) if ks == "ok" else (False, sl)
                        r.check(good, "C03.RC", f_get.qual, f"slice of the reverse complement of a product of append ({sn})",
                                f"{sn}: ({label}).reverse_complement()[1:-2]: {detail}", f_get)
            else:
                good = k == "raise" and v == "ValueError"
                if k == "ok":
                    # a product whose location does not describe its characters is what the refusal prevents
                    _g, detail = spelled_ok(v)
                else:
                    detail = v
                r.check(good, "C03.RC", f_app.qual, f"operands that are not in 5'->3' order are refused ({sn})",
                        f"{sn}: {label} -> {k}:{detail}; documented ValueError", f_app)
    r.floor("C03.RC", "append chain cases", n, 16)


RULES = [
    ("C03.RC", rc_chains),
    ("C03.RK", rk_interpreted),
    ("C03.R1", r1_structural),
]
