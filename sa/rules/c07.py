"""C07 - a chunk-relative view is the chromosome view restricted to the chunk.

RK  the analyser builds every transcript / CDS / feature twice - on the whole chromosome and on a sequence chunk
    (every chunk window around the interval) - and interprets both: chromosome-level answers must be identical;
    the chunk-relative location lifts back to the part inside the chunk; sequences equal the chromosome stretch;
    chunk-relative codons are exactly the whole-chromosome codons lying fully inside the chunk; an interval with
    no base in the chunk is empty, not an error.
R1  structural: no chunk-relative value reaches an identifier digest (digest_object arguments of the interval and
    collection classes)."""
import ast

from ..astutil import calls_in, call_tail, dotted, src, walk_shallow
from ..genekernel import chrom_parent, chunk_parent, gene_interp, mk_feature, mk_transcript
from ..interp import ClassTok, Obj, Opaque, Raised, Uninterpretable
from ..lockernel import blocks_of, is_empty_obj, positions, run, strand_of, strands
from ..model import AnalysisError
from ..par import pmap
from .c01 import enum_positions
from .c05 import GENOME, bases, loc_positions, mk_cds, translate_ref, walker, _report, _runner

EXPLANATION = (
    "RK: twins of every small transcript / CDS / feature are built on the whole chromosome and on every chunk window "
    "inside the analyser's interpreter and compared: to_dict, chromosome_location, chromosome codons and num_codons "
    "identical; chunk_relative_location = chromosome location cut to the chunk (block structure retained); spliced "
    "sequence = chromosome stretch; chunk-relative codons/sequence/translation = whole-chromosome codons fully inside "
    "the chunk; no base in the chunk -> empty location, no error. R1: digest_object call sites must not read "
    "chunk-relative accessors. Not decided: larger layouts; chunk_relative_frames as values."
)

CHUNK_NAMES = {"_location", "chunk_relative_location", "chunk_relative_start", "chunk_relative_end",
               "chunk_relative_blocks", "relative_blocks", "chunk_relative_span", "chunk_relative_frames",
               "chunk_relative_cds_start", "chunk_relative_cds_end", "cds_chunk_relative_location",
               "chunk_relative_size", "chunk_relative_strand", "num_chunk_relative_blocks"}


def strip_opaque(d):
    if isinstance(d, dict):
        return {k: strip_opaque(v) for k, v in d.items() if not isinstance(v, Opaque)}
    if isinstance(d, (list, tuple)):
        return [strip_opaque(x) for x in d]
    return d


def consistent_frames(exons, sn, start):
    order = list(range(len(exons)))
    if sn == "MINUS":
        order.reverse()
    fr = {}
    before = -start
    for j, i in enumerate(order):
        fr[i] = start if j == 0 else before % 3
        before += exons[i][1] - exons[i][0]
    return [fr[i] for i in range(len(exons))]


def _cds_case(repo, it, S, spec):
    exons, sn, start, cs, ce = spec[:5]
    cstrand = spec[5] if len(spec) > 5 else "PLUS"
    extras = spec[6] if len(spec) > 6 else True  # codon windows and proteins on the chunk view (thinned in the quick tier)
    frames_only = len(spec) > 7 and spec[7] == "frames"  # C05.RC asks for the chunk_relative_frames answers only
    out = []
    n = 0
    CDS = "gene.cds:CDSInterval"
    frames = consistent_frames(exons, sn, start)
    desc = f"CDS exons={list(exons)} {sn} frames={frames} chunk=[{cs},{ce})" + ("" if cstrand == "PLUS" else " (minus-strand chunk)")
    to_chrom = (lambda p: p + cs) if cstrand == "PLUS" else (lambda p: ce - 1 - p)
    cat = (f"[{'single' if len(exons) == 1 else 'multi'}-exon, start frame {'0' if start == 0 else 'nonzero'}, "
           f"5' end {'cut' if ((cs > exons[0][0]) if sn == 'PLUS' else (ce < exons[-1][1])) else 'kept'}]")
    if not any(cs <= p < ce for s, e in exons for p in range(s, e)):
        cat = "[no CDS base in the chunk]"
    pc = chrom_parent(it, GENOME, alphabet="NT_EXTENDED")
    pk = chunk_parent(it, GENOME, cs, ce, alphabet="NT_EXTENDED", strand=cstrand)
    q = lambda m: repo.fn(f"{CDS}.{m}")  # noqa: E731
    try:
        whole = mk_cds(it, exons, S[sn], frames, pc)
    except Raised as ex:
        return 1, [("construct", f"{desc}: whole-chromosome construction raises {ex.exc_name}", q("__init__").qual)]
    inside_any = any(cs <= p < ce for s, e in exons for p in range(s, e))
    try:
        part = mk_cds(it, exons, S[sn], frames, pk)
    except Raised as ex:
        # a CDS entirely outside the chunk: documented LocationOverlapException is how TranscriptInterval learns
        # that its CDS is sliced out; anything else, or a refusal of an overlapping CDS, is an error
        if inside_any or ex.exc_name not in ("LocationOverlapException",):
            return 1, [("chunk construct " + cat, f"{desc}: construction on the chunk raises {ex.exc_name}", q("__init__").qual)]
        return 1, []
    codons = walker(list(exons), sn, frames)
    if frames_only:
        return _chunk_frames_part(repo, it, S, q, desc, cat, exons, sn, start, cs, ce, to_chrom, part, inside_any, n, out)
    # chromosome-level answers unchanged
    for m in ("to_dict",):
        n += 1
        k1, v1 = run(it, q(m), [], {}, whole)
        k2, v2 = run(it, q(m), [], {}, part)
        if k1 != k2 or strip_opaque(v1) != strip_opaque(v2):
            out.append((m, f"{desc}: {m}() differs between the chromosome-built and the chunk-built twin: {strip_opaque(v1)} vs {strip_opaque(v2)}", q(m).qual))
    n += 1
    k, v = run(it, repo.fn("gene.interval:AbstractFeatureInterval.chromosome_location"), [], {}, part)
    if k != "ok" or sorted(blocks_of(v)) != sorted(exons) or strand_of(v).name != sn:
        out.append(("chromosome_location", f"{desc}: chromosome_location of the chunk-built twin -> {k}:{blocks_of(v) if k == 'ok' else v}", "gene.interval:AbstractFeatureInterval.chromosome_location"))
    n += 1
    k, v = run(it, q("chromosome_codon_locations"), [], {}, part)
    if k != "ok":
        if codons:
            out.append(("chromosome codons " + cat + " raises", f"{desc}: chromosome_codon_locations on the chunk-built twin raises {v}", q("chromosome_codon_locations").qual))
    elif [loc_positions(c) for c in v] != codons:
        out.append(("chromosome codons " + cat, f"{desc}: chromosome_codon_locations on the chunk-built twin = {[loc_positions(c) for c in v]}; whole-chromosome codons are {codons}", q("chromosome_codon_locations").qual))
    n += 1
    k, v = run(it, q("num_codons"), [], {}, part)
    if (k == "ok" and v != len(codons)) or (k != "ok" and codons):
        out.append(("num_codons " + cat, f"{desc}: num_codons on the chunk-built twin -> {k}:{v}; whole chromosome has {len(codons)}", q("num_codons").qual))
    # chunk-relative codons = whole-chromosome codons fully inside the chunk
    want = [c for c in codons if all(cs <= p < ce for p in c)]
    n += 1
    k, v = run(it, q("chunk_relative_codon_locations"), [], {}, part)
    if k != "ok":
        if want or inside_any or v in ("AttributeError", "IndexError", "KeyError", "TypeError", "RecursionError"):
            out.append(("chunk codons " + cat + " raises", f"{desc}: chunk_relative_codon_locations raises {v}; codons fully inside the chunk: {want}", q("chunk_relative_codon_locations").qual))
    else:
        got = [[to_chrom(p) for p in loc_positions(c)] for c in v]
        if got != want:
            out.append(("chunk codons " + cat, f"{desc}: chunk-relative codons (in chromosome coordinates) = {got}; whole-chromosome codons fully inside the chunk: {want}", q("chunk_relative_codon_locations").qual))
    # the deprecated spelling lists what the chunk-relative scan lists, on a chunk as well
    if repo.has_fn(f"{CDS}.scan_codon_locations") and inside_any:
        n += 1
        kd, vd = run(it, q("scan_codon_locations"), [], {}, mk_cds(it, exons, S[sn], frames, pk))
        kc, vc = run(it, q("scan_chunk_relative_codon_locations"), [], {}, mk_cds(it, exons, S[sn], frames, pk))
        gd = [[to_chrom(p) for p in loc_positions(c)] for c in vd] if kd == "ok" else vd
        gc = [[to_chrom(p) for p in loc_positions(c)] for c in vc] if kc == "ok" else vc
        if (kd, gd) != (kc, gc):
            out.append(("scan_codon_locations (deprecated spelling) on a chunk", f"{desc}: scan_codon_locations() -> {kd}:{gd}; scan_chunk_relative_codon_locations() "
                        f"-> {kc}:{gc}", q("scan_codon_locations").qual))
    # the chromosome-level answers of the same object once its chunk-relative answers exist (they are memoised side by side)
    if repo.has_fn(f"{CDS}.num_chunk_relative_codons"):
        run(it, q("num_chunk_relative_codons"), [], {}, part)
    for m, wantv in (("num_codons", len(codons)), ("chromosome_codon_locations", codons)):
        n += 1
        k, v = run(it, q(m), [], {}, part)
        gotv = v if m == "num_codons" or k != "ok" else [loc_positions(c) for c in v]
        if (k == "ok" and gotv != wantv) or (k != "ok" and codons):
            out.append((f"{m} after the chunk-relative codons were listed", f"{desc}: {m} on the chunk-built twin, asked again after "
                        f"chunk_relative_codon_locations / num_chunk_relative_codons -> {k}:{gotv}; the whole chromosome has {wantv}", q(m).qual))
    n += 1
    part2 = mk_cds(it, exons, S[sn], frames, pk)
    k, v = run(it, q("extract_sequence"), [], {}, part2)
    wseq = "".join(bases(c, sn) for c in want)
    if k == "ok":
        sv = v.fields["sequence"] if isinstance(v, Obj) else v
        if sv != wseq:
            out.append(("chunk coding sequence " + cat, f"{desc}: extract_sequence on the chunk = {sv!r}; codons inside the chunk spell {wseq!r}", q("extract_sequence").qual))
    elif wseq or inside_any or v in ("AttributeError", "IndexError", "KeyError", "TypeError"):
        out.append(("chunk coding sequence " + cat + " raises", f"{desc}: extract_sequence on the chunk raises {v}; expected {wseq!r}", q("extract_sequence").qual))
    # codon windows on the chunk view: the whole-chromosome codons fully inside both the chunk and the window (the window is
    # given in chromosome coordinates; frame is kept at the window's 5' edge as well)
    if inside_any and codons and extras:
        lo, hi = exons[0][0], exons[-1][1]
        seen_w = set()
        for ws, we in ((lo + 1, hi), (lo + 4, None), (None, hi - 4), (cs + 1, ce), (cs + 2, None), (cs, ce - 1), (lo + 2, hi - 2)):
            a, b = (lo if ws is None else ws), (hi if we is None else we)
            if a >= b or (ws, we) in seen_w or a >= hi or b <= lo:
                continue
            seen_w.add((ws, we))
            wantw = [c for c in want if all(a <= p < b for p in c)]
            n += 1
            k, v = run(it, q("scan_chunk_relative_codon_locations"), [ws, we], {}, mk_cds(it, exons, S[sn], frames, pk))
            # the window may cut the 5' end where the chunk does not: same category as the chunk cutting it
            wcut = (a > lo) if sn == "PLUS" else (b < hi)
            single_known = len(exons) == 1 and start != 0 and (wcut or "5' end cut" in cat)
            subj = "chunk codon window [single-exon, start frame nonzero, 5' end cut]" if single_known else "chunk codon window"
            if k != "ok":
                if wantw or v in ("AttributeError", "IndexError", "KeyError", "TypeError", "RecursionError"):
                    out.append((subj + " raises", f"{desc}: scan_chunk_relative_codon_locations({ws},{we}) raises {v}; codons inside chunk and window: {wantw}",
                                q("scan_chunk_relative_codon_locations").qual))
                continue
            got = [[to_chrom(p) for p in loc_positions(c)] for c in v]
            if got != wantw:
                out.append((subj, f"{desc}: scan_chunk_relative_codon_locations({ws},{we}) (in chromosome coordinates) = {got}; whole-chromosome "
                            f"codons fully inside the chunk and the window: {wantw}", q("scan_chunk_relative_codon_locations").qual))
    # the protein of the chunk view is the stretch of the whole-chromosome protein made by the codons inside the chunk: the
    # start-codon rule of a table belongs to the first codon of the CDS, not to the first codon that happens to be visible
    if want and codons and extras:
        whole_seq = "".join(bases(c, sn) for c in codons)
        i0 = codons.index(want[0])
        for table in ("DEFAULT", "STANDARD", "PROKARYOTE"):
            n += 1
            tt = it.enum("TranslationTable")[table]
            k, v = run(it, q("translate"), [], {"translation_table": tt}, mk_cds(it, exons, S[sn], frames, pk))
            wp = translate_ref(whole_seq, table)[i0:i0 + len(want)]
            got = v.fields["sequence"] if k == "ok" and isinstance(v, Obj) else v
            if k != "ok" or got != wp:
                first = "first codon of the CDS visible" if i0 == 0 else "first codon of the CDS cut off"
                subj = f"chunk protein {cat}" if cat.startswith("[single-exon, start frame nonzero, 5' end cut") else f"chunk protein [{first}]"
                out.append((subj, f"{desc}: translate(table={table}) on the chunk -> {k}:{got}; the whole-chromosome protein "
                            f"{translate_ref(whole_seq, table)!r} restricted to the codons inside the chunk is {wp!r}", q("translate").qual))
    return _chunk_frames_part(repo, it, S, q, desc, cat, exons, sn, start, cs, ce, to_chrom, part, inside_any, n, out)


def _chunk_frames_part(repo, it, S, q, desc, cat, exons, sn, start, cs, ce, to_chrom, part, inside_any, n, out):
    # chunk-relative frames: every chunk-relative block is annotated with the frame the uninterrupted reading frame has at
    # its 5' end (5' by the direction of the CDS)
    if inside_any:
        n += 1
        k, v = run(it, q("chunk_relative_frames"), [], {}, part)
        k2, cb = run(it, it.method(part, "chunk_relative_blocks"), [], {}, part)
        order = list(range(len(exons)))
        if sn == "MINUS":
            order.reverse()
        coding = [p for i in order for p in enum_positions([exons[i]], sn)]  # chromosome positions, 5'->3'
        if k != "ok" or k2 != "ok":
            out.append(("chunk frames raises", f"{desc}: chunk_relative_frames / chunk_relative_blocks raise {v if k != 'ok' else cb}", q("chunk_relative_frames").qual))
        else:
            # the library's convention (see construct_frames_from_location, C05.RF): the 5'-most block carries the number of
            # bases to skip, every later block the codon position of its first base
            fives = []
            for b in cb:
                (bs, be), = blocks_of(b)
                chrom = sorted(to_chrom(x) for x in (bs, be - 1))
                fives.append(coding.index(chrom[0] if sn == "PLUS" else chrom[1]))
            wantf = [(start - i) % 3 if i == min(fives) else (i - start) % 3 for i in fives]
            gotf = [x.value for x in v]
            if gotf != wantf:
                out.append(("chunk frames " + cat, f"{desc}: chunk_relative_frames = {gotf} for chunk-relative blocks {[blocks_of(b)[0] for b in cb]}; "
                            f"the reading frame at the 5' end of each block is {wantf}", q("chunk_relative_frames").qual))
    return n, out


def _var_case(repo, it, S, spec):
    """a variant interval lying inside the chunk: same chromosome-level dictionary, chunk coordinates = chromosome coordinates - chunk start"""
    _, (vs, ve), alt, cs, ce = spec[:5]
    out = []
    pc = chrom_parent(it, GENOME, alphabet="NT_EXTENDED")
    pk = chunk_parent(it, GENOME, cs, ce, alphabet="NT_EXTENDED")
    q = "gene.variants:VariantInterval"
    desc = f"VariantInterval({vs},{ve},{alt!r}) chunk=[{cs},{ce})"
    mkv = lambda p_: it.apply(ClassTok("VariantInterval"), [vs, ve, alt, "x"], {"parent_or_seq_chunk_parent": p_}, None, 0)  # noqa: E731
    try:
        whole, part = mkv(pc), mkv(pk)
    except Raised as ex:
        return 1, [("variant construct", f"{desc}: construction raises {ex.exc_name}", f"{q}.__init__")]
    f = repo.fn(f"{q}.to_dict")
    k1, d1 = run(it, f, [], {}, whole)
    k2, d2 = run(it, f, [], {}, part)
    if k1 != k2 or strip_opaque(d1) != strip_opaque(d2):
        out.append(("variant to_dict", f"{desc}: to_dict() differs between twins: {strip_opaque(d1)} vs {strip_opaque(d2)}", f.qual))
    k3, d3 = run(it, f, [], {"chromosome_relative_coordinates": False}, part)
    if k3 != "ok" or (d3.get("start"), d3.get("end")) != (vs - cs, ve - cs):
        out.append(("variant to_dict in chunk coordinates", f"{desc}: to_dict(chromosome_relative_coordinates=False) -> {k3}:"
                    f"{(d3.get('start'), d3.get('end')) if k3 == 'ok' else d3}; the variant lies at [{vs - cs},{ve - cs}) on the chunk", f.qual))
    return 3, out


def _tx_case(repo, it, S, spec):
    if spec[0] == "var":
        return _var_case(repo, it, S, spec)
    kind, exons, sn, cs, ce = spec[:5]
    cstrand = spec[5] if len(spec) > 5 else "PLUS"
    out = []
    n = 0
    pc = chrom_parent(it, GENOME, alphabet="NT_EXTENDED")
    pk = chunk_parent(it, GENOME, cs, ce, alphabet="NT_EXTENDED", strand=cstrand)
    to_chrom = (lambda p: p + cs) if cstrand == "PLUS" else (lambda p: ce - 1 - p)
    cls = "gene.transcript:TranscriptInterval" if kind.startswith(("tx", "ctx")) else "gene.feature:FeatureInterval"
    if kind.startswith("ctx"):
        # coding transcript: the CDS is the exon structure without the first and last base of the span
        lo, hi = exons[0][0] + 1, exons[-1][1] - 1
        cds = [(max(s, lo), min(e, hi)) for s, e in exons if max(s, lo) < min(e, hi)]
        F = it.enum("CDSFrame")
        fr = [F[{0: "ZERO", 1: "ONE", 2: "TWO"}[x]] for x in consistent_frames(cds, sn, int(kind[3:]))]
        mk = lambda p: mk_transcript(it, exons, S[sn], cds=cds, frames=fr, parent_or_seq_chunk_parent=p)  # noqa: E731
    elif kind == "tx":
        mk = lambda p: mk_transcript(it, exons, S[sn], parent_or_seq_chunk_parent=p)  # noqa: E731
    else:
        mk = lambda p: mk_feature(it, exons, S[sn], parent_or_seq_chunk_parent=p)  # noqa: E731
    desc = (f"{'transcript' if kind == 'tx' else 'feature' if kind == 'feat' else f'coding transcript (CDS {cds}, start frame {kind[3:]})'} "
            f"{list(exons)} {sn} chunk=[{cs},{ce})" + ("" if cstrand == "PLUS" else " (minus-strand chunk)"))
    try:
        whole = mk(pc)
    except Raised as ex:
        return 1, [("construct", f"{desc}: whole-chromosome construction raises {ex.exc_name}", f"{cls}.__init__")]
    try:
        part = mk(pk)
    except Raised as ex:
        return 1, [("chunk construct", f"{desc}: construction on the chunk raises {ex.exc_name} (an interval with no base in the chunk must be empty, not an error)", f"{cls}.__init__")]
    n += 1
    f = repo.fn(f"{cls}.to_dict")
    k1, v1 = run(it, f, [], {}, whole)
    k2, v2 = run(it, f, [], {}, part)
    if k1 != k2 or strip_opaque(v1) != strip_opaque(v2):
        out.append(("to_dict", f"{desc}: to_dict() differs between twins: {strip_opaque(v1)} vs {strip_opaque(v2)}", f.qual))
    for fld in ("start", "end", "bin"):
        if whole.fields.get(fld) != part.fields.get(fld):
            out.append((fld, f"{desc}: .{fld} is {part.fields.get(fld)} on the chunk-built twin, {whole.fields.get(fld)} on the chromosome", f"{cls}.__init__"))
    if kind.startswith("ctx") and len(cds) > 1 and all(cs <= s_ and e_ <= ce for s_, e_ in exons) and cstrand == "PLUS" and \
            not any(a_[1] == b_[0] for a_, b_ in zip(cds, cds[1:])) and not any(a_[1] == b_[0] for a_, b_ in zip(exons, exons[1:])):
        # (lifting a location merges blocks with a 0-bp gap, so layouts with adjacent blocks are not the same object afterwards)
        # the convenience constructor from a chunk-relative location: a transcript whose CDS carries an annotated internal frameshift
        # (frames that do not follow from the block lengths) keeps it - same dictionary as the twin built with plain coordinates
        shifted = [fr[0]] + [F[{"ZERO": "ONE", "ONE": "TWO", "TWO": "ZERO"}[x.name]] for x in fr[1:]]
        try:
            plain_tw = mk_transcript(it, exons, S[sn], cds=cds, frames=shifted, parent_or_seq_chunk_parent=pk, transcript_id="fs")
            falt = repo.fn(f"{cls}.from_chunk_relative_location")
            n += 1
            ka, alt = run(it, falt, [plain_tw.fields["_location"]], {"cds": plain_tw.fields["cds"], "transcript_id": "fs"}, None)
            if ka != "ok":
                out.append(("from_chunk_relative_location with an annotated frameshift", f"{desc}: raises {alt}", falt.qual))
            else:
                kd1, d1 = run(it, f if False else repo.fn(f"{cls}.to_dict"), [], {}, plain_tw)
                kd2, d2 = run(it, repo.fn(f"{cls}.to_dict"), [], {}, alt)
                if kd1 != kd2 or strip_opaque(d1) != strip_opaque(d2):
                    out.append(("from_chunk_relative_location with an annotated frameshift", f"{desc}: built through from_chunk_relative_location with CDS frames "
                                f"{[x.name for x in shifted]} the dictionary is {strip_opaque(d2).get('cds_frames') if kd2 == 'ok' else d2}; the twin built from plain "
                                f"coordinates on the same chunk has {strip_opaque(d1).get('cds_frames') if kd1 == 'ok' else d1}", falt.qual))
        except Raised:
            pass
    if kind.startswith("ctx"):
        # whether the transcript is coding, and where its CDS lies on the chromosome, do not depend on the chunk - also when the chunk
        # holds only UTR, intron or nothing of the transcript
        def shown(kv):
            k_, v_ = kv
            if k_ != "ok":
                return (k_, v_)
            if isinstance(v_, Obj):
                return (k_, blocks_of(v_))
            if isinstance(v_, (list, tuple)) or hasattr(v_, "__iter__") and not isinstance(v_, (str, dict)):
                return (k_, [blocks_of(b) if isinstance(b, Obj) else b for b in v_])
            return (k_, v_)
        for m in ("is_coding", "cds_size", "cds_start", "cds_end", "cds_blocks", "cds_location"):
            if not repo.has_fn(f"{cls}.{m}"):
                continue
            n += 1
            fm = repo.fn(f"{cls}.{m}")
            a, b = shown(run(it, fm, [], {}, whole)), shown(run(it, fm, [], {}, part))
            if a != b:
                out.append((f"{m} of a coding transcript", f"{desc}: {m} is {b[0]}:{b[1]} on the chunk-built twin and {a[0]}:{a[1]} on the "
                            f"chromosome-built twin", fm.qual))
    n += 1
    k, v = run(it, repo.fn("gene.interval:AbstractFeatureInterval.chromosome_location"), [], {}, part)
    if k != "ok" or sorted(blocks_of(v)) != sorted(exons) or strand_of(v).name != sn:
        out.append(("chromosome_location", f"{desc}: chromosome_location of the chunk-built twin -> {k}:{blocks_of(v) if k == 'ok' else v}", "gene.interval:AbstractFeatureInterval.chromosome_location"))
    # the block list accessor is a chromosome-level answer as well
    if repo.has_fn("gene.interval:AbstractFeatureInterval.blocks"):
        fb = repo.fn("gene.interval:AbstractFeatureInterval.blocks")
        n += 1
        show_b = lambda kv: (kv[0], [blocks_of(b_)[0] for b_ in kv[1]] if kv[0] == "ok" else kv[1])  # noqa: E731
        a_, b_ = show_b(run(it, fb, [], {}, whole)), show_b(run(it, fb, [], {}, part))
        if a_ != b_:
            out.append(("blocks", f"{desc}: .blocks is {b_[0]}:{b_[1]} on the chunk-built twin and {a_[0]}:{a_[1]} on the chromosome-built twin", fb.qual))
    # the BED12 record in chromosome coordinates is a chromosome-level answer (thick range = CDS bounds, wherever the chunk lies)
    fbed = repo.fn(f"{cls}.to_bed12")
    n += 1
    bw, bp = run(it, fbed, [], {}, whole), run(it, fbed, [], {}, part)
    sb = lambda kv: (kv[0], it.py_str(kv[1]) if kv[0] == "ok" else kv[1])  # noqa: E731
    if sb(bw) != sb(bp):
        out.append(("to_bed12 (chromosome coordinates)", f"{desc}: to_bed12() is {sb(bp)[1]!r} on the chunk-built twin and {sb(bw)[1]!r} on the "
                    f"chromosome-built twin", fbed.qual))
    if kind.startswith("ctx"):
        # the UTRs of the chunk view are the chromosome UTRs restricted to the chunk (documented: answered in chunk coordinates);
        # asked as well of a transcript whose CDS covers all of it (both UTRs are the EmptyLocation on either twin)
        pairs_ = [("", whole, part)]
        try:
            ffr = [F[{0: "ZERO", 1: "ONE", 2: "TWO"}[x]] for x in consistent_frames(list(exons), sn, 0)]
            pairs_.append((" [CDS = all exons]", mk_transcript(it, exons, S[sn], cds=list(exons), frames=ffr, parent_or_seq_chunk_parent=pc),
                           mk_transcript(it, exons, S[sn], cds=list(exons), frames=ffr, parent_or_seq_chunk_parent=pk)))
        except Raised:
            pass
        all_in = all(cs <= s_ and e_ <= ce for s_, e_ in exons)
        for tag_, w_, p_ in pairs_:
            for m in ("get_5p_interval", "get_3p_interval"):
                if not repo.has_fn(f"{cls}.{m}"):
                    continue
                fu = repo.fn(f"{cls}.{m}")
                kw_, vw_ = run(it, fu, [], {}, w_)
                if kw_ != "ok":
                    continue
                n += 1
                kp_, vp_ = run(it, fu, [], {}, p_)
                wantu = sorted(x for x in positions(vw_) if cs <= x < ce) if not is_empty_obj(vw_) else []
                if kp_ != "ok":
                    if all_in or vp_ in ("AttributeError", "IndexError", "KeyError", "TypeError", "RecursionError"):
                        out.append((m + " on a chunk", f"{desc}{tag_}: {m}() raises {vp_} on the chunk-built twin; the chromosome-built twin answers "
                                    f"{'EmptyLocation' if is_empty_obj(vw_) else blocks_of(vw_)}", fu.qual))
                    continue
                gotu = sorted(to_chrom(x) for x in positions(vp_)) if not is_empty_obj(vp_) else []
                if gotu != wantu or (all_in and is_empty_obj(vp_) != is_empty_obj(vw_)):
                    out.append((m + " on a chunk", f"{desc}{tag_}: {m}() on the chunk-built twin covers chromosome bases {gotu}"
                                f"{' (EmptyLocation)' if is_empty_obj(vp_) else ''}; the chromosome-built twin's answer restricted to the chunk is {wantu}"
                                f"{' (EmptyLocation)' if is_empty_obj(vw_) else ''}", fu.qual))
    # moving an existing object onto the chunk (and the chunk-built one back onto the chromosome) gives the twin built there
    fmv = repo.fn("gene.interval:AbstractInterval.liftover_to_parent_or_seq_chunk_parent")
    for what, src_obj, target, twin in (("chromosome-built object moved onto the chunk", whole, pk, part), ("chunk-built object moved onto the chromosome", part, pc, whole)):
        n += 1
        km, moved = run(it, fmv, [target], {}, src_obj)
        if km != "ok":
            out.append(("liftover_to_parent_or_seq_chunk_parent", f"{desc}: {what} raises {moved}", fmv.qual))
            continue
        lm, lt = moved.fields["_location"], twin.fields["_location"]
        shown = lambda l: "EmptyLocation" if is_empty_obj(l) else (blocks_of(l), strand_of(l).name)  # noqa: E731
        kd1, d1 = run(it, f, [], {}, moved)
        kd2, d2 = run(it, f, [], {}, twin)
        if shown(lm) != shown(lt) or kd1 != kd2 or strip_opaque(d1) != strip_opaque(d2):
            out.append(("liftover_to_parent_or_seq_chunk_parent", f"{desc}: {what} has location {shown(lm)} and the twin built there {shown(lt)}"
                        + ("" if strip_opaque(d1) == strip_opaque(d2) else "; their dictionaries differ"), fmv.qual))
    loc = part.fields["_location"]
    inside = [p for p in enum_positions(list(exons), sn) if cs <= p < ce]
    if not inside:
        if not is_empty_obj(loc):
            out.append(("outside chunk", f"{desc}: no base in the chunk but chunk_relative_location = {blocks_of(loc)}", f"{cls}.__init__"))
        return n, out
    if is_empty_obj(loc):
        out.append(("chunk location", f"{desc}: chunk_relative_location is empty although bases {inside} are inside the chunk", f"{cls}.__init__"))
        return n, out
    rel = [to_chrom(p) for p in enum_positions(blocks_of(loc), strand_of(loc).name)]
    if cstrand == "PLUS":
        wantb = sorted((max(s, cs) - cs, min(e, ce) - cs) for s, e in exons if max(s, cs) < min(e, ce))
    else:
        wantb = sorted((ce - min(e, ce), ce - max(s, cs)) for s, e in exons if max(s, cs) < min(e, ce))
    if rel != inside or sorted(blocks_of(loc)) != wantb:
        out.append(("chunk location", f"{desc}: chunk_relative_location {blocks_of(loc)} = chromosome bases {rel}; the part inside the chunk is {inside} (blocks {wantb})", f"{cls}.__init__"))
    # the dictionary in chunk coordinates lists the chunk-relative blocks (and, for a coding transcript, the chunk-relative CDS blocks)
    if "chromosome_relative_coordinates" in f.pos_params:
        n += 1
        kd, dd = run(it, f, [], {"chromosome_relative_coordinates": False}, part)
        cds_in = not kind.startswith("ctx") or any(s_ <= to_chrom(p_) < e_ for p_ in range(0, ce - cs) for s_, e_ in cds)
        if kd != "ok":
            # (a coding transcript whose CDS has no base in the chunk has no CDS blocks to list in chunk coordinates: a refusal is
            # not decided here)
            if cds_in or dd in ("AttributeError", "IndexError", "KeyError", "TypeError", "RecursionError"):
                out.append(("to_dict in chunk coordinates", f"{desc}: to_dict(chromosome_relative_coordinates=False) raises {dd}", f.qual))
        else:
            sk, ek = ("exon_starts", "exon_ends") if "exon_starts" in dd else ("interval_starts", "interval_ends")
            gotb = sorted(zip(list(dd[sk]), list(dd[ek])))
            if gotb != sorted(blocks_of(loc)):
                out.append(("to_dict in chunk coordinates", f"{desc}: to_dict(chromosome_relative_coordinates=False) lists blocks {gotb}; the "
                            f"chunk-relative location is {sorted(blocks_of(loc))}", f.qual))
            if kind.startswith("ctx") and part.fields.get("cds") is not None:
                cin = sorted(to_chrom(p_) for p_ in range(0, ce - cs) if any(s_ <= to_chrom(p_) < e_ for s_, e_ in cds))
                gotc = sorted(to_chrom(p_) for a_, b_ in zip(list(dd.get("cds_starts") or []), list(dd.get("cds_ends") or [])) for p_ in range(a_, b_))
                if gotc != cin:
                    out.append(("to_dict in chunk coordinates", f"{desc}: to_dict(chromosome_relative_coordinates=False) lists CDS blocks "
                                f"{list(zip(list(dd.get('cds_starts') or []), list(dd.get('cds_ends') or [])))} = chromosome bases {gotc}; the CDS bases "
                                f"inside the chunk are {cin}", f.qual))
    n += 1
    fs = repo.fn("gene.interval:AbstractFeatureInterval.get_spliced_sequence")
    k, v = run(it, fs, [], {}, part)
    wseq = bases(inside, sn)
    if k != "ok" or v.fields["sequence"] != wseq:
        out.append(("spliced sequence", f"{desc}: get_spliced_sequence on the chunk -> {k}:{v.fields['sequence'] if k == 'ok' else v}; chromosome stretch is {wseq!r}", fs.qual))
    # the unspliced sequences of the chunk view: the chromosome stretch under the part of the interval that is on the chunk, plus
    # strand for the reference sequence, transcription orientation for the genomic sequence
    lo_, hi_ = min(inside), max(inside) + 1
    stretch = GENOME[lo_:hi_]
    for acc, wantseq in (("get_reference_sequence", stretch), ("get_genomic_sequence", stretch if sn == "PLUS" else bases(list(range(hi_ - 1, lo_ - 1, -1)), "MINUS"))):
        if cstrand != "PLUS" or not repo.has_fn(f"gene.interval:AbstractFeatureInterval.{acc}"):
            continue
        n += 1
        fa = repo.fn(f"gene.interval:AbstractFeatureInterval.{acc}")
        k, v = run(it, fa, [], {}, part)
        gotseq = v.fields.get("sequence") if k == "ok" and isinstance(v, Obj) else v
        if k != "ok" or gotseq != wantseq:
            out.append((acc, f"{desc}: {acc}() on the chunk -> {k}:{gotseq}; the chromosome stretch [{lo_},{hi_}) "
                        f"{'in transcription orientation ' if 'genomic' in acc else ''}is {wantseq!r}", fa.qual))
    n += 1
    fl = repo.fn("gene.interval:AbstractInterval.lift_over_to_first_ancestor_of_type")
    k, v = run(it, fl, [], {}, part)
    if k != "ok" or enum_positions(blocks_of(v), strand_of(v).name) != inside:
        out.append(("lift back", f"{desc}: lifting the chunk-relative location back -> {k}:{blocks_of(v) if k == 'ok' else v}; expected bases {inside}", fl.qual))
    return n, out


def _windows(exons, thorough):
    lo, hi = exons[0][0], exons[-1][1]
    cuts = sorted({lo - 2, lo, lo + 1, lo + 2, hi - 2, hi - 1, hi, hi + 2} | {s for s, _ in exons} | {e for _, e in exons}
                  | ({s + 1 for s, _ in exons} if thorough else set()))
    cuts = [c for c in cuts if 0 <= c <= len(GENOME)]
    for i, a in enumerate(cuts):
        for b in cuts[i + 1:]:
            yield a, b


LAYOUTS = [((4, 13),), ((5, 9),), ((3, 10), (14, 21)), ((3, 8), (8, 15)), ((6, 11), (13, 17), (20, 28)),
           ((2, 6), (9, 13), (16, 21), (24, 30))]


def rk_cds(ctx):
    specs = []
    lays = LAYOUTS if ctx.thorough else LAYOUTS[:4]
    if not ctx.thorough:
        # three- and four-exon CDSs (two or more whole exons can lie 5' of the chunk): a thinned set of windows
        for lay in LAYOUTS[4:]:
            for sn in ("PLUS", "MINUS"):
                for start in (0, 1, 2):
                    for j, (cs, ce) in enumerate(_windows(lay, False)):
                        if (j + start) % 4 == 0:
                            specs.append((lay, sn, start, cs, ce, "PLUS", (j + start) % 8 == 0))
    for lay in lays:
        for sn in ("PLUS", "MINUS"):
            for start in (0, 1, 2):
                for j, (cs, ce) in enumerate(_windows(lay, ctx.thorough)):
                    if not ctx.thorough and len(lay) > 1 and (j + start) % 2:
                        continue  # quick tier: every other window of the two-exon layouts (alternating with the start frame)
                    specs.append((lay, sn, start, cs, ce, "PLUS", ctx.thorough or (j + 2 * start) % 3 == 0))
                    # the same twin on a chunk that is the reverse strand of the chromosome stretch
                    if ctx.thorough or (j + start) % 3 == 0:
                        specs.append((lay, sn, start, cs, ce, "MINUS", ctx.thorough or (j + start) % 6 == 0))
    ctx.r.floor("C07.RK", "CDS twin cases", len(specs), 300)
    results = pmap(_runner(ctx.repo, _cds_case), specs)
    _report(ctx, "C07.RK", results, [(f"gene.cds:CDSInterval.{m}", "chunk twin = chromosome twin restricted to the chunk") for m in (
        "to_dict", "chromosome_codon_locations", "num_codons", "chunk_relative_codon_locations", "extract_sequence", "chunk_relative_frames")])


def rk_intervals(ctx):
    specs = []
    lays = LAYOUTS if ctx.thorough else LAYOUTS[:4]
    for kind in ("tx", "feat", "ctx0", "ctx1"):
        for lay in lays:
            for sn in ("PLUS", "MINUS"):
                for j, (cs, ce) in enumerate(_windows(lay, ctx.thorough)):
                    if kind.startswith("ctx") and not ctx.thorough and (j + int(kind[3:])) % 2:
                        continue
                    specs.append((kind, lay, sn, cs, ce))
                    if ctx.thorough or j % 4 == 1:
                        specs.append((kind, lay, sn, cs, ce, "MINUS"))
    for (vs, ve), alt in (((10, 12), "T"), ((10, 11), "GGG"), ((14, 15), "AC"), ((9, 13), "TTTT")):
        for cs, ce in ((3, 30), (vs, 25), (2, ve), (vs, max(ve, vs + 1))):
            specs.append(("var", (vs, ve), alt, cs, ce))
    ctx.r.floor("C07.RT", "transcript / feature twin cases", len(specs), 300)
    results = pmap(_runner(ctx.repo, _tx_case), specs)
    _report(ctx, "C07.RT", results, [
        ("gene.transcript:TranscriptInterval.to_dict", "twins agree"), ("gene.feature:FeatureInterval.to_dict", "twins agree"),
        ("gene.interval:AbstractFeatureInterval.chromosome_location", "twins agree"),
        ("gene.interval:AbstractFeatureInterval.get_spliced_sequence", "chunk sequence = chromosome stretch"),
        ("gene.interval:AbstractInterval.lift_over_to_first_ancestor_of_type", "lift back = part inside the chunk")])


def _guid_case(repo, it, S, spec):
    """identifier of a collection-level object built on a chunk = identifier of the same object built on the chromosome"""
    kind, (cs, ce) = spec
    from ..genekernel import mk_collection, mk_feature_collection, mk_gene
    out = []
    pc = chrom_parent(it, GENOME, alphabet="NT_EXTENDED")
    pk = chunk_parent(it, GENOME, cs, ce, alphabet="NT_EXTENDED")
    F = it.enum("CDSFrame")

    def build(p):
        tx1 = mk_transcript(it, [(6, 12), (15, 22)], S["PLUS"], cds=[(8, 12), (15, 19)], frames=[F["ZERO"], F["ONE"]], transcript_id="t1",
                            parent_or_seq_chunk_parent=p)
        tx2 = mk_transcript(it, [(7, 20)], S["PLUS"], transcript_id="t2", parent_or_seq_chunk_parent=p)
        ft = mk_feature(it, [(9, 14), (17, 21)], S["MINUS"], feature_name="f", parent_or_seq_chunk_parent=p)
        if kind == "TranscriptInterval":
            return tx1
        if kind == "FeatureInterval":
            return ft
        if kind == "CDSInterval":
            return tx1.fields["cds"]
        g = mk_gene(it, [tx1, tx2], gene_id="g", parent_or_seq_chunk_parent=p)
        if kind == "GeneInterval":
            return g
        fc = mk_feature_collection(it, [ft], feature_collection_id="fc", parent_or_seq_chunk_parent=p)
        if kind == "FeatureIntervalCollection":
            return fc
        if kind == "VariantIntervalCollection":
            v = it.apply(ClassTok("VariantInterval"), [10, 11, "T", "SNV"], {"parent_or_seq_chunk_parent": p}, None, 0)
            return it.apply(ClassTok("VariantIntervalCollection"), [[v]], {"variant_collection_id": "vc", "parent_or_seq_chunk_parent": p}, None, 0)
        return mk_collection(it, [g], [fc], sequence_name="chr1", name="ac", parent_or_seq_chunk_parent=p, start=cs, end=ce)

    mod = {"TranscriptInterval": "gene.transcript", "FeatureInterval": "gene.feature", "CDSInterval": "gene.cds", "GeneInterval": "gene.gene",
           "FeatureIntervalCollection": "gene.feature", "VariantIntervalCollection": "gene.variants", "AnnotationCollection": "gene.collections"}[kind]
    q = f"{mod}:{kind}.__init__"
    try:
        a, b = build(pc), build(pk)
    except Raised as ex:
        return 1, [("construct", f"{kind} on chunk [{cs},{ce}): {ex.exc_name}", q)]
    ga, gb = str(a.fields.get("guid")), str(b.fields.get("guid"))
    if ga != gb:
        out.append(("identifier of the chunk-built twin", f"{kind} built on chunk chr1:{cs}-{ce} has guid {gb}; the same object built on the whole "
                    f"chromosome has {ga}: the identifier digest reads chunk-relative values", q))
    return 1, out


def _gene_twin_case(repo, it, S, spec):
    """gene-level answers of a chunk-built gene = those of its chromosome-built twin: primary transcript, CDS sizes, dictionary"""
    cs, ce, sn = spec
    from ..genekernel import mk_gene
    out = []
    F = it.enum("CDSFrame")
    nm = {0: "ZERO", 1: "ONE", 2: "TWO"}

    def build(p):
        txs = []
        for tid, exons, cds in (("long", [(6, 12), (15, 30)], [(6, 12), (15, 30)]), ("short", [(7, 20)], [(7, 20)]), ("nc", [(5, 31)], None)):
            kw = dict(transcript_id=tid, parent_or_seq_chunk_parent=p)
            if cds:
                fr = consistent_frames(cds, sn, 0)
                txs.append(mk_transcript(it, exons, S[sn], cds=cds, frames=[F[nm[x]] for x in fr], **kw))
            else:
                txs.append(mk_transcript(it, exons, S[sn], **kw))
        return mk_gene(it, txs, gene_id="g", parent_or_seq_chunk_parent=p), txs
    q = "gene.gene:GeneInterval.__init__"
    try:
        (gw, tw), (gp, tp) = build(chrom_parent(it, GENOME, alphabet="NT_EXTENDED")), build(chunk_parent(it, GENOME, cs, ce, alphabet="NT_EXTENDED"))
    except Raised as ex:
        return 1, [("gene twin construct", f"gene on chunk [{cs},{ce}) {sn}: {ex.exc_name}", q)]
    desc = f"gene (isoforms long / short / non-coding) {sn} on chunk [{cs},{ce})"
    pw, pp = gw.fields["primary_transcript"].fields["transcript_id"], gp.fields["primary_transcript"].fields["transcript_id"]
    if pw != pp:
        out.append(("primary transcript of the chunk twin", f"{desc}: primary transcript is {pp!r}; the chromosome-built twin has {pw!r}",
                    "gene.interval:AbstractFeatureIntervalCollection._find_primary_feature"))
    fcs = repo.fn("gene.transcript:TranscriptInterval.cds_size")
    for a, b in zip(tw, tp):
        if a.fields.get("cds") is None:
            continue
        k1, v1 = run(it, fcs, [], {}, a)
        k2, v2 = run(it, fcs, [], {}, b)
        if (k1, v1) != (k2, v2):
            out.append(("cds_size of the chunk twin", f"{desc}: transcript {a.fields['transcript_id']} cds_size {k2}:{v2} on the chunk, {k1}:{v1} on the "
                        f"chromosome (documented: does not shrink)", fcs.qual))
    # coordinate accessors of the gene itself are chromosome-level answers
    n = 1
    for acc in ("blocks", "num_blocks", "chromosome_location", "chromosome_span"):
        if not repo.has_fn(f"gene.interval:AbstractInterval.{acc}"):
            continue
        fa = repo.fn(f"gene.interval:AbstractInterval.{acc}")
        n += 1

        def show_(kv):
            k_, v_ = kv
            if k_ != "ok":
                return kv
            if isinstance(v_, Obj):
                return (k_, "EmptyLocation" if is_empty_obj(v_) else (blocks_of(v_), strand_of(v_).name))
            if isinstance(v_, (list, tuple)):
                return (k_, [blocks_of(x_)[0] if isinstance(x_, Obj) else x_ for x_ in v_])
            return kv
        a_, b_ = show_(run(it, fa, [], {}, gw)), show_(run(it, fa, [], {}, gp))
        if a_ != b_:
            out.append((f"{acc} of the chunk twin", f"{desc}: gene.{acc} is {b_[0]}:{b_[1]} on the chunk-built gene, {a_[0]}:{a_[1]} on the "
                        f"chromosome-built twin", fa.qual))
    # the merged transcript / CDS of the chunk-built gene is itself a chunk-relative view: same chromosome blocks as the twin's, a
    # chunk-relative location that is the part inside the chunk, and the chromosome's bases for it
    for acc in ("get_merged_transcript", "get_merged_cds"):
        fm = repo.fn(f"gene.gene:GeneInterval.{acc}")
        n += 1
        k1, mw = run(it, fm, [], {}, gw)
        k2, mp = run(it, fm, [], {}, gp)
        if k1 != "ok":
            continue
        if k2 != "ok":
            out.append((f"{acc} of the chunk twin", f"{desc}: {acc}() raises {mp} on the chunk-built gene; the chromosome-built twin answers", fm.qual))
            continue
        bw = list(zip(mw.fields["_genomic_starts"], mw.fields["_genomic_ends"]))
        bp = list(zip(mp.fields["_genomic_starts"], mp.fields["_genomic_ends"]))
        if bw != bp:
            out.append((f"{acc} of the chunk twin", f"{desc}: {acc}() has chromosome blocks {bp} on the chunk-built gene, {bw} on the twin", fm.qual))
            continue
        msn = mp.fields["_strand"].name
        inside = [p_ for p_ in enum_positions(bw, msn) if cs <= p_ < ce]
        loc = mp.fields["_location"]
        got = [] if is_empty_obj(loc) else [p_ + cs for p_ in enum_positions(blocks_of(loc), strand_of(loc).name)]
        if got != inside:
            out.append((f"{acc} of the chunk twin: chunk-relative location", f"{desc}: the feature returned by {acc}() has chunk-relative location "
                        f"{'EmptyLocation' if is_empty_obj(loc) else blocks_of(loc)} = chromosome bases {got}; the part of its blocks inside the chunk is {inside}", fm.qual))
            continue
        if inside:
            fs = repo.fn("gene.interval:AbstractFeatureInterval.get_spliced_sequence")
            k3, sv = run(it, fs, [], {}, mp)
            wseq = bases(inside, msn)
            if k3 != "ok" or sv.fields["sequence"] != wseq:
                out.append((f"{acc} of the chunk twin: sequence", f"{desc}: the feature returned by {acc}() gives get_spliced_sequence() -> {k3}:"
                            f"{sv.fields['sequence'] if k3 == 'ok' else sv}; the chromosome stretch is {wseq!r}", fm.qual))
    return n, out


def rg_guids(ctx):
    kinds = ("TranscriptInterval", "FeatureInterval", "CDSInterval", "GeneInterval", "FeatureIntervalCollection",
             "VariantIntervalCollection", "AnnotationCollection")
    specs = [(k, w) for k in kinds for w in ((2, 40), (5, 30), (10, 18))]
    results = pmap(_runner(ctx.repo, _guid_case), specs, min_items=4)
    results += pmap(_runner(ctx.repo, _gene_twin_case), [(cs, ce, sn) for sn in ("PLUS", "MINUS") for cs, ce in ((2, 18), (16, 40), (8, 26), (2, 40))], min_items=4)
    mod = {"TranscriptInterval": "gene.transcript", "FeatureInterval": "gene.feature", "CDSInterval": "gene.cds", "GeneInterval": "gene.gene",
           "FeatureIntervalCollection": "gene.feature", "VariantIntervalCollection": "gene.variants", "AnnotationCollection": "gene.collections"}
    _report(ctx, "C07.RG", results, [(f"{mod[k]}:{k}.__init__", "chunk-built twin has the chromosome-built twin's identifier") for k in kinds]
            + [("gene.interval:AbstractFeatureIntervalCollection._find_primary_feature", "chunk-built gene picks the chromosome-built gene's primary transcript"),
               ("gene.transcript:TranscriptInterval.cds_size", "chromosome-level size on a chunk")])


def r1_digest_sources(ctx):
    """strengthening on top of RG (which decides by interpretation on three windows): no chunk-relative accessor among the
    arguments of digest_object extends RG's verdict to every chunk window.  Never alarms."""
    ctx.r.soften("C07.R1")
    _r1_digest_sources(ctx)


def _r1_digest_sources(ctx):
    """no chunk-relative accessor among the arguments of digest_object in the interval / collection classes"""
    r = ctx.r
    n = 0
    for mod in ("gene.cds", "gene.transcript", "gene.feature", "gene.gene", "gene.variants", "gene.collections"):
        m = ctx.repo.module(mod)
        for cls in m.classes.values():
            for fn in cls.methods.values():
                for call in calls_in(fn.node):
                    if call_tail(call) != "digest_object":
                        continue
                    n += 1
                    bad = []
                    for a in list(call.args) + [k.value for k in call.keywords]:
                        for sub in ast.walk(a):
                            if isinstance(sub, ast.Attribute) and sub.attr in CHUNK_NAMES:
                                bad.append(src(sub))
                    r.check(not bad, "C07.R1", fn.qual, "identifier digest reads chromosome-level values only",
                            f"the identifier digest reads chunk-relative value(s) {sorted(set(bad))}: the same object built on a "
                            f"sequence chunk gets another identifier", (fn, call))
    r.floor("C07.R1", "digest_object call sites", n, 8)


RULES = [
    ("C07.RK", rk_cds),
    ("C07.RT", rk_intervals),
    ("C07.RG", rg_guids),
    ("C07.R1", r1_digest_sources),
]
