"""C17 - NCBI feature-table export lists the model's genes 5'->3' with correct partial marks.

RK  the analyser interprets collection_to_tbl for generated collections with sequence (coding and non-coding biotypes,
    both strands, multi-exon, adjacent CDS blocks, start frames 0/1/2, with / without start and stop codons, an in-frame
    stop) x {prokaryotic, eukaryotic} flavour x translation table, parses the text with an independent 5-column reader
    and compares with an oracle computed from the constructor arguments and the genome: header, 1-based inclusive
    blocks 5'->3' (start > end on the minus strand), 5'/3' partial marks, codon_start, pseudo, locus tags unique and
    stepping, reproducibility for a fixed seed (0 included)."""
import itertools

from ..genekernel import chrom_parent, gene_interp, mk_collection, mk_gene, mk_transcript
from ..interp import FakeModule, Raised, Uninterpretable
from ..lockernel import run, strands
from .c01 import enum_positions
from .c05 import GENOME, _report, bases, translate_ref, walker
from .c07 import consistent_frames
from .c15 import NCBI_STARTS

EXPLANATION = (
    "collection_to_tbl and the Tbl*Feature classes are interpreted by the analyser (random is replaced by a seeded "
    "stand-in so that reproducibility is observable) for generated collections x flavour x translation table; the text "
    "is parsed by an independent reader and compared with an oracle from the model and genome: '>Features <name>' header, "
    "gene / mRNA / CDS / RNA features with the merged source blocks as 1-based inclusive intervals in 5'->3' order, '<' "
    "exactly when the first codon is not a start codon of the table, '>' exactly when the CDS does not end in frame on a "
    "stop, codon_start = start frame + 1, pseudo exactly when a transcript has an in-frame stop, unique stepping locus "
    "tags, identical output for equal seeds (including 0). Not decided: tbl2asn's acceptance of the file."
)

W = "io.ncbi.tbl_writer"


class SeededRandom(FakeModule):
    _entropy = [7919]

    def __init__(self):
        self.state = None
        # an unseeded generator starts somewhere else in every process / run
        SeededRandom._entropy[0] = (SeededRandom._entropy[0] * 48271 + 11) % 2147483647
        self.unseeded = SeededRandom._entropy[0]

    def seed(self, x=None):
        import zlib
        self.state = (zlib.crc32(repr(x).encode()) & 0xFFFFFFFF) or 1

    def _next(self):
        if self.state is None:
            # an unseeded generator differs from run to run: model it by a source that never repeats within the check
            self.unseeded = (self.unseeded * 1103515245 + 12345) & 0x7FFFFFFF
            return self.unseeded
        self.state = (self.state * 1103515245 + 12345) & 0x7FFFFFFF
        return self.state

    def choice(self, seq):
        return seq[self._next() % len(seq)]


GENES = [
    # id, strand, transcripts [(exons, cds, start_frame)], biotype
    ("gA", "PLUS", [([(0, 12)], [(0, 12)], 0)], "protein_coding"),                       # ATG GCA TTG TAA: complete
    ("gB", "PLUS", [([(13, 27)], [(15, 24)], 0)], "protein_coding"),                     # ATG AAA TAG: complete, UTRs
    ("gC", "PLUS", [([(2, 12)], [(3, 12)], 0)], "protein_coding"),                       # GCA TTG TAA: 5' partial
    ("gD", "PLUS", [([(0, 11)], [(0, 11)], 0)], "protein_coding"),                       # ends out of frame: 3' partial
    ("gE", "PLUS", [([(1, 12)], [(1, 12)], 2)], "protein_coding"),                       # start frame 2: codon_start 3
    ("gF", "PLUS", [([(0, 6), (6, 12)], [(0, 6), (6, 12)], 0)], "protein_coding"),       # adjacent blocks are merged
    ("gG", "PLUS", [([(0, 6), (9, 12), (15, 24)], [(0, 6), (9, 12), (15, 24)], 0)], "protein_coding"),  # multi exon, internal stop?
    ("gH", "MINUS", [([(24, 33)], [(24, 33)], 0)], "protein_coding"),                    # minus strand
    ("gI", "MINUS", [([(20, 28), (31, 40)], [(22, 28), (31, 37)], 0)], "protein_coding"),
    ("gO", "MINUS", [([(18, 27), (31, 41)], [(20, 27), (31, 39)], 0)], "protein_coding"),  # minus, block lengths 7 and 8
    ("gP", "MINUS", [([(18, 27), (30, 41)], [(19, 27), (30, 40)], 1)], "protein_coding"),  # minus, start frame 1
    ("gJ", "PLUS", [([(25, 37)], [(25, 37)], 0)], "protein_coding"),                     # TTG start: table dependent
    ("gK", "PLUS", [([(3, 20), (24, 30)], None, 0)], "tRNA"),
    ("gL", "MINUS", [([(5, 18)], None, 0)], "rRNA"),
    ("gM", "PLUS", [([(8, 19), (19, 27)], None, 0)], "lncRNA"),
    ("gN", "PLUS", [([(0, 24)], [(0, 24)], 0), ([(0, 12)], [(0, 12)], 0)], "protein_coding"),  # in-frame stop in isoform 1 -> pseudo
    # three isoforms, only the shortest CDS (GGT TAA GCG) has an in-frame stop; the longest CDS is clean -> the gene is pseudo
    ("gQ", "PLUS", [([(25, 49)], [(25, 49)], 0), ([(27, 47)], [(28, 40)], 0), ([(30, 45)], [(33, 42)], 0)], "protein_coding"),
    # one exon whose CDS is written as adjacent blocks (a frame bookkeeping split inside the exon): one merged CDS interval
    ("gR", "PLUS", [([(0, 12)], [(0, 6), (6, 12)], 0)], "protein_coding"),
    ("gS", "MINUS", [([(24, 33)], [(24, 27), (27, 33)], 0)], "protein_coding"),
]


def merged(blocks):
    out = []
    for s, e in sorted(blocks):
        if out and s <= out[-1][1]:
            out[-1] = (out[-1][0], max(out[-1][1], e))
        else:
            out.append((s, e))
    return out


def tbl_blocks(blocks, strand):
    """1-based inclusive pairs in 5'->3' order; minus strand: each pair and the list reversed"""
    rows = [(s + 1, e) for s, e in merged(blocks)]
    if strand == "MINUS":
        rows = [(b, a) for a, b in rows][::-1]
    return rows


def parse_tbl(lines):
    """independent 5-column reader: -> (header, [feature dict(type, intervals[(start,end) strings], quals[(k,v)])])"""
    header = lines[0] if lines else ""
    feats = []
    for ln in lines[1:]:
        cols = ln.split("\t")
        if ln.startswith("\t\t\t"):
            if not feats:
                raise BadTbl(f"qualifier line before any feature: {ln!r}")
            feats[-1]["quals"].append((cols[3], cols[4] if len(cols) > 4 else ""))
        elif len(cols) >= 3 and cols[2]:
            feats.append(dict(type=cols[2], intervals=[(cols[0], cols[1])], quals=[]))
        else:
            if not feats or len(cols) < 2:
                raise BadTbl(f"interval line without a feature / without two columns: {ln!r}")
            feats[-1]["intervals"].append((cols[0], cols[1]))
    for ft in feats:
        for a, b in ft["intervals"]:
            if not (a.lstrip("<>").isdigit() and b.lstrip("<>").isdigit()) or a.startswith(">") or b.startswith("<"):
                raise BadTbl(f"interval {a!r} {b!r} of a {ft['type']} feature is not '<'start / '>'end with integer coordinates")
    return header, feats


class BadTbl(Exception):
    """the exported text is not a feature table an independent 5-column reader can take in"""


def expected(gene, flavor, table):
    gid, strand, txs, biotype = gene
    feats = []
    lo = min(t[0][0][0] for t in txs)
    hi = max(t[0][-1][1] for t in txs)
    coding = any(t[1] for t in txs)
    pseudo = False
    infos = []
    for exons, cds, f0 in txs:
        if not cds:
            infos.append(None)
            continue
        mcds = merged(cds)
        frames = consistent_frames(mcds, strand, f0)
        codons = walker(mcds, strand, frames)
        seq = "".join(bases(c, strand) for c in codons)
        prot = translate_ref(seq, "DEFAULT") if seq else ""
        if "*" in prot[:-1]:
            pseudo = True
        L = sum(e - s for s, e in mcds)
        first = seq[:3]
        start_incomplete = first not in NCBI_STARTS[table]
        end_incomplete = (L % 3 != f0) or seq[-3:] not in ("TAA", "TAG", "TGA")
        infos.append(dict(mcds=mcds, start_incomplete=start_incomplete, end_incomplete=end_incomplete, codon_start=f0 + 1))
    feats.append(dict(type="gene", rows=tbl_blocks([(lo, hi)], strand), lt=False, gt=False, pseudo=pseudo and coding))
    for (exons, cds, f0), info in zip(txs, infos):
        if coding:
            if info is None:
                continue
            if flavor == "EUKARYOTIC":
                feats.append(dict(type="mRNA", rows=tbl_blocks(exons, strand), lt=info["start_incomplete"], gt=info["end_incomplete"], pseudo=pseudo))
            feats.append(dict(type="CDS", rows=tbl_blocks(info["mcds"], strand), lt=info["start_incomplete"], gt=info["end_incomplete"],
                              pseudo=pseudo, codon_start=info["codon_start"]))
        else:
            ty = {"tRNA": "tRNA", "rRNA": "rRNA"}.get(biotype, "ncRNA")
            # RNA features list the source blocks; merged or as given (adjacent blocks) are both "exactly the source blocks"
            raw = [(s + 1, e) for s, e in sorted(exons)]
            if strand == "MINUS":
                raw = [(b, a) for a, b in raw][::-1]
            feats.append(dict(type=ty, rows=tbl_blocks(exons, strand), rows_unmerged=raw, lt=False, gt=False, pseudo=False))
    return feats


def _case(repo, it, S, spec):
    gene_ids, flavor, table, seed = spec[:4]
    # optional: the source carries multi-valued qualifiers that the writer turns into /db_xref and /gene_synonym lines
    quals = {"db_xref": ["GeneID:2", "GeneID:10", "HGNC:7"], "gene_synonym": ["synB", "synA", "synC"], "other": ["x"]} if len(spec) > 4 else None
    nosym = len(spec) > 5  # the genes have no symbol of their own (the writer then promotes a synonym)
    out = []
    f = repo.fn(f"{W}:collection_to_tbl")
    F = it.enum("CDSFrame")
    B = it.enum("Biotype")
    nm = {0: "ZERO", 1: "ONE", 2: "TWO"}
    par = chrom_parent(it, GENOME, alphabet="NT_EXTENDED")
    chosen = [g for g in GENES if g[0] in gene_ids]

    def build_collection(shift_downstream=0):
        genes = []
        for gid, strand, txs, biotype in chosen:
            tobjs = []
            for i, (exons, cds, f0) in enumerate(txs):
                kw = dict(transcript_id=f"{gid}.{i}", sequence_name="chr1", parent_or_seq_chunk_parent=par, transcript_type=B[biotype])
                if quals:
                    kw["qualifiers"] = {k: list(v) for k, v in quals.items()}
                    kw["qualifiers"]["product"] = ["tRNA-Ser", "tRNA-Ala"] if biotype == "tRNA" else ["prod_b", "prod_a", "prod c"]
                if cds:
                    fr = consistent_frames(cds, strand, f0)
                    if shift_downstream:
                        five = 0 if strand == "PLUS" else len(fr) - 1
                        fr = [x if j == five else (x + shift_downstream) % 3 for j, x in enumerate(fr)]
                    tobjs.append(mk_transcript(it, exons, S[strand], cds, [F[nm[x]] for x in fr], **kw))
                else:
                    tobjs.append(mk_transcript(it, exons, S[strand], **kw))
            genes.append(mk_gene(it, tobjs, gene_id=gid, gene_symbol=None if nosym else gid + "sym", gene_type=B[biotype], sequence_name="chr1", parent_or_seq_chunk_parent=par,
                                 **({"qualifiers": {k: list(v) for k, v in quals.items()}} if quals else {})))
        return mk_collection(it, genes, None, sequence_name="chr1", parent_or_seq_chunk_parent=par)
    ac = build_collection()
    desc = f"genes {list(gene_ids)} flavor={flavor} table={table} seed={seed}" + (" (multi-valued db_xref / gene_synonym qualifiers)" if quals else "") + (" (genes without a symbol)" if nosym else "")
    texts = []
    for rep in range(2):
        rnd = SeededRandom()
        it.overrides["random"] = rnd
        handle = []
        k, v = run(it, f, [[ac], handle], dict(translation_table=it.enum("TranslationTable")[table], locus_tag_prefix="LT",
                                               genbank_flavor=it.enum("GenbankFlavor")[flavor], locus_tag_jump_size=5,
                                               submitter_lab_name="lab", random_seed=seed), None)
        if k != "ok":
            return 1, [("export", f"{desc}: collection_to_tbl raises {v}", f.qual)]
        texts.append(list(handle))
    if texts[0] != texts[1]:
        diff = [(a, b) for a, b in zip(texts[0], texts[1]) if a != b][:1]
        out.append((f"reproducible for a fixed seed{' (seed 0)' if seed == 0 else ''}", f"{desc}: two exports with random_seed={seed} differ: {diff}", f.qual))
    if seed is not None:
        # the same with the generated defaults (no locus-tag prefix, no lab name given): everything random in the file comes
        # after the seed, whatever state the process-wide generator was left in
        dtexts = []
        for rep in range(2):
            it.overrides["random"] = SeededRandom()
            handle = []
            k, v = run(it, f, [[ac], handle], dict(translation_table=it.enum("TranslationTable")[table],
                                                   genbank_flavor=it.enum("GenbankFlavor")[flavor], random_seed=seed), None)
            if k != "ok":
                out.append(("export with default names", f"{desc}: collection_to_tbl without prefix / lab name raises {v}", f.qual))
                break
            dtexts.append(list(handle))
        if len(dtexts) == 2 and dtexts[0] != dtexts[1]:
            diff = [(a, b) for a, b in zip(dtexts[0], dtexts[1]) if a != b][:1]
            out.append((f"reproducible for a fixed seed with generated names{' (seed 0)' if seed == 0 else ''}",
                        f"{desc}: two exports with random_seed={seed} and no locus_tag_prefix / submitter_lab_name differ: {diff}", f.qual))
    # qualifier values are sets: their iteration order changes with the hash seed of the process, the file for a fixed seed must not.
    # The same export with every set iterated in the opposite order (an equally valid order) gives the same text.
    from ..interp import other_hash_seed
    with other_hash_seed():
        it.overrides["random"] = SeededRandom()
        handle = []
        k, v = run(it, f, [[ac], handle], dict(translation_table=it.enum("TranslationTable")[table], locus_tag_prefix="LT",
                                               genbank_flavor=it.enum("GenbankFlavor")[flavor], locus_tag_jump_size=5,
                                               submitter_lab_name="lab", random_seed=seed), None)
    if k != "ok":
        out.append(("export", f"{desc}: collection_to_tbl raises {v} when sets are iterated in another order", f.qual))
    elif seed is not None and list(handle) != texts[0]:
        diff = [(a_, b_) for a_, b_ in zip(texts[0], handle) if a_ != b_][:2]
        out.append(("reproducible for a fixed seed [iteration order of sets]", f"{desc}: the same export with every set iterated in the opposite order "
                    f"(another hash seed) gives another file for the same random_seed: {diff}", f.qual))
    # a feature table states one reading frame per CDS (codon_start): source models that differ only in the frames annotated on
    # the blocks 3' of the first one describe the same file - same partial marks, same pseudo flags
    if seed is not None and not quals and any(cds and len(cds) > 1 for _g, _s, txs_, _b in chosen for _e, cds, _f in txs_):
        for sh in (1, 2):
            try:
                ac_sh = build_collection(sh)
            except Raised:
                continue
            it.overrides["random"] = SeededRandom()
            handle = []
            k, v = run(it, f, [[ac_sh], handle], dict(translation_table=it.enum("TranslationTable")[table], locus_tag_prefix="LT",
                                                      genbank_flavor=it.enum("GenbankFlavor")[flavor], locus_tag_jump_size=5,
                                                      submitter_lab_name="lab", random_seed=seed), None)
            if k != "ok" or list(handle) != texts[0]:
                diff = [(a_, b_) for a_, b_ in zip(texts[0], handle) if a_ != b_][:2] if k == "ok" else v
                out.append(("frames annotated 3' of the first block do not change the file", f"{desc}: the same genes with the frames of the downstream CDS "
                            f"blocks shifted by {sh} (start frame unchanged) export differently: {diff if diff else (len(texts[0]), len(handle))}", f.qual))
                break
    lines = texts[0]
    if not lines or lines[0] != ">Features chr1":
        out.append(("header", f"{desc}: first line {lines[:1]}; expected '>Features chr1'", f.qual))
        return 2, out
    try:
        header, feats = parse_tbl(lines)
    except BadTbl as ex:
        out.append(("feature table syntax", f"{desc}: {ex}", f.qual))
        return 2, out
    want = []
    for g in chosen:
        want += expected(g, flavor, table)
    if [x["type"] for x in feats] != [x["type"] for x in want]:
        out.append(("feature sequence", f"{desc}: features written {[x['type'] for x in feats]}; the model gives {[x['type'] for x in want]}", f.qual))
        return 2, out
    tags = []
    for got, w in zip(feats, want):
        rows = []
        lt = gt = False
        for a, b in got["intervals"]:
            if a.startswith("<"):
                lt, a = True, a[1:]
            if b.startswith(">"):
                gt, b = True, b[1:]
            if not (a.isdigit() and b.isdigit()):
                out.append(("feature table syntax", f"{desc}: interval {got['intervals']} of a {got['type']} row: only '<' before a start and '>' before an "
                            f"end are allowed around the 1-based numbers", f"{W}:TblFeature._location_to_str"))
                return 2, out
            rows.append((int(a), int(b)))
        q = dict(got["quals"])
        qn = {"gene": f"{W}:GeneTblFeature.__init__", "CDS": f"{W}:CDSTblFeature.__init__", "mRNA": f"{W}:MRNATblFeature.__init__"}.get(w["type"], f"{W}:TblFeature._location_to_str")
        if rows != w["rows"] and not (w["type"] in ("ncRNA", "tRNA", "rRNA", "misc_RNA") and rows == w.get("rows_unmerged")):
            out.append((f"{w['type']} intervals", f"{desc}: {w['type']} intervals {rows}; the source blocks 5'->3' (1-based inclusive) are {w['rows']}", f"{W}:TblFeature._location_to_str"))
        if lt != w["lt"]:
            out.append((f"{w['type']} 5' partial mark", f"{desc}: {w['type']} {rows} is {'marked' if lt else 'not marked'} 5'-partial; first codon start-codon status in table {table} says {'partial' if w['lt'] else 'complete'}", qn))
        if gt != w["gt"]:
            out.append((f"{w['type']} 3' partial mark", f"{desc}: {w['type']} {rows} is {'marked' if gt else 'not marked'} 3'-partial; expected {'partial' if w['gt'] else 'complete'}", qn))
        if ("pseudo" in q) != w["pseudo"]:
            out.append((f"{w['type']} pseudo flag", f"{desc}: {w['type']} {rows} pseudo={'pseudo' in q}; a transcript has an in-frame stop: {w['pseudo']}", qn))
        if w["type"] == "CDS" and q.get("codon_start") != str(w["codon_start"]):
            out.append(("codon_start", f"{desc}: CDS {rows} codon_start={q.get('codon_start')}; start frame + 1 = {w['codon_start']}", qn))
        if w["type"] == "gene":
            tags.append(q.get("locus_tag"))
    wt = [f"LT_{5 * (i + 1)}" for i in range(len(chosen))]
    if tags != wt:
        out.append(("locus tags", f"{desc}: locus tags {tags}; unique tags stepping by 5 are {wt}", f.qual))
    return 3, out


def _multi_case(repo, it, S, spec):
    """several collections in one export: locus tags are unique and step through the whole file"""
    groups, flavor, step = spec
    out = []
    f = repo.fn(f"{W}:collection_to_tbl")
    F, B = it.enum("CDSFrame"), it.enum("Biotype")
    nm = {0: "ZERO", 1: "ONE", 2: "TWO"}
    acs = []
    for gi, group in enumerate(groups):
        sname = f"chr{gi + 1}"
        par = chrom_parent(it, GENOME, seq_id=sname, alphabet="NT_EXTENDED")
        genes = []
        for gid, strand, txs, biotype in [g for g in GENES if g[0] in group]:
            tobjs = []
            for i, (exons, cds, f0) in enumerate(txs):
                kw = dict(transcript_id=f"{gid}.{i}", sequence_name=sname, parent_or_seq_chunk_parent=par, transcript_type=B[biotype])
                if cds:
                    fr = consistent_frames(cds, strand, f0)
                    tobjs.append(mk_transcript(it, exons, S[strand], cds, [F[nm[x]] for x in fr], **kw))
                else:
                    tobjs.append(mk_transcript(it, exons, S[strand], **kw))
            genes.append(mk_gene(it, tobjs, gene_id=gid, gene_symbol=gid + "sym", gene_type=B[biotype], sequence_name=sname, parent_or_seq_chunk_parent=par))
        acs.append(mk_collection(it, genes, None, sequence_name=sname, parent_or_seq_chunk_parent=par))
    it.overrides["random"] = SeededRandom()
    handle = []
    k, v = run(it, f, [acs, handle], dict(translation_table=it.enum("TranslationTable")["DEFAULT"], locus_tag_prefix="LT",
                                          genbank_flavor=it.enum("GenbankFlavor")[flavor], locus_tag_jump_size=step,
                                          submitter_lab_name="lab", random_seed=3), None)
    desc = f"collections {[list(g) for g in groups]} flavor={flavor} step={step}"
    if k != "ok":
        return 1, [("multi-collection export", f"{desc}: collection_to_tbl raises {v}", f.qual)]
    lines = list(handle)
    headers = [ln for ln in lines if ln.startswith(">Features")]
    if headers != [f">Features chr{i + 1}" for i in range(len(groups))]:
        out.append(("multi-collection headers", f"{desc}: headers {headers}", f.qual))
    gene_tags, child_tags = [], []
    cur = None
    for ln in lines:
        cols = ln.split("\t")
        if ln.startswith("\t\t\t"):
            if cols[3] == "locus_tag":
                (gene_tags if cur == "gene" else child_tags).append(cols[4])
        elif len(cols) >= 3 and cols[2]:
            cur = cols[2]
    ngenes = sum(len(g) for g in groups)
    want = [f"LT_{step * (i + 1)}" for i in range(ngenes)]
    if gene_tags != want:
        out.append(("locus tags across collections", f"{desc}: gene locus tags {gene_tags}; unique tags stepping by {step} through the whole file are {want}", f.qual))
    if any(t not in gene_tags for t in child_tags):
        out.append(("locus tags across collections", f"{desc}: a child feature carries a locus tag no gene has", f.qual))
    return 1, out


_W = {}


def _mixed_strand_case(repo, it, S, spec):
    """a gene whose isoforms lie on both strands (the writer assigns one strand to the whole gene): the majority strand, the first
    supplied isoform's strand on a tie - and the same choice whatever order a set is iterated in"""
    strands_, seed = spec
    from ..interp import other_hash_seed
    f = repo.fn(f"{W}:collection_to_tbl")
    B = it.enum("Biotype")
    par = chrom_parent(it, GENOME, alphabet="NT_EXTENDED")
    out = []

    def export():
        txs = [mk_transcript(it, [(5 + 2 * i, 18 + i)], S[sn], transcript_id=f"gX.{i}", sequence_name="chr1", parent_or_seq_chunk_parent=par,
                             transcript_type=B["lncRNA"]) for i, sn in enumerate(strands_)]
        g = mk_gene(it, txs, gene_id="gX", gene_symbol="gXsym", gene_type=B["lncRNA"], sequence_name="chr1", parent_or_seq_chunk_parent=par)
        ac = mk_collection(it, [g], None, sequence_name="chr1", parent_or_seq_chunk_parent=par)
        it.overrides["random"] = SeededRandom()
        handle = []
        k, v = run(it, f, [[ac], handle], dict(locus_tag_prefix="LT", submitter_lab_name="lab", random_seed=seed), None)
        return k, (list(handle) if k == "ok" else v)
    k1, t1 = export()
    with other_hash_seed():
        k2, t2 = export()
    desc = f"gene with isoforms on {list(strands_)}"
    if k1 != "ok":
        return 1, [("mixed-strand gene export", f"{desc}: collection_to_tbl raises {t1}", f.qual)]
    if (k1, t1) != (k2, t2):
        d_ = [(a, b) for a, b in zip(t1, t2) if a != b][:1] if k2 == "ok" else t2
        out.append(("reproducible for a fixed seed [mixed-strand gene]", f"{desc}: exported again with every set iterated in the opposite order the file differs: {d_}",
                    f"{W}:GeneTblFeature.__init__"))
    try:
        _h, feats = parse_tbl(t1)
    except BadTbl as ex:
        return 2, out + [("feature table syntax", f"{desc}: {ex}", f.qual)]
    gene_rows = [x for x in feats if x["type"] == "gene"]
    if gene_rows:
        a, b = gene_rows[0]["intervals"][0]
        if not (a.lstrip("<>").isdigit() and b.lstrip("<>").isdigit()):
            return 2, out + [("feature table syntax", f"{desc}: gene interval {(a, b)} is not a pair of numbers", f.qual)]
        got = "MINUS" if int(a.lstrip("<>")) > int(b.lstrip("<>")) else "PLUS"
        cnt = {sn: list(strands_).count(sn) for sn in set(strands_)}
        best = max(cnt.values())
        want = [sn for sn in strands_ if cnt[sn] == best][0]
        if got != want:
            out.append(("strand of a mixed-strand gene", f"{desc}: the gene row is written on {got}; majority strand (first supplied isoform on a tie) is {want}",
                        f"{W}:GeneTblFeature.__init__"))
    return 2, out


def _runner(repo, fn):
    def work(spec):
        if _W.get("repo") is not repo:
            _W["it"] = gene_interp(repo, max_steps=10 ** 12)
            _W["repo"] = repo
        it = _W["it"]
        try:
            return fn(repo, it, strands(it), spec)
        except Uninterpretable as ex:
            return 0, [("uninterpretable", str(ex), f"{W}:collection_to_tbl")]
    return work


def rk_tbl(ctx):
    specs = []
    ids = [g[0] for g in GENES]
    for gid in ids:
        for flavor in ("EUKARYOTIC", "PROKARYOTIC"):
            for table in ("DEFAULT", "PROKARYOTE") if gid in ("gA", "gC", "gJ", "gE") else ("DEFAULT",):
                specs.append(((gid,), flavor, table, 11))
    specs.append((tuple(ids[:5]), "EUKARYOTIC", "STANDARD", 0))
    specs.append((tuple(ids[5:]), "PROKARYOTIC", "DEFAULT", 0))
    specs.append((tuple(ids), "EUKARYOTIC", "DEFAULT", None))
    specs.append((("gA", "gK"), "EUKARYOTIC", "DEFAULT", 11, "qualifiers"))
    specs.append((("gB", "gL"), "PROKARYOTIC", "DEFAULT", 0, "qualifiers"))
    specs.append((("gA", "gK"), "EUKARYOTIC", "DEFAULT", 11, "qualifiers", "no gene symbol"))
    specs.append((("gL", "gM"), "EUKARYOTIC", "DEFAULT", 11, "qualifiers"))
    ctx.r.floor("C17.RK", "tbl export cases", len(specs), 25)
    from ..par import pmap
    results = pmap(_runner(ctx.repo, _case), specs, min_items=4)
    multi = [((("gA", "gB", "gK"), ("gH", "gL"), ("gJ",)), fl, st) for fl in ("EUKARYOTIC", "PROKARYOTIC") for st in (5, 3)]
    mresults = pmap(_runner(ctx.repo, _multi_case), multi, min_items=4)
    mixed = [(("PLUS", "MINUS"), 11), (("MINUS", "PLUS"), 11), (("MINUS", "PLUS", "PLUS"), 0), (("PLUS", "MINUS", "MINUS", "PLUS"), 3)]
    mresults += pmap(_runner(ctx.repo, _mixed_strand_case), mixed, min_items=4)
    # an unseeded export (seed None) is allowed to differ between runs
    cleaned = []
    for spec, (n, outs) in zip(specs, results):
        if spec[3] is None:
            outs = [o for o in outs if not o[0].startswith("reproducible")]
        cleaned.append((n, outs))
    cleaned += mresults
    _report(ctx, "C17.RK", cleaned, [(f"{W}:collection_to_tbl", "header, locus tags, reproducibility"),
                                     (f"{W}:TblFeature._location_to_str", "1-based inclusive blocks 5'->3'"),
                                     (f"{W}:CDSTblFeature.__init__", "partial marks / codon_start / pseudo"),
                                     (f"{W}:GeneTblFeature.__init__", "gene span and strand")])


RULES = [("C17.RK", rk_tbl)]
