"""Calling conventions of the public API (rule suffix `.RA`, shared by all properties).

The evaluated rules ask the library with one calling convention (mostly keywords, flags spelled out).  The property
statements quantify over *all* flag combinations, "as documented" - also when a flag is passed by position or left
out.  Two exact, purely syntactic rules cover those conventions:

RA-ref   reference signatures.  `sa/pinned_api.json` (written by tools/pin_api.py from the reviewed tree) holds, for every
         public function that a property's evaluated rules interpret, its positional parameters in order with the source
         of their defaults, and its keyword-only parameters.  On the tree under analysis the function must still accept
         the same calls with the same meaning: the pinned positional parameters come first, in the same order, under the
         same names; a parameter that had a default keeps a default of the same value (decided by evaluating both
         expressions, not by comparing text); keyword-only parameters keep name and default.  Trailing optional parameters
         may be added, annotations and docstrings are ignored, keyword-only parameters may be re-ordered.  A default that
         became `None` (sentinel idiom) is not decided here (note only).
RA-sib   sibling agreement (no reference needed).  A method that overrides a method of a repository base class must
         agree with it on the names and order of the shared positional parameters and on the values of their defaults:
         the documented flags of `Location` are declared once on the abstract class and honoured by Single / Compound /
         Empty alike.  Disagreements present on the reviewed tree are listed in `SIBLING_EXCEPTIONS` with the reason.

A function named in the reference that no longer exists is reported as a note (the evaluated rules of the property fail
the run themselves when an anchor they call vanishes)."""
import ast
import json
import os

from .model import AnchorMissing

HERE = os.path.dirname(os.path.abspath(__file__))
PIN = os.path.join(HERE, "pinned_api.json")

# (overriding function qualname, parameter) -> reason the disagreement with the base declaration is accepted
SIBLING_EXCEPTIONS = {
    ("gene.transcript:TranscriptInterval.to_bed12", "name"):
        "the default names the attribute that fills the BED name column: transcripts have transcript_symbol, features feature_name",
    ("gene.interval:AbstractFeatureInterval.to_gff", "parent"):
        "two families of exporters: collection-level to_gff(chromosome_relative_coordinates, ...) on AbstractInterval, "
        "interval-level to_gff(parent, parent_qualifiers, ...) on AbstractFeatureInterval; each family is internally consistent",
}


def signature(node):
    a = node.args
    pos = [x.arg for x in a.posonlyargs + a.args]
    nd = len(a.defaults)
    defaults = [None] * (len(pos) - nd) + list(a.defaults)
    kwonly = [(x.arg, d) for x, d in zip(a.kwonlyargs, a.kw_defaults)]
    return pos, defaults, kwonly, (a.vararg.arg if a.vararg else None), (a.kwarg.arg if a.kwarg else None)


def signature_record(func):
    pos, defaults, kwonly, va, kw = signature(func.node)
    return {
        "pos": [[p, (ast.unparse(d) if d is not None else None)] for p, d in zip(pos, defaults)],
        "kwonly": [[p, (ast.unparse(d) if d is not None else None)] for p, d in kwonly],
        "vararg": va, "kwarg": kw,
    }


def is_public(func):
    n = func.name
    if func.parent is not None:
        return False
    if n in ("__init__", "__new__", "__call__", "__getitem__", "__contains__"):
        return True
    if n.startswith("_"):
        return False
    if func.cls is not None and func.cls.name.startswith("_") and func.cls.name != "_EmptyLocation":
        return False
    return True


def all_public(repo):
    for m in repo.modules.values():
        for f in m.funcs.values():
            if is_public(f):
                yield f
        for c in m.classes.values():
            for f in c.methods.values():
                if is_public(f):
                    yield f


def _value(it, src_or_node, func):
    """evaluated value of a default expression in the context of `func`'s module, or ('src', text) when it cannot be
    evaluated statically"""
    node = ast.parse(src_or_node, mode="eval").body if isinstance(src_or_node, str) else src_or_node
    try:
        return ("val", it.eval(node, {}, func, 0))
    except Exception:
        return ("src", ast.unparse(node))


def _same_default(it, pinned_src, cur_node, func):
    if cur_node is not None and ast.unparse(cur_node) == pinned_src:
        return True, None
    a = _value(it, pinned_src, func)
    b = _value(it, cur_node, func)
    if a[0] == "val" and b[0] == "val":
        try:
            same = it.equals(a[1], b[1], 0) and type(a[1]) is type(b[1])
        except Exception:
            same = False
        return same, (a[1], b[1])
    return a == b, (a[1], b[1])


def _skip_self(func, pos, defaults):
    if func.cls is not None and not func.is_static and pos:
        return pos[1:], defaults[1:]
    return pos, defaults


def rule_api(ctx, prop):
    """RA-ref + RA-sib for the functions the reference attributes to `prop`"""
    from .interp import std_interp
    r, repo = ctx.r, ctx.repo
    rule = f"{prop}.RA"
    if not os.path.exists(PIN):
        raise AnchorMissing("sa/pinned_api.json (reference signatures) is missing")
    pinned = json.load(open(PIN))["functions"]
    it = std_interp(repo)
    mine = {q: rec for q, rec in pinned.items() if prop in rec.get("props", [])}
    n = 0
    for q, rec in sorted(mine.items()):
        try:
            f = repo.fn(q)
        except AnchorMissing:
            r.note(f"{rule}: {q} is in the reference signatures and no longer exists (not decided here)")
            continue
        n += 1
        pos, defaults, kwonly, va, kw = signature(f.node)
        pos, defaults = _skip_self(f, pos, defaults)
        ref = rec["pos"]
        if f.cls is not None and not f.is_static and ref:
            ref = ref[1:]
        problems = []
        for i, (pn, pd) in enumerate(ref):
            if i >= len(pos):
                if not (va or (kw and False)):
                    problems.append(f"positional parameter {i + 1} '{pn}' of the reference signature is gone")
                break
            if pos[i] != pn:
                problems.append(f"positional parameter {i + 1} is '{pos[i]}'; the reference signature has '{pn}' there "
                                f"(calls passing it by position or by name change meaning)")
                break
            cd = defaults[i]
            if pd is not None:
                if cd is None:
                    problems.append(f"parameter '{pn}' lost its default {pd} (calls leaving it out now fail)")
                elif isinstance(cd, ast.Constant) and cd.value is None and pd != "None":
                    r.note(f"{rule}: {q} parameter '{pn}' default {pd} became None (sentinel idiom; not decided here)")
                else:
                    same, vals = _same_default(it, pd, cd, f)
                    if not same:
                        problems.append(f"default of '{pn}' is {ast.unparse(cd)}; the reference signature has {pd} "
                                        f"(calls leaving it out change meaning)")
        # parameters added in front of / between the reference ones are caught above; added trailing ones must be optional
        for j in range(len(ref), len(pos)):
            if defaults[j] is None:
                problems.append(f"new positional parameter '{pos[j]}' has no default (every existing call fails)")
        cur_kw = {k: d for k, d in kwonly}
        for kn, kd in rec.get("kwonly", []):
            if kn not in cur_kw and kn not in pos:
                problems.append(f"keyword-only parameter '{kn}' of the reference signature is gone")
            elif kn in cur_kw and kd is not None:
                cd = cur_kw[kn]
                if cd is None:
                    problems.append(f"keyword-only parameter '{kn}' lost its default {kd}")
                elif not (isinstance(cd, ast.Constant) and cd.value is None and kd != "None"):
                    same, vals = _same_default(it, kd, cd, f)
                    if not same:
                        problems.append(f"default of keyword-only '{kn}' is {ast.unparse(cd)}; reference has {kd}")
        if problems:
            for pr in problems:
                r.violation(rule, f.qual, "calling convention (reference signature)", f"{q}: {pr}", f)
        else:
            r.ok(rule, f.qual, "calling convention (reference signature)", f, "positional order, names and default values unchanged")
    # sibling agreement on the functions of this property that override a repository base method
    ns = 0
    for q in sorted(mine):
        try:
            f = repo.fn(q)
        except AnchorMissing:
            continue
        if f.cls is None or f.name in ("__init__", "__new__"):
            continue
        base = None
        for k in repo.mro(f.cls)[1:]:
            if f.name in k.methods:
                base = k.methods[f.name]
                break
        if base is None:
            continue
        ns += 1
        pos, defaults, _, _, _ = signature(f.node)
        bpos, bdefaults, _, _, _ = signature(base.node)
        pos, defaults = _skip_self(f, pos, defaults)
        bpos, bdefaults = _skip_self(base, bpos, bdefaults)
        bad = None
        for i in range(min(len(pos), len(bpos))):
            if pos[i] != bpos[i]:
                if (f.qual, pos[i]) not in SIBLING_EXCEPTIONS:
                    bad = f"positional parameter {i + 1} is '{pos[i]}' here and '{bpos[i]}' in {base.qual}"
                break
            if defaults[i] is not None and bdefaults[i] is not None:
                same, vals = _same_default(it, ast.unparse(bdefaults[i]), defaults[i], f)
                if not same and (f.qual, pos[i]) not in SIBLING_EXCEPTIONS:
                    bad = (f"default of '{pos[i]}' is {ast.unparse(defaults[i])} here and {ast.unparse(bdefaults[i])} in the "
                           f"declaration it overrides ({base.qual})")
                    break
        if bad:
            r.violation(rule, f.qual, "calling convention (agreement with the overridden declaration)", f"{q}: {bad}", f)
        else:
            r.ok(rule, f.qual, "calling convention (agreement with the overridden declaration)", f,
                 f"shared positional parameters and defaults agree with {base.qual}")
    r.floor(rule, "public functions with a reference signature", n, max(1, int(0.9 * len(mine))))
    return n, ns
