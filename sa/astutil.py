"""AST helpers: dotted names, shallow walks, call argument binding, structured dominance facts,
affine / modular normal forms (E4), path enumeration for loop-free kernels."""
import ast
from fractions import Fraction
from typing import Dict, Iterable, List, Optional, Tuple

FUNC_NODES = (ast.FunctionDef, ast.AsyncFunctionDef, ast.Lambda, ast.ClassDef)


def dotted(node) -> Optional[str]:
    """'self.parent.sequence' for Name/Attribute chains, else None."""
    parts = []
    while isinstance(node, ast.Attribute):
        parts.append(node.attr)
        node = node.value
    if isinstance(node, ast.Name):
        parts.append(node.id)
        return ".".join(reversed(parts))
    return None


def src(node) -> str:
    try:
        return ast.unparse(node)
    except Exception:  # pragma: no cover
        return "<?>"


def walk_shallow(node, include_lambda=True):
    """ast.walk that does not enter nested function / class definitions (lambdas are entered by default)."""
    stack = [node]
    first = True
    while stack:
        n = stack.pop()
        yield n
        for ch in ast.iter_child_nodes(n):
            if isinstance(ch, (ast.FunctionDef, ast.AsyncFunctionDef, ast.ClassDef)):
                continue
            if isinstance(ch, ast.Lambda) and not include_lambda:
                continue
            stack.append(ch)
        first = False


def body_nodes(func_node, include_lambda=True):
    for st in func_node.body:
        yield from walk_shallow(st, include_lambda)


def calls_in(node, shallow=True) -> List[ast.Call]:
    it = walk_shallow(node) if shallow else ast.walk(node)
    out = [n for n in it if isinstance(n, ast.Call)]
    out.sort(key=lambda c: (getattr(c, "lineno", 0), getattr(c, "col_offset", 0)))
    return out


def call_name(call: ast.Call) -> Optional[str]:
    return dotted(call.func)


def call_tail(call: ast.Call) -> Optional[str]:
    """last attribute / name of the callee ('relative_to' for a.b.relative_to(x))"""
    f = call.func
    if isinstance(f, ast.Attribute):
        return f.attr
    if isinstance(f, ast.Name):
        return f.id
    return None


def call_receiver(call: ast.Call):
    f = call.func
    return f.value if isinstance(f, ast.Attribute) else None


def bind_args(call: ast.Call, params: List[str]) -> Dict[str, ast.AST]:
    """map parameter name -> argument node (positional by order, keywords by name); '*'/'**' ignored"""
    out = {}
    for i, a in enumerate(call.args):
        if isinstance(a, ast.Starred):
            continue
        if i < len(params):
            out[params[i]] = a
        else:
            out[f"#{i}"] = a
    for kw in call.keywords:
        if kw.arg is not None:
            out[kw.arg] = kw.value
    return out


def const_value(node, default=None):
    if isinstance(node, ast.Constant):
        return node.value
    if isinstance(node, ast.UnaryOp) and isinstance(node.op, ast.USub) and isinstance(node.operand, ast.Constant):
        return -node.operand.value
    return default


def is_const(node, value) -> bool:
    return isinstance(node, ast.Constant) and node.value is value or (
        isinstance(node, ast.Constant) and not isinstance(value, bool) and not isinstance(node.value, bool)
        and node.value == value
    )


def names_in(node) -> set:
    return {n.id for n in ast.walk(node) if isinstance(n, ast.Name)}


def dotted_in(node) -> set:
    """all maximal dotted chains appearing in node"""
    out = set()

    def rec(n):
        d = dotted(n)
        if d is not None:
            out.add(d)
            return
        for ch in ast.iter_child_nodes(n):
            rec(ch)

    rec(node)
    return out


# ----------------------------------------------------------------------------------------
# structured control flow: termination, dominating facts
# ----------------------------------------------------------------------------------------

def terminates(stmts: List[ast.stmt]) -> bool:
    """every path through the block ends in return / raise / continue / break"""
    if not stmts:
        return False
    last = stmts[-1]
    if isinstance(last, (ast.Return, ast.Raise, ast.Continue, ast.Break)):
        return True
    if isinstance(last, ast.If):
        return terminates(last.body) and terminates(last.orelse)
    if isinstance(last, ast.With):
        return terminates(last.body)
    if isinstance(last, ast.Try):
        if last.finalbody and terminates(last.finalbody):
            return True
        return terminates(last.body + last.orelse) and all(terminates(h.body) for h in last.handlers)
    return False


def raises_only(stmts: List[ast.stmt]) -> bool:
    """every path through the block ends in raise"""
    if not stmts:
        return False
    last = stmts[-1]
    if isinstance(last, ast.Raise):
        return True
    if isinstance(last, ast.If):
        return raises_only(last.body) and raises_only(last.orelse)
    return False


def parent_map(root) -> Dict[int, ast.AST]:
    pm = {}
    for n in ast.walk(root):
        for ch in ast.iter_child_nodes(n):
            pm[id(ch)] = n
    return pm


def _blocks_of(st):
    """(field name, list of statements) for compound statements"""
    out = []
    for fld in ("body", "orelse", "finalbody"):
        v = getattr(st, fld, None)
        if isinstance(v, list) and v and isinstance(v[0], ast.stmt):
            out.append((fld, v))
    if isinstance(st, ast.Try):
        for h in st.handlers:
            out.append(("handler", h.body))
    return out


class Facts:
    """Conditions that are known to hold whenever control reaches a given node of a function
    (structured dominance): tests of enclosing if-branches and negations of earlier sibling
    `if t: <terminates>` statements.  Each fact is (test_node, polarity)."""

    def __init__(self, func_node):
        self.func = func_node
        self.at: Dict[int, List[Tuple[ast.AST, bool]]] = {}
        self.prior_stmts: Dict[int, List[ast.stmt]] = {}
        self._walk(func_node.body, [], [])

    def _walk(self, stmts, facts, prior):
        facts = list(facts)
        prior = list(prior)
        for st in stmts:
            for n in walk_shallow(st):
                self.at[id(n)] = facts
                self.prior_stmts[id(n)] = prior
            if isinstance(st, ast.If):
                self._walk(st.body, facts + [(st.test, True)], prior)
                self._walk(st.orelse, facts + [(st.test, False)], prior)
                # after the statement
                if terminates(st.body) and not terminates(st.orelse):
                    facts = facts + [(st.test, False)]
                elif terminates(st.orelse) and st.orelse and not terminates(st.body):
                    facts = facts + [(st.test, True)]
            elif isinstance(st, (ast.For, ast.While, ast.AsyncFor)):
                inner = facts + ([(st.test, True)] if isinstance(st, ast.While) else [])
                self._walk(st.body, inner, prior)
                self._walk(st.orelse, facts, prior)
            elif isinstance(st, (ast.With, ast.AsyncWith)):
                self._walk(st.body, facts, prior)
            elif isinstance(st, ast.Try):
                self._walk(st.body, facts, prior)
                for h in st.handlers:
                    self._walk(h.body, facts, prior)
                self._walk(st.orelse, facts, prior + st.body)
                self._walk(st.finalbody, facts, prior)
            elif isinstance(st, ast.Assert):
                facts = facts + [(st.test, True)]
            prior = prior + [st]

    def facts_at(self, node) -> List[Tuple[ast.AST, bool]]:
        return self.at.get(id(node), [])

    def stmts_before(self, node) -> List[ast.stmt]:
        """statements that are executed (possibly partially) before control can reach node"""
        return self.prior_stmts.get(id(node), [])


def atoms(test, polarity=True) -> List[Tuple[ast.AST, bool]]:
    """decompose a fact into atomic (node, polarity) facts that must all hold:
    (a and b, True) -> a, b ; (a or b, False) -> not a, not b ; (not a, p) -> (a, not p)"""
    if isinstance(test, ast.UnaryOp) and isinstance(test.op, ast.Not):
        return atoms(test.operand, not polarity)
    if isinstance(test, ast.BoolOp):
        if isinstance(test.op, ast.And) and polarity:
            return [a for v in test.values for a in atoms(v, True)]
        if isinstance(test.op, ast.Or) and not polarity:
            return [a for v in test.values for a in atoms(v, False)]
    return [(test, polarity)]


def fact_atoms(facts) -> List[Tuple[ast.AST, bool]]:
    out = []
    for t, p in facts:
        out.extend(atoms(t, p))
    return out


# ----------------------------------------------------------------------------------------
# local definitions (flow-insensitive def-use)
# ----------------------------------------------------------------------------------------

def local_defs(func_node) -> Dict[str, List[ast.AST]]:
    """name -> list of value nodes assigned to it anywhere in the function (tuple targets are
    resolved element-wise when the value is a tuple display; otherwise value is ('unpack', value, index))"""
    defs: Dict[str, List] = {}

    def bind(target, value):
        if isinstance(target, ast.Name):
            defs.setdefault(target.id, []).append(value)
        elif isinstance(target, (ast.Tuple, ast.List)):
            if isinstance(value, (ast.Tuple, ast.List)) and len(value.elts) == len(target.elts):
                for t, v in zip(target.elts, value.elts):
                    bind(t, v)
            else:
                for i, t in enumerate(target.elts):
                    bind(t, ("unpack", value, i))

    for n in body_nodes(func_node):
        if isinstance(n, ast.Assign):
            for t in n.targets:
                bind(t, n.value)
        elif isinstance(n, ast.AnnAssign) and n.value is not None:
            bind(n.target, n.value)
        elif isinstance(n, ast.AugAssign):
            bind(n.target, ("aug", n.op, n.value))
        elif isinstance(n, (ast.For, ast.AsyncFor)):
            bind(n.target, ("iter", n.iter, None))
        elif isinstance(n, ast.comprehension):
            bind(n.target, ("iter", n.iter, None))
        elif isinstance(n, (ast.With, ast.AsyncWith)):
            for it in n.items:
                if it.optional_vars is not None:
                    bind(it.optional_vars, ("with", it.context_expr, None))
        elif isinstance(n, ast.NamedExpr):
            bind(n.target, n.value)
    return defs


def resolve_local(node, defs, depth=4):
    """follow single-definition local names to their defining expression"""
    seen = 0
    while isinstance(node, ast.Name) and node.id in defs and len(defs[node.id]) == 1 and seen < depth:
        v = defs[node.id][0]
        if not isinstance(v, ast.AST):
            return node
        node = v
        seen += 1
    return node


# ----------------------------------------------------------------------------------------
# E4: affine normal forms over symbolic atoms
# ----------------------------------------------------------------------------------------

class NotAffine(Exception):
    pass


class Aff:
    """sum(c_i * atom_i) + c0 with exact rational coefficients; atoms are canonical strings"""

    __slots__ = ("terms", "const")

    def __init__(self, terms=None, const=0):
        self.terms = {k: Fraction(v) for k, v in (terms or {}).items() if v != 0}
        self.const = Fraction(const)

    @staticmethod
    def sym(name):
        return Aff({name: 1}, 0)

    def __add__(self, o):
        o = _aff(o)
        t = dict(self.terms)
        for k, v in o.terms.items():
            t[k] = t.get(k, 0) + v
        return Aff(t, self.const + o.const)

    __radd__ = __add__

    def __neg__(self):
        return Aff({k: -v for k, v in self.terms.items()}, -self.const)

    def __sub__(self, o):
        return self + (-_aff(o))

    def __rsub__(self, o):
        return _aff(o) - self

    def scale(self, c):
        c = Fraction(c)
        return Aff({k: v * c for k, v in self.terms.items()}, self.const * c)

    def __mul__(self, o):
        o = _aff(o)
        if not o.terms:
            return self.scale(o.const)
        if not self.terms:
            return o.scale(self.const)
        raise NotAffine("product of two non-constant terms")

    __rmul__ = __mul__

    def is_const(self):
        return not self.terms

    def __eq__(self, o):
        o = _aff(o)
        return self.terms == o.terms and self.const == o.const

    def __hash__(self):
        return hash((tuple(sorted(self.terms.items())), self.const))

    def mod(self, k):
        """normal form over Z/k (coefficients and constant reduced); requires integer coefficients"""
        t = {}
        for a, c in self.terms.items():
            if c.denominator != 1:
                raise NotAffine("non-integer coefficient")
            r = int(c) % k
            if r:
                t[a] = r
        if self.const.denominator != 1:
            raise NotAffine("non-integer constant")
        return Aff(t, int(self.const) % k)

    def subst(self, mapping: Dict[str, "Aff"]):
        out = Aff({}, self.const)
        for a, c in self.terms.items():
            if a in mapping:
                out = out + _aff(mapping[a]).scale(c)
            else:
                out = out + Aff({a: c}, 0)
        return out

    def __repr__(self):
        parts = []
        for a in sorted(self.terms):
            c = self.terms[a]
            if c == 1:
                parts.append(f"+{a}")
            elif c == -1:
                parts.append(f"-{a}")
            else:
                parts.append(f"{'+' if c > 0 else ''}{c}*{a}")
        if self.const or not parts:
            parts.append(f"{'+' if self.const >= 0 else ''}{self.const}")
        s = "".join(parts)
        return s[1:] if s.startswith("+") else s


def _aff(x) -> Aff:
    if isinstance(x, Aff):
        return x
    return Aff({}, x)


def affine(node, env: Optional[Dict[str, Aff]] = None, atom=None) -> Aff:
    """Affine normal form of an integer expression.  env maps dotted names (and canonical atom strings)
    to Aff values (local definitions, definitional equations such as len(self) -> self.end - self.start).
    Raises NotAffine for anything else (callers turn that into UNDECIDED)."""
    env = env or {}

    def rec(n):
        if isinstance(n, ast.Constant) and isinstance(n.value, int) and not isinstance(n.value, bool):
            return Aff({}, n.value)
        d = dotted(n)
        if d is not None:
            if d in env:
                return _aff(env[d])
            return Aff.sym(d)
        if isinstance(n, ast.UnaryOp) and isinstance(n.op, ast.USub):
            return -rec(n.operand)
        if isinstance(n, ast.UnaryOp) and isinstance(n.op, ast.UAdd):
            return rec(n.operand)
        if isinstance(n, ast.BinOp):
            if isinstance(n.op, ast.Add):
                return rec(n.left) + rec(n.right)
            if isinstance(n.op, ast.Sub):
                return rec(n.left) - rec(n.right)
            if isinstance(n.op, ast.Mult):
                return rec(n.left) * rec(n.right)
            raise NotAffine(f"operator {type(n.op).__name__}")
        if isinstance(n, ast.Call):
            key = src(n)
            if key in env:
                return _aff(env[key])
            if atom is not None:
                a = atom(n)
                if a is not None:
                    return a
            nm = call_name(n)
            if nm == "len" and len(n.args) == 1 and not n.keywords:
                return Aff.sym(f"len({src(n.args[0])})")
            if nm == "int" and len(n.args) == 1:
                return rec(n.args[0])
            raise NotAffine(f"call {key}")
        if isinstance(n, ast.Subscript):
            key = src(n)
            if key in env:
                return _aff(env[key])
            return Aff.sym(key)
        raise NotAffine(type(n).__name__)

    return rec(node)


def try_affine(node, env=None, atom=None) -> Optional[Aff]:
    try:
        return affine(node, env, atom)
    except NotAffine:
        return None


# ----------------------------------------------------------------------------------------
# loop-free path enumeration (for small kernels)
# ----------------------------------------------------------------------------------------

class Path:
    def __init__(self):
        self.steps: List[tuple] = []  # ('guard', test, polarity) | ('stmt', node)
        self.end: Optional[tuple] = None  # ('return', node) | ('raise', node) | ('fall', None)

    def copy(self):
        p = Path()
        p.steps = list(self.steps)
        p.end = self.end
        return p

    def guards(self):
        return [(s[1], s[2]) for s in self.steps if s[0] == "guard"]

    def stmts(self):
        return [s[1] for s in self.steps if s[0] == "stmt"]


def enumerate_paths(stmts: List[ast.stmt], limit=4096) -> List[Path]:
    """all paths through a loop-free statement list; loops/try make it raise NotAffine-like ValueError"""

    def run(block, paths):
        for st in block:
            live = [p for p in paths if p.end is None]
            done = [p for p in paths if p.end is not None]
            if not live:
                return paths
            if isinstance(st, ast.If):
                a = [p.copy() for p in live]
                b = [p.copy() for p in live]
                for p in a:
                    p.steps.append(("guard", st.test, True))
                for p in b:
                    p.steps.append(("guard", st.test, False))
                a = run(st.body, a)
                b = run(st.orelse, b)
                paths = done + a + b
            elif isinstance(st, ast.Return):
                for p in live:
                    p.end = ("return", st.value)
                paths = done + live
            elif isinstance(st, ast.Raise):
                for p in live:
                    p.end = ("raise", st.exc)
                paths = done + live
            elif isinstance(st, (ast.For, ast.While, ast.Try, ast.With, ast.AsyncFor, ast.AsyncWith)):
                raise ValueError(f"path enumeration does not support {type(st).__name__}")
            else:
                for p in live:
                    p.steps.append(("stmt", st))
                paths = done + live
            if len(paths) > limit:
                raise ValueError("too many paths")
        return paths

    out = run(stmts, [Path()])
    for p in out:
        if p.end is None:
            p.end = ("fall", None)
    return out


def strand_of_test(test) -> Optional[Tuple[str, str]]:
    """recognise `<x> == Strand.PLUS`, `<x> is Strand.MINUS`, reversed operands; returns (subject, member)"""
    if isinstance(test, ast.Compare) and len(test.ops) == 1 and isinstance(test.ops[0], (ast.Eq, ast.Is)):
        l, r = test.left, test.comparators[0]
        ld, rd = dotted(l), dotted(r)
        if rd and rd.startswith("Strand.") and ld:
            return ld, rd.split(".", 1)[1]
        if ld and ld.startswith("Strand.") and rd:
            return rd, ld.split(".", 1)[1]
    return None
