"""Obligations, findings, known-findings handling, evidence files, exit codes."""
import ast
import json
import os
import re
import time

VERIF_DIR = os.path.dirname(os.path.dirname(os.path.abspath(__file__)))
KNOWN_FILE = os.path.join(VERIF_DIR, "known_findings.txt")


def norm(text: str) -> str:
    return re.sub(r"\s+", " ", text.strip())


class Finding:
    def __init__(self, rule, construct, subject, message, file, line):
        self.rule = rule
        self.construct = construct
        self.subject = norm(subject)
        self.message = message
        self.file = file
        self.line = line

    @property
    def key(self):
        return (self.rule, self.construct, self.subject)

    def as_dict(self):
        return dict(rule=self.rule, construct=self.construct, subject=self.subject, message=self.message,
                    file=self.file, line=self.line)


def load_known(path=KNOWN_FILE):
    """known: property=C18 rule=C18.R1 construct=<qual> subject=<text up to ' :: '> :: description"""
    known, fixed = [], []
    if not os.path.exists(path):
        return known, fixed
    for raw in open(path, encoding="utf-8"):
        line = raw.strip()
        if not line or line.startswith("#"):
            continue
        if line.startswith("fixed:"):
            fixed.append(line)
            continue
        if not line.startswith("known:"):
            continue
        head, _, desc = line[len("known:"):].partition(" :: ")
        m = re.match(r"\s*property=(\S+)\s+rule=(\S+)\s+construct=(\S+)\s+subject=(.*)$", head)
        if not m:
            continue
        known.append(dict(property=m.group(1), rule=m.group(2), construct=m.group(3), subject=norm(m.group(4)),
                          desc=desc.strip()))
    return known, fixed


class Report:
    def __init__(self, prop, tier, seed, repo_root):
        self.prop = prop
        self.tier = tier
        self.seed = seed
        self.repo_root = repo_root
        self.t0 = time.time()
        self.obligations = []  # dicts
        self.findings = []
        self.undecided = []
        self.errors = []
        self.notes = []
        self.assumptions = []
        self.evaluations = 0
        self.explanation = ""
        self.rules_run = []
        self.floors = []
        self.selfcheck = []
        self.exhaustive = None
        self.soft_rules = set()

    # -- helpers -------------------------------------------------------------------
    @staticmethod
    def _loc(where):
        """where: Func/Class (have .file/.line), (file, node), (file, line) or None"""
        if where is None:
            return "?", 0
        if hasattr(where, "file") and hasattr(where, "line"):
            return where.file, where.line
        if isinstance(where, tuple):
            f, n = where
            if hasattr(f, "file"):
                f = f.file
            if isinstance(n, ast.AST):
                n = getattr(n, "lineno", 0)
            return f, n
        return "?", 0

    def ok(self, rule, construct, subject, where=None, detail=""):
        f, l = self._loc(where)
        self.obligations.append(dict(rule=rule, construct=construct, subject=norm(subject), verdict="ok", file=f,
                                     line=l, detail=detail))
        self.evaluations += 1

    def soften(self, rule):
        """declare `rule` a strengthening rule: it can only ADD an all-inputs argument on top of an interpreted rule that
        decides the same construct.  Where it does not recognise the source form, or reads something else than expected,
        nothing is claimed and a note is written - it never alarms and never fails the run (a behaviour-preserving
        rewrite must stay silent; the interpreted rule reports real deviations)."""
        self.soft_rules.add(rule)

    def violation(self, rule, construct, subject, message, where=None):
        if rule in self.soft_rules:
            f, l = self._loc(where)
            self.note(f"{rule} (strengthening not claimed) {f}:{l} {construct} [{norm(subject)}]: {message}")
            return
        f, l = self._loc(where)
        fd = Finding(rule, construct, subject, message, f, l)
        # duplicates (same key) collapse
        if any(x.key == fd.key for x in self.findings):
            return
        self.findings.append(fd)
        self.obligations.append(dict(rule=rule, construct=construct, subject=norm(subject), verdict="violation",
                                     file=f, line=l, detail=message))
        self.evaluations += 1

    def check(self, cond, rule, construct, subject, message, where=None, detail=""):
        if cond:
            self.ok(rule, construct, subject, where, detail)
        else:
            self.violation(rule, construct, subject, message, where)
        return cond

    def undecide(self, rule, construct, subject, why, where=None):
        if rule in self.soft_rules:
            f, l = self._loc(where)
            self.note(f"{rule} (strengthening not claimed) {f}:{l} {construct} [{norm(subject)}]: {why}")
            return
        f, l = self._loc(where)
        self.undecided.append(dict(rule=rule, construct=construct, subject=norm(subject), why=why, file=f, line=l))
        self.obligations.append(dict(rule=rule, construct=construct, subject=norm(subject), verdict="undecided",
                                     file=f, line=l, detail=why))

    def error(self, msg):
        self.errors.append(msg)

    def note(self, msg):
        self.notes.append(msg)

    def assume(self, msg):
        if msg not in self.assumptions:
            self.assumptions.append(msg)

    def count(self, n=1):
        self.evaluations += n

    def floor(self, rule, what, found, minimum):
        self.floors.append(dict(rule=rule, what=what, found=found, minimum=minimum))
        if found < minimum:
            if rule in self.soft_rules:
                self.note(f"{rule} (strengthening not claimed): only {found} {what} recognised (< {minimum})")
            else:
                self.error(f"{rule}: instance floor not met for {what}: found {found} < {minimum}")

    # -- finish --------------------------------------------------------------------
    def finish(self, evidence_dir):
        known, fixed = load_known()
        known = [k for k in known if k["property"] == self.prop]
        new, kn = [], []
        for fd in self.findings:
            hit = None
            for k in known:
                if k["rule"] == fd.rule and k["construct"] == fd.construct and k["subject"] == fd.subject:
                    hit = k
                    break
            if hit:
                kn.append((fd, hit))
            else:
                new.append(fd)
        os.makedirs(os.path.join(evidence_dir, "replay"), exist_ok=True)
        lines = []
        for fd, k in kn:
            lines.append(f"KNOWN-FINDING: property={self.prop} rule={fd.rule} construct={fd.construct} "
                         f"subject={fd.subject} :: {k['desc']}")
        for i, fd in enumerate(new):
            rp = os.path.join(evidence_dir, "replay", f"{self.prop}-{i}.json")
            with open(rp, "w") as fh:
                json.dump(dict(property=self.prop, tier=self.tier, **fd.as_dict()), fh, indent=1)
            lines.append(f"{fd.file}:{fd.line}  {fd.rule}  {fd.construct}  [{fd.subject}]  {fd.message}")
            lines.append(f"VIOLATION property={self.prop} replay={rp}")
        for u in self.undecided:
            lines.append(f"UNDECIDED {u['file']}:{u['line']} {u['rule']} {u['construct']} [{u['subject']}] {u['why']}")
        for e in self.errors:
            lines.append(f"ANALYSIS-ERROR property={self.prop} {e}")
        n_ob = len(self.obligations)
        n_ok = sum(1 for o in self.obligations if o["verdict"] == "ok")
        distinct = len({(o["rule"], o["construct"], o["subject"]) for o in self.obligations})
        samples = []
        seen_rules = set()
        for o in self.obligations:
            if o["rule"] not in seen_rules or o["verdict"] != "ok":
                seen_rules.add(o["rule"])
                samples.append({k: o[k] for k in ("rule", "construct", "subject", "verdict", "file", "line", "detail")})
            if len(samples) >= 40:
                break
        if not samples:
            samples = [dict(note="no obligations were generated")]
        cov = dict(
            explanation=self.explanation or "static rules over the AST of /repo/inscripta",
            obligations=n_ob,
            discharged=n_ok,
            undecided=len(self.undecided),
            evaluations=max(self.evaluations, n_ob),
            distinct_nontrivial=distinct,
            rule="one obligation per (rule, construct, subject); distinct = distinct such triples with a "
                 "non-vacuous subject found in the analysed source; evaluations additionally counts abstract "
                 "states enumerated (order types, table rows, paths)",
            samples=samples,
            rules_run=self.rules_run,
            floors=self.floors,
            known_findings=[fd.as_dict() for fd, _ in kn],
            notes=self.notes[:60],
            analysed_root=self.repo_root,
        )
        if self.exhaustive is not None:
            cov["exhaustive"] = self.exhaustive
        if self.selfcheck:
            cov["self_validation"] = self.selfcheck
        ev = dict(
            property_id=self.prop,
            tier=self.tier,
            seed=self.seed,
            level="other",
            coverage=cov,
            assumptions=self.assumptions or ["CPython ast module parses the source as the interpreter would"],
            wall_s=round(time.time() - self.t0, 3),
            violations=len(new),
        )
        with open(os.path.join(evidence_dir, f"{self.prop}.json"), "w") as fh:
            json.dump(ev, fh, indent=1, default=str)
        if new:
            code = 1
        elif self.errors or self.undecided:
            code = 2
        else:
            code = 0
        summary = (f"{self.prop} [{self.tier}] obligations={n_ob} ok={n_ok} violations={len(new)} "
                   f"known={len(kn)} undecided={len(self.undecided)} errors={len(self.errors)} "
                   f"evaluations={cov['evaluations']} wall={ev['wall_s']}s")
        return code, lines, summary
