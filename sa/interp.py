"""E3 - a small abstract interpreter for the statement/expression subset used by BioCantor's kernels.

It evaluates *the analyser's reading of the AST* on abstract values: enum members, small integers standing for
the ranks of an order type, records for objects.  It is only used where a finite abstract domain is enumerated
completely (order types of comparison-only kernels, enum algebras, residues mod 3); the syntactic side-condition
checks that justify the finiteness live in the rules (see `comparison_only`).  No repository code is imported
or executed by Python: method bodies are walked by this module.
"""
import ast
import re as _re
import itertools
import sys
from typing import Any, Dict, List, Optional

from .astutil import dotted, src, walk_shallow
from .model import AnalysisError, Repo, Func, Class


sys.setrecursionlimit(max(sys.getrecursionlimit(), 30000))

# development aid (tools/coverage_map.sh): when VERIF_COV names a directory, every repository statement the
# evaluator executes is recorded as (module, line) so that blind spots of the rule set can be listed.  Off by default.
import os as _os
COV_DIR = _os.environ.get("VERIF_COV")
COV = set() if COV_DIR else None
_COV_FLUSHED = set()
DIRECT = set()  # functions asked directly by rule code (call depth 0): the property's own question surface
_DIRECT_FLUSHED = set()


def cov_flush():
    if COV is None:
        return
    new = COV - _COV_FLUSHED
    if new:
        with open(_os.path.join(COV_DIR, f"{_os.getpid()}.cov"), "a") as fh:
            for m, l in new:
                fh.write(f"{m}\t{l}\n")
        _COV_FLUSHED.update(new)
    newd = DIRECT - _DIRECT_FLUSHED
    if newd:
        with open(_os.path.join(COV_DIR, f"{_os.getpid()}.direct"), "a") as fh:
            for q in newd:
                fh.write(q + "\n")
        _DIRECT_FLUSHED.update(newd)


class Uninterpretable(AnalysisError):
    pass


class Raised(Exception):
    """abstract exception raised by interpreted code"""

    def __init__(self, exc_name, detail=""):
        super().__init__(exc_name)
        self.exc_name = exc_name
        self.detail = detail


class _Return(Exception):
    def __init__(self, value):
        self.value = value


class _Break(Exception):
    pass


class _Continue(Exception):
    pass


class EnumVal:
    __slots__ = ("cls", "name", "value")

    def __init__(self, cls, name, value):
        self.cls = cls
        self.name = name
        self.value = value

    def __eq__(self, o):
        return isinstance(o, EnumVal) and o.cls == self.cls and o.name == self.name

    def __hash__(self):
        return hash((self.cls, self.name))

    def __repr__(self):
        return f"{self.cls}.{self.name}"


class ClassTok:
    """value of `type(x)` / a bare class name"""
    __slots__ = ("name",)

    def __init__(self, name):
        self.name = name

    def __eq__(self, o):
        return isinstance(o, ClassTok) and o.name == self.name

    def __hash__(self):
        return hash(("cls", self.name))

    def __repr__(self):
        return f"<class {self.name}>"


class Obj:
    """record for an instance of a repo class (fields are set by a hook or by interpreting __init__)"""

    _it = None  # the evaluator that is running (set on every interpreted call)

    def __init__(self, cls_name, **fields):
        self.cls_name = cls_name
        self.fields = dict(fields)

    def __repr__(self):
        inner = ", ".join(f"{k}={v!r}" for k, v in self.fields.items())
        return f"{self.cls_name}({inner})"

    # Native containers holding records (dict keys, `in`, list.index, dict.fromkeys, tuple comparison ...) must see the
    # equality the repository class defines, as they would in Python: `==` is the interpreted `__eq__`; the hash is constant
    # per class when the class defines `__eq__` (correct, if slow), identity otherwise; a class that defines `__eq__`
    # without `__hash__` is unhashable, as in Python.
    def __eq__(self, o):
        if self is o:
            return True
        it = Obj._it
        if it is None:
            return False
        m = it.method(self, "__eq__")
        if m is None:
            return False
        return bool(it.call_func(m, [o], {}, self, 1))

    def __ne__(self, o):
        return not self.__eq__(o)

    def __iter__(self):
        # native library code (itertools, sorted, ...) walking a record of a class that defines __iter__ / a NamedTuple
        it = Obj._it
        if it is None or not (self.fields.get("__namedtuple__") or it.method(self, "__iter__") is not None):
            raise TypeError(f"'{self.cls_name}' object is not iterable")
        return iter(it.iterate(self))

    def __hash__(self):
        it = Obj._it
        if it is None:
            return id(self) >> 4
        st = it.hash_status(self.cls_name)
        if st == "identity":
            return id(self) >> 4
        if st == "unhashable":
            raise TypeError(f"unhashable type: '{self.cls_name}'")
        return hash(("Obj", st))


class SetVal(list):
    """a Python set as modelled by the interpreter: insertion-ordered list with set semantics (mutable, aliasable).
    `hs` indexes the hashable primitive members (int / str / None / bool / UUID) for fast membership.
    `reverse_iteration` (class-wide switch, see `other_hash_seed`): iterate every set backwards - another, equally legitimate,
    iteration order, as another PYTHONHASHSEED would give; anything that must not depend on the hash seed must come out the same."""
    frozen = False
    reverse_iteration = False

    def __init__(self, items=()):
        super().__init__(items)
        self.hs = set(x for x in self if _prim(x))

    def __reduce__(self):
        return (SetVal, (list(self),))

    def has_prim(self, x):
        return x in self.hs

    def push(self, x):
        list.append(self, x)
        if _prim(x):
            self.hs.add(x)

    def drop_at(self, i):
        x = self[i]
        list.__delitem__(self, i)
        if _prim(x):
            self.hs.discard(x)


def _prim(x):
    return x is None or (isinstance(x, (int, str, bool, float)) or type(x).__module__ == "uuid")


class FakeModule:
    """a checker-provided stand-in for a stdlib module whose state matters (e.g. random)"""


class CGRangesModel:
    """native model of a cgranges.cgranges() index as the library uses it: add(contig, start, end, label), index(),
    overlap(contig, start, end) -> (start, end, label) of every stored half-open interval sharing a base with the query,
    in ascending order of start"""
    _interp_native_ = True

    def __init__(self):
        self.iv = []
        self.indexed = False

    def add(self, ctg, st, en, label):
        self.iv.append((ctg, st, en, label))
        self.indexed = False

    def index(self):
        self.iv.sort(key=lambda x: (x[0], x[1], x[2]))
        self.indexed = True

    def overlap(self, ctg, st, en):
        if not self.indexed:
            raise Uninterpretable("cgranges.overlap before index()")
        return [(a, b, lab) for c, a, b, lab in self.iv if c == ctg and a < en and st < b]


class CGRangesModule(FakeModule):
    """stand-in for the optional `cgranges` package (with_cgranges(interp) switches the library onto that path)"""
    _interp_native_ = True

    def cgranges(self):
        return CGRangesModel()


def with_cgranges(interp):
    """the same interpreter configuration, following the library's HAS_CGRANGES branches through the native model"""
    interp.overrides["HAS_CGRANGES"] = True
    interp.overrides["cgranges"] = CGRangesModule()
    return interp


class ChainEnv(dict):
    """local variables of a nested function: reads fall back to the enclosing function's environment (by reference, so later
    updates are seen, as with Python's cell variables); names declared `nonlocal` are written to the enclosing environment"""

    def __init__(self, parent, nonlocals=()):
        super().__init__()
        self.parent = parent
        self.nonlocals = set(nonlocals)

    def __contains__(self, k):
        return dict.__contains__(self, k) or k in self.parent

    def __getitem__(self, k):
        if dict.__contains__(self, k):
            return dict.__getitem__(self, k)
        return self.parent[k]

    def get(self, k, default=None):
        if dict.__contains__(self, k):
            return dict.__getitem__(self, k)
        return self.parent.get(k, default)

    def __setitem__(self, k, v):
        if k in self.nonlocals and not dict.__contains__(self, k):
            self.parent[k] = v
        else:
            dict.__setitem__(self, k, v)

    def keys(self):
        return list(dict.fromkeys(list(self.parent.keys()) + list(dict.keys(self))))

    def __iter__(self):
        return iter(self.keys())

    def items(self):
        return [(k, self[k]) for k in self.keys()]


class DDict(dict):
    """collections.defaultdict as modelled by the interpreter (factory is an interpreter callable)"""
    factory = None


class HashOrdered(list):
    """a list whose element order was taken from iterating a set with two or more hash-randomised members (list(a_set),
    [.. for x in a_set]): its order - hence its str() - differs between interpreter runs until it is sorted"""
    settled = False


class Opaque:
    """a value the interpreter does not model (strings built by formatting, external objects)"""

    def __init__(self, what="?"):
        self.what = what

    def __repr__(self):
        return f"<opaque {self.what}>"


_LOCALS_CACHE = {}


def _assigned_locally(func, name):
    """is `name` bound somewhere in the body of func (assignment, loop target, with/except alias, parameter excluded)?"""
    key = id(func.node)
    if key not in _LOCALS_CACHE:
        names = set()
        for node in walk_shallow(func.node):
            if isinstance(node, ast.Name) and isinstance(node.ctx, ast.Store):
                names.add(node.id)
            elif isinstance(node, ast.ExceptHandler) and node.name:
                names.add(node.name)
        _LOCALS_CACHE[key] = names
    return name in _LOCALS_CACHE[key]


def _warn_noop(*a, **k):
    """warnings.warn: issuing a warning has no effect on any value (whatever the warning object is)"""
    return None


BUILTIN_EXC = {"ValueError", "TypeError", "KeyError", "IndexError", "AttributeError", "NotImplementedError",
               "RuntimeError", "StopIteration", "Exception", "AssertionError", "ZeroDivisionError", "RecursionError", "OverflowError",
               "Warning", "UserWarning", "DeprecationWarning", "FutureWarning", "RuntimeWarning"}


class Interp:
    def __init__(self, repo: Repo, hooks=None, max_depth=80, max_steps=200000):
        self.repo = repo
        self.hooks = hooks or {}
        self.max_depth = max_depth
        self.max_steps = max_steps
        self.steps = 0
        self.enum_cache: Dict[str, Dict[str, EnumVal]] = {}
        self.dynamic_enums: Dict[str, str] = {}
        self.overrides: Dict[str, Any] = {"HAS_CGRANGES": False}
        self.trace_calls: List[str] = []
        self._statics: Dict[int, Any] = {}
        self._hash_status: Dict[str, str] = {}
        Obj._it = self

    # ---- enums --------------------------------------------------------------------
    def enum(self, cls_name) -> Dict[str, EnumVal]:
        if cls_name not in self.enum_cache and not self.repo.has_cls(cls_name):
            # a functional-API enum bound to a module-level name (Biotype = HasMemberMixin(value="Biotype", ...))
            for m in self.repo.modules.values():
                if cls_name in m.assigns and isinstance(m.assigns[cls_name], ast.Call):
                    self.eval(m.assigns[cls_name], {}, Func("<module>", ast.parse("def f(): pass").body[0], m), 0)
                    break
        if cls_name not in self.enum_cache:
            c = self.repo.cls(cls_name)
            members = {}
            for n, v in self.repo.enum_members(c):
                try:
                    val = ast.literal_eval(v)
                except Exception:
                    continue
                members[n] = EnumVal(cls_name, n, val)
            self.enum_cache[cls_name] = members
        return self.enum_cache[cls_name]

    def is_enum_class(self, name) -> bool:
        if name in self.dynamic_enums:
            return True
        if not self.repo.has_cls(name):
            return False
        c = self.repo.cls(name)
        return any(b.split(".")[-1] in ("Enum", "IntEnum", "HasMemberMixin") or b.endswith("Enum") for b in c.bases)

    def enum_by_value(self, cls_name, value):
        if isinstance(value, EnumVal):
            if value.cls == cls_name:
                return value  # EnumClass(member) is the member
            if self._is_intenum(value) or self._is_strenum(value):
                value = value.value
        for m in self.enum(cls_name).values():
            if m.value == value:
                return m
        raise Raised("ValueError", f"{value} is not a valid {cls_name}")

    # ---- exception hierarchy --------------------------------------------------------
    def _exc_names(self, node, env):
        """class names an `except <node>` clause catches; a name bound to a class / tuple of classes is followed"""
        if isinstance(node, ast.Tuple):
            out = []
            for x in node.elts:
                out.extend(self._exc_names(x, env))
            return out
        if isinstance(node, ast.Name) and node.id in env:
            v = env[node.id]
            if isinstance(v, ClassTok):
                return [v.name.split(".")[-1].split(":")[-1]]
            if isinstance(v, tuple) and len(v) == 2 and v[0] == "builtin":
                return [v[1]]
            if isinstance(v, (tuple, list)):
                return [x.name.split(".")[-1].split(":")[-1] if isinstance(x, ClassTok) else
                        x[1] if isinstance(x, tuple) and len(x) == 2 and x[0] == "builtin" else str(x) for x in v]
        return [(dotted(node) or "").split(".")[-1]]

    def exc_matches(self, raised: str, handler: str) -> bool:
        if handler in ("Exception", "BaseException") or raised == handler:
            return True
        if self.repo.has_cls(raised):
            for k in self.repo.mro(self.repo.cls(raised)):
                if k.name == handler:
                    return True
                for b in k.bases:
                    if b.split(".")[-1] == handler:
                        return True
        return False

    # ---- calling --------------------------------------------------------------------
    def hash_status(self, cls_name):
        """'identity' (no repo class in the MRO defines __eq__), 'unhashable' (the class that defines __eq__ does not
        define __hash__), or the name of the class whose __eq__ applies (constant hash per equality family)"""
        c = self._hash_status.get(cls_name)
        if c is not None:
            return c
        res = "identity"
        try:
            cls = self.repo.cls(cls_name)
            for k in self.repo.mro(cls):
                if "__eq__" in k.methods:
                    res = k.name if "__hash__" in k.methods else "unhashable"
                    break
                if "__hash__" in k.methods:
                    break
        except Exception:
            res = "identity"
        self._hash_status[cls_name] = res
        return res

    def _class_scope(self, c, name, func):
        """the scope a class-level value is evaluated in: the module (and class) that defines it, not the caller's"""
        for k in self.repo.mro(c):
            if name in k.attrs:
                cache = self.__dict__.setdefault("_class_scopes", {})
                sc = cache.get(id(k))
                if sc is None:
                    sc = cache[id(k)] = Func("<cls>", ast.parse("def f(): pass").body[0], k.module, k)
                return sc
        return func

    # ---- decorators ---------------------------------------------------------------------
    _TRANSPARENT_DECORATORS = {"property", "setter", "getter", "deleter", "staticmethod", "classmethod", "abstractmethod", "cached_property",
                               "cache", "lru_cache", "wraps", "dataclass", "total_ordering", "overload", "final", "register"}

    def _decorator_kinds(self, func):
        """per decorator of `func`: 'ignore' (transparent for the value computed: property / staticmethod / caches of pure functions /
        wraps ...), 'dispatch' (functools.singledispatch) or 'user' (anything else: applied as Python does)"""
        kinds = getattr(func, "_deco_kinds", None)
        if kinds is None:
            kinds = []
            for d in func.node.decorator_list:
                base = d.func if isinstance(d, ast.Call) else d
                last = (dotted(base) or ast.unparse(base)).split(".")[-1]
                kinds.append("dispatch" if last in ("singledispatch", "singledispatchmethod") else
                             "ignore" if last in self._TRANSPARENT_DECORATORS else "user")
            func._deco_kinds = kinds
        return kinds

    @staticmethod
    def _type_names(v):
        """class names along the method resolution order of a value, for functools.singledispatch"""
        if isinstance(v, bool):
            return ["bool", "int", "Integral", "Number", "Hashable", "object"]
        if isinstance(v, int):
            return ["int", "Integral", "Number", "Hashable", "object"]
        if isinstance(v, float):
            return ["float", "Real", "Number", "Hashable", "object"]
        if isinstance(v, str):
            return ["str", "Sequence", "Collection", "Iterable", "Hashable", "object"]
        if isinstance(v, SetVal):
            return ["frozenset" if v.frozen else "set", "Set", "AbstractSet", "MutableSet", "Collection", "Iterable", "object"]
        if isinstance(v, list):
            return ["list", "List", "MutableSequence", "Sequence", "Collection", "Iterable", "object"]
        if isinstance(v, tuple):
            return ["tuple", "Tuple", "Sequence", "Collection", "Iterable", "Hashable", "object"]
        if isinstance(v, dict):
            return ["dict", "Dict", "MutableMapping", "Mapping", "Collection", "Iterable", "object"]
        if v is None:
            return ["NoneType", "None", "object"]
        if isinstance(v, _Gen):
            return ["generator", "Iterator", "Iterable", "object"]
        return [type(v).__name__, "Hashable", "object"]

    def _dispatch_target(self, func, args):
        reg = getattr(func, "_sd_registry", None)
        if reg is None:
            reg = {}
            body = func.cls.node.body if func.cls is not None and hasattr(func.cls, "node") else func.module.tree.body
            for st in body:
                if not isinstance(st, (ast.FunctionDef, ast.AsyncFunctionDef)) or st is func.node:
                    continue
                for d in st.decorator_list:
                    base = d.func if isinstance(d, ast.Call) else d
                    if dotted(base) != f"{func.name}.register":
                        continue
                    impl = Func(st.name, st, func.module, func.cls)
                    if isinstance(d, ast.Call) and d.args:
                        tnames = [ast.unparse(a) for a in d.args]
                    else:
                        ps = st.args.posonlyargs + st.args.args
                        ps = ps[1:] if func.cls is not None and ps else ps
                        ann = ps[0].annotation if ps else None
                        if ann is None:
                            raise Uninterpretable(f"singledispatch registration of {st.name} without a type")
                        tnames = [ast.unparse(x) for x in (ann.slice.elts if isinstance(ann, ast.Subscript) and dotted(ann.value) in ("Union", "typing.Union") and isinstance(ann.slice, ast.Tuple) else [ann])]
                    for tn in tnames:
                        reg[tn.split(".")[-1].split("[")[0]] = impl
            func._sd_registry = reg
        if not args:
            raise Raised("TypeError", "singledispatch function requires at least 1 positional argument")
        v = args[0]
        if isinstance(v, Obj) and self.repo.has_cls(v.cls_name):
            names = [k.name for k in self.repo.mro(self.repo.cls(v.cls_name))] + ["object"]
        elif isinstance(v, EnumVal) and self.repo.has_cls(v.cls):
            c = self.repo.cls(v.cls)
            names = [k.name for k in self.repo.mro(c)] + [b.split(".")[-1] for b in c.bases] + ["Enum", "object"]
        else:
            names = self._type_names(v)
        for nm_ in names:
            if nm_ in reg:
                return reg[nm_]
        return func

    def _call_decorated(self, func, args, kwargs, self_val, depth):
        cache = self.__dict__.setdefault("_decorated", {})
        hit = cache.get(id(func.node))
        if hit is None or hit[0] is not func.node:
            val = ("rawfn", func)
            shell = Func("<decorators>", ast.parse("def f(): pass").body[0], func.module, func.cls)
            denv = {}
            if func.cls is not None:
                for nm_ in func.cls.attrs:
                    pass
            for d, kind in reversed(list(zip(func.node.decorator_list, self._decorator_kinds(func)))):
                if kind == "user":
                    dv = self.eval(d, denv, shell, depth)
                    val = self.apply(dv, [val], {}, shell, depth)
            hit = cache[id(func.node)] = (func.node, val)
        val = hit[1]
        first = [] if func.cls is None or func.is_static else [self_val]
        return self.apply(val, first + list(args), kwargs, func, depth)

    def call_func(self, func: Func, args: List[Any], kwargs: Dict[str, Any], self_val=None, depth=0, _raw=False):
        Obj._it = self
        if COV is not None and depth == 0:
            DIRECT.add(func.qual)
        if depth > self.max_depth:
            raise Uninterpretable(f"call depth exceeded at {func.qual}")
        if func.qual in self.hooks:
            return self.hooks[func.qual](self, self_val, args, kwargs)
        if func.node.decorator_list and not _raw:
            kinds = self._decorator_kinds(func)
            if "dispatch" in kinds:
                impl = self._dispatch_target(func, args)
                if impl is not func:
                    return self.call_func(impl, args, kwargs, self_val, depth + 1, _raw=True)
            if "user" in kinds:
                return self._call_decorated(func, args, kwargs, self_val, depth)
        env = {}
        params = list(func.pos_params)
        a = func.node.args
        if func.cls is not None and not func.is_static:
            if params:
                if func.is_classmethod:
                    if isinstance(self_val, ClassTok):
                        env[params[0]] = self_val
                    elif isinstance(self_val, Obj):
                        env[params[0]] = ClassTok(self_val.cls_name)
                    elif isinstance(self_val, EnumVal):
                        env[params[0]] = ClassTok(self_val.cls)
                    else:
                        env[params[0]] = ClassTok(func.cls.name)
                else:
                    env[params[0]] = self_val
                params = params[1:]
        if len(args) > len(params) and not a.vararg:
            raise Uninterpretable(f"too many positional arguments for {func.qual}")
        for p, v in zip(params, args):
            env[p] = v
        if a.vararg:
            env[a.vararg.arg] = tuple(args[len(params):])
        known = set(func.pos_params) | {x.arg for x in a.kwonlyargs}
        extra = {}
        for k, v in kwargs.items():
            if a.kwarg and k not in known:
                extra[k] = v
            else:
                env[k] = v
        if a.kwarg:
            env[a.kwarg.arg] = extra
        for p in params + [x.arg for x in a.kwonlyargs]:
            if p not in env:
                d = func.param_default(p)
                if d is None:
                    raise Uninterpretable(f"missing argument {p} for {func.qual}")
                denv = {}
                if func.cls is not None:
                    # a default is evaluated in the class body's scope: names of class-level values defined there are visible
                    for nm_ in {x.id for x in ast.walk(d) if isinstance(x, ast.Name)}:
                        if nm_ in func.cls.attrs:
                            denv[nm_] = self.static_value(func.cls.attrs[nm_], func, depth)
                env[p] = self.eval(d, denv, func, depth)
        self.trace_calls.append(func.qual)
        is_gen = getattr(func, "_is_gen", None)
        if is_gen is None:
            is_gen = func._is_gen = any(isinstance(x, (ast.Yield, ast.YieldFrom)) for st in func.node.body
                                        if not isinstance(st, (ast.FunctionDef, ast.AsyncFunctionDef, ast.ClassDef))
                                        for x in walk_shallow(st))
        if is_gen and _is_endless_generator(func):
            # `while True: ... yield ...` - consumed with next(): stepped on demand (see _SteppedGen)
            def body(sink, env=env):
                env["__yields__"] = sink
                try:
                    self.exec_block(func.body_without_docstring(), env, func, depth)
                except _Return:
                    pass
            return _SteppedGen(body)
        if is_gen:
            env["__yields__"] = []
        try:
            self.exec_block(func.body_without_docstring(), env, func, depth)
        except _Return as r:
            return _Gen(env["__yields__"]) if is_gen else r.value
        return _Gen(env["__yields__"]) if is_gen else None

    def method(self, obj, name, depth=0):
        cls_name = obj.cls_name if isinstance(obj, Obj) else obj.cls if isinstance(obj, EnumVal) else None
        if cls_name is None or not self.repo.has_cls(cls_name):
            return None
        c = self.repo.cls(cls_name)
        m = self.repo.lookup_method(c, name)
        if m is not None and m.cls is not None:
            # a class-level value of the same name in a more derived class (`name = property(getter)`) shadows an inherited def
            for k in self.repo.mro(c):
                if k is m.cls:
                    break
                if name in k.attrs:
                    return None
        return m

    def getattr(self, obj, name, func, depth):
        if isinstance(obj, EnumVal):
            if name == "__class__":
                return ClassTok(obj.cls)
            if name == "value":
                return obj.value
            if name == "name":
                return obj.name
            m = self.method(obj, name)
            if m is not None and m.is_property:
                return self.call_func(m, [], {}, obj, depth + 1)
            if m is not None:
                return ("bound", m, obj)
            raise Uninterpretable(f"attribute {name} on enum value {obj}")
        if isinstance(obj, Obj):
            if name == "__class__" and "__class__" not in obj.fields:
                return ClassTok(obj.cls_name)
            if name in obj.fields:
                return obj.fields[name]
            m = self.method(obj, name)
            if m is not None and m.is_property:
                if m.is_cached:
                    memo = obj.__dict__.setdefault("memo", {})
                    if name not in memo:
                        memo[name] = self.call_func(m, [], {}, obj, depth + 1)
                    return memo[name]
                return self.call_func(m, [], {}, obj, depth + 1)
            if m is not None:
                return ("bound", m, obj)
            if obj.fields.get("__dataclass_fields__") is not None and name in ("_replace", "_asdict", "_fields"):
                if name == "_fields":
                    return tuple(obj.fields["__dataclass_fields__"])
                return ("recordfn", name, obj)
            if self.repo.has_cls(obj.cls_name):
                v = self.repo.lookup_attr(self.repo.cls(obj.cls_name), name)
                if v is not None:
                    val = self.static_value(v, self._class_scope(self.repo.cls(obj.cls_name), name, func), depth)
                    if isinstance(val, tuple) and len(val) == 2 and val[0] == "property":
                        # `name = property(getter)` in the class body
                        return self.apply(val[1], [obj], {}, func, depth)
                    return val
            raise Raised("AttributeError", f"{obj.cls_name}.{name}")
        if isinstance(obj, ClassTok):
            if self.is_enum_class(obj.name):
                mem = self.enum(obj.name)
                if name in mem:
                    return mem[name]
            if name == "__name__":
                return obj.name
            if name == "__getitem__" and self.is_enum_class(obj.name):
                def by_name(key, _cls=obj.name):
                    mem = self.enum(_cls)
                    if key not in mem:
                        raise Raised("KeyError", repr(key))
                    return mem[key]
                return ("native", by_name)
            if name == "__wrapped__":
                return obj
            if name == "_value2member_map_" and self.is_enum_class(obj.name):
                return {m.value: m for m in self.enum(obj.name).values()}
            if name in ("__members__", "_member_map_") and self.is_enum_class(obj.name):
                return dict(self.enum(obj.name))
            if name == "_member_names_" and self.is_enum_class(obj.name):
                # canonical names only: an alias (a second name for an existing value) is in __members__ but not here
                return [k for k, m in self.enum(obj.name).items() if m.name == k]
            if obj.name in self.dynamic_enums:
                base = self.repo.cls(self.dynamic_enums[obj.name])
                m = self.repo.lookup_method(base, name)
                if m is not None:
                    return ("bound", m, None if m.is_static else obj)
            if self.repo.has_cls(obj.name):
                c = self.repo.cls(obj.name)
                m = self.repo.lookup_method(c, name)
                if m is not None:
                    return ("bound", m, None if m.is_static else obj)
                v = self.repo.lookup_attr(c, name)
                if v is not None:
                    return self.static_value(v, self._class_scope(c, name, func), depth)
            raise Uninterpretable(f"class attribute {obj.name}.{name}")
        if obj is None:
            raise Raised("AttributeError", f"NoneType.{name}")
        if isinstance(obj, Opaque):
            return Opaque(f"{obj.what}.{name}")
        if isinstance(obj, tuple) and len(obj) == 2 and obj[0] == "builtin" and obj[1] in ("set", "frozenset"):
            return ("setfn", name)
        if isinstance(obj, tuple) and len(obj) == 2 and obj[0] == "repomodule":
            m2 = self.repo.modules[obj[1]]
            if name in m2.funcs:
                return ("bound", m2.funcs[name], None)
            if name in m2.classes:
                return ClassTok(name)
            if name in m2.assigns:
                return self.static_value(m2.assigns[name], Func("<mod>", ast.parse("def f(): pass").body[0], m2), depth)
            if name in m2.imports:
                res = self.resolve_import(m2, name, func, depth, 0)
                if res is not None:
                    return res
            if obj[1] + "." + name in self.repo.modules:
                return ("repomodule", obj[1] + "." + name)
            raise Raised("AttributeError", f"module {obj[1]} has no attribute {name}")
        if isinstance(obj, tuple) and len(obj) == 2 and obj[0] == "native" and hasattr(obj[1], name):
            return ("native", getattr(obj[1], name))
        if isinstance(obj, tuple) and len(obj) == 2 and obj == ("builtin", "chain") and name == "from_iterable":
            return ("builtin", "chain_from_iterable")
        if isinstance(obj, tuple) and len(obj) == 2 and obj[0] == "builtin" and obj[1] in ("str", "dict", "list"):
            return ("native", getattr({"str": str, "dict": dict, "list": list}[obj[1]], name))
        if isinstance(obj, FakeModule):
            return ("native", getattr(obj, name))
        if getattr(type(obj), "_interp_native_", False):
            val = getattr(obj, name)
            return ("native", val) if callable(val) else val
        if isinstance(obj, tuple) and len(obj) == 2 and obj == ("pymodule", "itertools") and name == "groupby":
            return ("builtin", "groupby")
        if isinstance(obj, tuple) and len(obj) == 2 and obj == ("pymodule", "operator") and name in ("attrgetter", "itemgetter", "methodcaller"):
            return ("builtin", name)
        if isinstance(obj, tuple) and len(obj) == 2 and obj == ("pymodule", "itertools") and name in ("islice", "chain", "count", "zip_longest", "repeat"):
            return ("builtin", name)
        if isinstance(obj, tuple) and len(obj) == 2 and obj == ("pymodule", "functools") and name in ("reduce", "partial"):
            return ("builtin", name)
        if isinstance(obj, tuple) and len(obj) == 2 and obj[0] == "pymodule":
            if obj[1] == "warnings":
                return ("native", _warn_noop)
            import importlib
            val = getattr(importlib.import_module(obj[1]), name)
            return ("native", val) if callable(val) else val
        if isinstance(obj, SetVal):
            return ("pymethod", obj, name)
        if isinstance(obj, (list, tuple, dict, set, str, bytes, int)) and hasattr(obj, name):
            return ("pymethod", obj, name)
        import re as _re
        if type(obj).__module__ in ("uuid", "_hashlib", "hashlib", "_md5", "logging", "collections") and hasattr(obj, name):
            v = getattr(obj, name)
            return ("pymethod", obj, name) if callable(v) else v
        if isinstance(obj, (_re.Match, _re.Pattern)) and hasattr(obj, name):
            v = getattr(obj, name)
            return ("pymethod", obj, name) if callable(v) else v
        if isinstance(obj, slice) and name in ("start", "stop", "step"):
            return getattr(obj, name)
        if isinstance(obj, slice) and name == "indices":
            return ("pymethod", obj, name)
        if isinstance(obj, _Gen) and name == "__next__":
            return ("pymethod", obj, name)
        if type(obj) in (list, dict, str, bytes, int, float, bool):
            # plain values of fully modelled built-in types: a name they do not have is Python's AttributeError
            raise Raised("AttributeError", f"'{type(obj).__name__}' object has no attribute '{name}'")
        raise Uninterpretable(f"attribute {name} on {type(obj).__name__}")

    # ---- statements -------------------------------------------------------------------
    def exec_block(self, stmts, env, func, depth):
        for st in stmts:
            self.exec_stmt(st, env, func, depth)

    def tick(self):
        self.steps += 1
        if self.steps > self.max_steps:
            raise Uninterpretable("step budget exceeded")

    def assign(self, target, value, env, func, depth):
        if isinstance(target, ast.Name):
            env[target.id] = value
        elif isinstance(target, (ast.Tuple, ast.List)):
            vals = list(self.iterate(value)) if not isinstance(value, (list, tuple)) else list(value)
            stars = [i for i, t in enumerate(target.elts) if isinstance(t, ast.Starred)]
            if stars:
                i = stars[0]
                after = len(target.elts) - i - 1
                if len(vals) < len(target.elts) - 1:
                    raise Raised("ValueError", "unpack")
                for t, v in zip(target.elts[:i], vals[:i]):
                    self.assign(t, v, env, func, depth)
                self.assign(target.elts[i].value, vals[i:len(vals) - after], env, func, depth)
                for t, v in zip(target.elts[i + 1:], vals[len(vals) - after:]):
                    self.assign(t, v, env, func, depth)
                return
            if len(vals) != len(target.elts):
                raise Raised("ValueError", "unpack")
            for t, v in zip(target.elts, vals):
                self.assign(t, v, env, func, depth)
        elif isinstance(target, ast.Attribute):
            o = self.eval(target.value, env, func, depth)
            if isinstance(o, Obj):
                o.fields[target.attr] = value
            else:
                raise Uninterpretable(f"attribute store on {type(o).__name__}")
        elif isinstance(target, ast.Subscript):
            o = self.eval(target.value, env, func, depth)
            k = self.eval(target.slice, env, func, depth)
            if isinstance(o, (list, dict)):
                o[k] = value
            else:
                raise Uninterpretable("subscript store")
        else:
            raise Uninterpretable(f"assignment target {type(target).__name__}")

    def exec_stmt(self, st, env, func, depth):
        self.steps += 1
        if COV is not None:
            COV.add((func.module.name if func is not None and getattr(func, "module", None) is not None else "?", st.lineno))
        if self.steps > self.max_steps:
            raise Uninterpretable("step budget exceeded")
        t = type(st)
        if t is ast.Expr:
            self.eval(st.value, env, func, depth)
        elif t is ast.Assign:
            v = self.eval(st.value, env, func, depth)
            for t in st.targets:
                self.assign(t, v, env, func, depth)
        elif t is ast.AnnAssign:
            if st.value is not None:
                self.assign(st.target, self.eval(st.value, env, func, depth), env, func, depth)
        elif t is ast.AugAssign:
            cur = self.eval(st.target, env, func, depth)
            v = self.eval(st.value, env, func, depth)
            # in-place operators of mutable containers mutate the object every alias sees (list +=, set |= &= -= ^=, dict |=)
            if isinstance(cur, SetVal) and not cur.frozen and isinstance(st.op, (ast.BitOr, ast.BitAnd, ast.Sub, ast.BitXor)) and isinstance(v, SetVal):
                name = {ast.BitOr: "union", ast.BitAnd: "intersection", ast.Sub: "difference", ast.BitXor: "symmetric_difference"}[type(st.op)]
                res = self.set_method(cur, name, [v], depth)
                keep = list(res)
                while len(cur):
                    cur.drop_at(len(cur) - 1)
                for x in keep:
                    cur.push(x)
                self.assign(st.target, cur, env, func, depth)
            elif isinstance(cur, list) and not isinstance(cur, SetVal) and isinstance(st.op, ast.Add):
                cur.extend(self.iterate(v))
                self.assign(st.target, cur, env, func, depth)
            elif isinstance(cur, dict) and isinstance(st.op, ast.BitOr) and isinstance(v, dict):
                cur.update(v)
                self.assign(st.target, cur, env, func, depth)
            else:
                self.assign(st.target, self.binop(st.op, cur, v), env, func, depth)
        elif t is ast.If:
            if self.truth(self.eval(st.test, env, func, depth)):
                self.exec_block(st.body, env, func, depth)
            else:
                self.exec_block(st.orelse, env, func, depth)
        elif t is ast.Return:
            raise _Return(self.eval(st.value, env, func, depth) if st.value is not None else None)
        elif t is ast.Raise:
            if st.exc is None:
                raise Raised(env.get("__current_exc__", "Exception"))
            e = st.exc
            head = e.func if isinstance(e, ast.Call) else e
            nm = dotted(head)
            # the raised class is what the name is bound to (a parameter or local may hold an exception class)
            if isinstance(head, ast.Name) and head.id in env:
                v = env[head.id]
                if isinstance(v, ClassTok):
                    nm = v.name
                elif isinstance(v, Obj):
                    nm = v.cls_name
                elif isinstance(v, Raised):
                    raise v
                elif isinstance(v, tuple) and len(v) == 2 and v[0] == "builtin" and v[1] in BUILTIN_EXC:
                    nm = v[1]
            raise Raised((nm or "Exception").split(".")[-1])
        elif t is ast.Pass:
            return
        elif t is ast.Assert:
            if not self.truth(self.eval(st.test, env, func, depth)):
                raise Raised("AssertionError")
        elif t is ast.For:
            it = self.eval(st.iter, env, func, depth)
            broke = False
            # a loop over an iterator object consumes it one item at a time: after a `break` the rest is still there for whoever
            # holds the same iterator (a second loop, next(), chain(...))
            for v in (it.lazy() if isinstance(it, _Gen) else self.iterate(it)):
                self.assign(st.target, v, env, func, depth)
                try:
                    self.exec_block(st.body, env, func, depth)
                except _Break:
                    broke = True
                    break
                except _Continue:
                    continue
            if not broke:
                self.exec_block(st.orelse, env, func, depth)
        elif t is getattr(ast, "Match", None):
            subject = self.eval(st.subject, env, func, depth)
            for case in st.cases:
                binds = {}
                if self._match_pattern(case.pattern, subject, binds, env, func, depth):
                    env.update(binds) if not isinstance(env, ChainEnv) else [env.__setitem__(k_, v_) for k_, v_ in binds.items()]
                    if case.guard is None or self.truth(self.eval(case.guard, env, func, depth)):
                        self.exec_block(case.body, env, func, depth)
                        break
        elif t is ast.While:
            n = 0
            broke = False
            while self.truth(self.eval(st.test, env, func, depth)):
                n += 1
                if n > 10000:
                    raise Uninterpretable("while loop bound")
                try:
                    self.exec_block(st.body, env, func, depth)
                except _Break:
                    broke = True
                    break
                except _Continue:
                    continue
            if not broke and st.orelse:
                self.exec_block(st.orelse, env, func, depth)
        elif t is ast.With:
            suppress = []
            for item in st.items:
                ce = item.context_expr
                if isinstance(ce, ast.Call) and (dotted(ce.func) or "").split(".")[-1] == "suppress":
                    suppress += [(dotted(a) or "").split(".")[-1] for a in ce.args]
                else:
                    v = self.eval(ce, env, func, depth)
                    if item.optional_vars is not None:
                        self.assign(item.optional_vars, v, env, func, depth)
            if suppress:
                try:
                    self.exec_block(st.body, env, func, depth)
                except Raised as r_:
                    if not any(self.exc_matches(r_.exc_name, n_) for n_ in suppress):
                        raise
            else:
                self.exec_block(st.body, env, func, depth)
        elif t is ast.Break:
            raise _Break()
        elif t is ast.Continue:
            raise _Continue()
        elif t is ast.Try:
            try:
                try:
                    self.exec_block(st.body, env, func, depth)
                except Raised as r:
                    for h in st.handlers:
                        names = ["Exception"] if h.type is None else self._exc_names(h.type, env)
                        if any(self.exc_matches(r.exc_name, n) for n in names):
                            if h.name:
                                env[h.name] = r
                            prev = env.get("__current_exc__")
                            env["__current_exc__"] = r.exc_name
                            self.exec_block(h.body, env, func, depth)
                            if prev is not None:
                                env["__current_exc__"] = prev
                            break
                    else:
                        raise
                else:
                    self.exec_block(st.orelse, env, func, depth)
            finally:
                # (a finally block that itself raises replaces the propagating exception, as in Python)
                self.exec_block(st.finalbody, env, func, depth)
        elif t is ast.FunctionDef:
            nf = func.nested.get(st.name)
            if nf is None or nf.node is not st:
                # two defs of one name in different branches: each statement is its own function
                by_node = func.__dict__.setdefault("_nested_by_node", {})
                nf = by_node.get(id(st))
                if nf is None:
                    nf = by_node[id(st)] = Func(st.name, st, func.module, func.cls, func)
            val_ = ("closure", nf, env)
            if st.decorator_list:
                for d_, kind_ in reversed(list(zip(st.decorator_list, self._decorator_kinds(nf)))):
                    if kind_ == "user":
                        val_ = self.apply(self.eval(d_, env, func, depth), [val_], {}, func, depth)
                    elif kind_ == "dispatch":
                        raise Uninterpretable("singledispatch on a nested function")
            env[st.name] = val_
        elif t is ast.ImportFrom:
            # function-local import of repository names (used to dodge circular imports)
            modname = st.module or ""
            if modname.startswith("inscripta.biocantor"):
                short = modname[len("inscripta.biocantor."):] if len(modname) > len("inscripta.biocantor") else "__init__"
                for a in st.names:
                    bound = False
                    for cand in (short, short + "." + a.name):
                        m2 = self.repo.modules.get(cand)
                        if m2 is None:
                            continue
                        if a.name in m2.funcs:
                            env[a.asname or a.name] = ("bound", m2.funcs[a.name], None)
                            bound = True
                        elif a.name in m2.classes:
                            env[a.asname or a.name] = ClassTok(a.name)
                            bound = True
                        if bound:
                            break
                    if not bound and self.repo.has_cls(a.name):
                        env[a.asname or a.name] = ClassTok(a.name)
            return
        elif t is ast.Delete:
            for tg in st.targets:
                if isinstance(tg, ast.Subscript):
                    o = self.eval(tg.value, env, func, depth)
                    k = self.eval(tg.slice, env, func, depth)
                    try:
                        del o[k]
                    except KeyError:
                        raise Raised("KeyError", repr(k))
                elif isinstance(tg, ast.Name):
                    env.pop(tg.id, None)
                else:
                    raise Uninterpretable("del target")
        elif isinstance(st, (ast.Import, ast.Global, ast.Nonlocal)):
            return
        else:
            raise Uninterpretable(f"statement {type(st).__name__} in {func.qual}")

    def _match_pattern(self, pat, subject, binds, env, func, depth):
        """structural pattern matching for the pattern kinds the package could plausibly use: values, singletons, alternatives,
        captures / wildcard, sequences of those; anything else is uninterpretable"""
        t = type(pat)
        if t is ast.MatchValue:
            return self.compare(ast.Eq(), subject, self.eval(pat.value, env, func, depth), func, depth)
        if t is ast.MatchSingleton:
            return subject is pat.value
        if t is ast.MatchOr:
            return any(self._match_pattern(p_, subject, binds, env, func, depth) for p_ in pat.patterns)
        if t is ast.MatchAs:
            if pat.pattern is not None and not self._match_pattern(pat.pattern, subject, binds, env, func, depth):
                return False
            if pat.name is not None:
                binds[pat.name] = subject
            return True
        if t is ast.MatchSequence and isinstance(subject, (list, tuple)) and not any(isinstance(p_, ast.MatchStar) for p_ in pat.patterns):
            return len(subject) == len(pat.patterns) and all(self._match_pattern(p_, x_, binds, env, func, depth) for p_, x_ in zip(pat.patterns, subject))
        raise Uninterpretable(f"match pattern {t.__name__}")

    def iterate(self, it):
        if isinstance(it, SetVal) and SetVal.reverse_iteration:
            return list(reversed(it))
        if isinstance(it, (list, tuple, set, frozenset, range, dict, str)):
            return list(it)
        if type(it).__name__ in ("dict_items", "dict_keys", "dict_values", "zip", "map", "filter", "enumerate", "chain",
                                 "groupby", "_grouper", "islice", "count", "product"):
            return list(it)
        if type(it).__module__ == "itertools" and type(it).__name__ not in ("count", "cycle", "repeat"):
            return list(it)
        if isinstance(it, ClassTok) and self.is_enum_class(it.name):
            seen, out = set(), []
            for m in self.enum(it.name).values():
                if id(m) not in seen:
                    seen.add(id(m))
                    out.append(m)
            return out
        if isinstance(it, _Gen):
            return it.take()
        if isinstance(it, Obj) and it.fields.get("__namedtuple__"):
            return [it.fields[k] for k in it.fields["__dataclass_fields__"]]
        if type(it).__name__ in ("list_iterator", "tuple_iterator", "generator", "dict_keyiterator", "set_iterator", "deque", "ChainMap", "OrderedDict",
                                 "list_reverseiterator", "dict_valueiterator", "dict_itemiterator", "str_iterator", "str_ascii_iterator", "range_iterator",
                                 "map", "filter", "zip", "enumerate", "reversed", "dict_reversekeyiterator", "odict_iterator", "_deque_iterator"):
            return list(it)
        if isinstance(it, Obj):
            m = self.method(it, "__iter__")
            if m is not None:
                return self.iterate(self.call_func(m, [], {}, it, 1))
        if isinstance(it, (int, float, bool, type(None), EnumVal)) or type(it).__name__ == "UUID" or (isinstance(it, Obj) and not it.fields.get("__namedtuple__")):
            # not iterable in Python either
            raise Raised("TypeError", f"'{type(it).__name__}' object is not iterable")
        raise Uninterpretable(f"iteration over {type(it).__name__}")

    # ---- expressions ------------------------------------------------------------------
    def truth(self, v):
        if isinstance(v, Opaque):
            raise Uninterpretable(f"truth value of {v}")
        if isinstance(v, Obj):
            m = self.method(v, "__bool__") or self.method(v, "__len__")
            if m is not None:
                return bool(self.call_func(m, [], {}, v, 1))
            return True
        if isinstance(v, EnumVal):
            # Enum members are truthy unless the class defines __bool__/is an IntEnum with value 0
            c = self.repo.cls(v.cls) if self.repo.has_cls(v.cls) else None
            if c is not None and any("IntEnum" in b for b in c.bases):
                return bool(v.value)
            return True
        return bool(v)

    def binop(self, op, a, b):
        if isinstance(a, SetVal) and isinstance(b, SetVal):
            if isinstance(op, ast.BitOr):
                return self.set_method(a, "union", [b], 0)
            if isinstance(op, ast.BitAnd):
                return self.set_method(a, "intersection", [b], 0)
            if isinstance(op, ast.Sub):
                return self.set_method(a, "difference", [b], 0)
        if isinstance(a, Opaque) or isinstance(b, Opaque):
            return Opaque("binop")
        if isinstance(a, EnumVal) and isinstance(a.value, int) and self._is_intenum(a):
            a = a.value
        if isinstance(b, EnumVal) and isinstance(b.value, int) and self._is_intenum(b):
            b = b.value
        try:
            if isinstance(op, ast.Add):
                return a + b
            if isinstance(op, ast.Sub):
                return a - b
            if isinstance(op, ast.Mult):
                return a * b
            if isinstance(op, ast.Mod):
                if isinstance(a, str):
                    args_ = b if isinstance(b, tuple) else (b,)
                    conv = tuple(self.py_str(x) if isinstance(x, (Obj, EnumVal)) else x for x in args_)
                    if any(isinstance(x, Opaque) for x in conv):
                        return Opaque("str%")
                    return a % conv
                return a % b
            if isinstance(op, ast.FloorDiv):
                return a // b
            if isinstance(op, ast.RShift):
                return a >> b
            if isinstance(op, ast.LShift):
                return a << b
            if isinstance(op, ast.Pow):
                return a ** b
            if isinstance(op, ast.BitOr):
                return a | b
            if isinstance(op, ast.BitAnd):
                return a & b
        except TypeError as e:
            raise Raised("TypeError", str(e))
        except ZeroDivisionError:
            raise Raised("ZeroDivisionError")
        raise Uninterpretable(f"operator {type(op).__name__}")

    def _is_strenum(self, v: EnumVal):
        if not self.repo.has_cls(v.cls):
            return False
        return "str" in self.repo.cls(v.cls).bases

    def _is_intenum(self, v: EnumVal):
        if not self.repo.has_cls(v.cls):
            return False
        return any("IntEnum" in b for b in self.repo.cls(v.cls).bases)

    def compare(self, op, a, b, func, depth):
        if isinstance(op, (ast.Is, ast.IsNot)):
            if isinstance(a, Obj) or isinstance(b, Obj):
                res = a is b
            elif a is None or b is None or isinstance(a, bool) or isinstance(b, bool):
                res = a is b
            else:
                res = (type(a) is type(b)) and a == b
            return res if isinstance(op, ast.Is) else not res
        if isinstance(op, (ast.Eq, ast.NotEq)):
            res = self.equals(a, b, depth)
            return res if isinstance(op, ast.Eq) else not res
        if isinstance(op, (ast.In, ast.NotIn)):
            if isinstance(b, Opaque):
                raise Uninterpretable("membership in opaque")
            if isinstance(b, SetVal) and _prim(a):
                res = b.has_prim(a)
                return res if isinstance(op, ast.In) else not res
            items = list(b.keys()) if isinstance(b, dict) else self.iterate(b) if not isinstance(b, str) else None
            if items is None:
                res = a in b
            else:
                res = any(self.equals(a, x, depth) for x in items)
            return res if isinstance(op, ast.In) else not res
        if isinstance(a, Opaque) or isinstance(b, Opaque):
            raise Uninterpretable("ordering of opaque values")
        if (isinstance(a, Obj) and a.fields.get("__namedtuple__")) or (isinstance(b, Obj) and b.fields.get("__namedtuple__")):
            if self.method(a if isinstance(a, Obj) else b, "__lt__") is None:
                a, b = self._as_tuple(a), self._as_tuple(b)
        if isinstance(a, Obj) or isinstance(b, Obj):
            m = self.method(a if isinstance(a, Obj) else b, "__lt__")
            if m is None or not (isinstance(a, Obj) and isinstance(b, Obj)):
                raise Raised("TypeError", "unordered objects")
            lt = lambda x, y: self.truth(self.call_func(m, [y], {}, x, depth + 1))  # noqa: E731
            if isinstance(op, ast.Lt):
                return lt(a, b)
            if isinstance(op, ast.Gt):
                return lt(b, a)
            if isinstance(op, ast.LtE):
                return lt(a, b) or self.equals(a, b, depth)
            if isinstance(op, ast.GtE):
                return lt(b, a) or self.equals(a, b, depth)
        if isinstance(a, EnumVal) and not self._is_intenum(a):
            m = self.method(a, "__lt__")
            if m is None:
                raise Raised("TypeError", "unordered enum")
            lt = lambda x, y: self.call_func(m, [y], {}, x, depth + 1)  # noqa: E731
            if isinstance(op, ast.Lt):
                return lt(a, b)
            if isinstance(op, ast.Gt):
                return lt(b, a)
            if isinstance(op, ast.LtE):
                return lt(a, b) or self.equals(a, b, depth)
            if isinstance(op, ast.GtE):
                return lt(b, a) or self.equals(a, b, depth)
        if isinstance(a, EnumVal):
            a = a.value
        if isinstance(b, EnumVal):
            b = b.value
        try:
            if isinstance(op, ast.Lt):
                return a < b
            if isinstance(op, ast.LtE):
                return a <= b
            if isinstance(op, ast.Gt):
                return a > b
            if isinstance(op, ast.GtE):
                return a >= b
        except TypeError as e:
            raise Raised("TypeError", str(e))
        raise Uninterpretable(f"comparison {type(op).__name__}")

    @staticmethod
    def _as_tuple(x):
        """a NamedTuple record as the tuple it is (comparison, ordering and hashing are those of tuples)"""
        if isinstance(x, Obj) and x.fields.get("__namedtuple__"):
            return tuple(Interp._as_tuple(x.fields[k]) for k in x.fields["__dataclass_fields__"])
        return x

    def equals(self, a, b, depth):
        if (isinstance(a, Obj) and a.fields.get("__namedtuple__")) or (isinstance(b, Obj) and b.fields.get("__namedtuple__")):
            if self.method(a if isinstance(a, Obj) else b, "__eq__") is None:
                a, b = self._as_tuple(a), self._as_tuple(b)
        if isinstance(a, Obj):
            m = self.method(a, "__eq__")
            if m is not None:
                return bool(self.call_func(m, [b], {}, a, depth + 1))
            return a is b
        if isinstance(b, Obj):
            return self.equals(b, a, depth)
        if isinstance(a, EnumVal) and not isinstance(b, EnumVal) and (self._is_intenum(a) or self._is_strenum(a)):
            return a.value == b
        if isinstance(b, EnumVal) and not isinstance(a, EnumVal) and (self._is_intenum(b) or self._is_strenum(b)):
            return b.value == a
        if isinstance(a, SetVal) or isinstance(b, SetVal):
            if not (isinstance(a, SetVal) and isinstance(b, SetVal)):
                return False
            return len(a) == len(b) and all(any(self.equals(x, y, depth) for y in b) for x in a)
        if isinstance(a, Opaque) or isinstance(b, Opaque):
            if a is b:
                return True
            raise Uninterpretable("equality of opaque values")
        if isinstance(a, (list, tuple)) and isinstance(b, (list, tuple)) and type(a) is type(b):
            return len(a) == len(b) and all(self.equals(x, y, depth) for x, y in zip(a, b))
        if isinstance(a, dict) and isinstance(b, dict):
            if len(a) != len(b):
                return False
            for k, v in a.items():
                hit = [kk for kk in b if self.equals(k, kk, depth)]
                if not hit or not self.equals(v, b[hit[0]], depth):
                    return False
            return True
        return a == b

    def static_value(self, node, func, depth):
        """value of a module-level / class-level assignment: evaluated once per interpreter and then shared, as in
        Python - a mutable class attribute or module global used as a cache keeps its contents between calls"""
        key = id(node)
        hit = self._statics.get(key)
        if hit is not None and hit[0] is node:
            return hit[1]
        v = self.eval(node, {}, func, depth)
        self._statics[key] = (node, v)
        return v

    def eval(self, n, env, func, depth=0):
        self.steps += 1
        t = type(n)
        if t is ast.Constant:
            return n.value
        if t is ast.Name:
            if n.id in env:
                return env[n.id]
            if n.id in self.overrides:
                return self.overrides[n.id]
            if n.id == "__name__" and func is not None:
                return "inscripta.biocantor." + func.module.name
            if n.id in ("True", "False", "None"):
                return {"True": True, "False": False, "None": None}[n.id]
            if self.repo.has_cls(n.id):
                return ClassTok(n.id)
            mod = func.module if func is not None else None
            if mod is not None and n.id in mod.funcs:
                return ("bound", mod.funcs[n.id], None)
            if mod is not None and n.id in mod.assigns:
                return self.static_value(mod.assigns[n.id], func, depth)
            if func is not None and func.name == "<cls>" and func.cls is not None and func.parent is None:
                # a name used in a class body: earlier definitions of that body are in scope
                if n.id in func.cls.methods:
                    return ("rawfn", func.cls.methods[n.id])
                if n.id in func.cls.attrs:
                    return self.static_value(func.cls.attrs[n.id], func, depth)
            if mod is not None and n.id in mod.imports and mod.imports[n.id][0] in ("re", "math", "hashlib", "itertools", "string") \
                    and mod.imports[n.id][1] is None:
                return ("pymodule", mod.imports[n.id][0])
            if mod is not None and n.id in mod.imports and mod.imports[n.id] == ("uuid", "UUID"):
                import uuid
                return ("native", uuid.UUID)
            if mod is not None and n.id in mod.imports and mod.imports[n.id][0] == "warnings":
                return ("native", _warn_noop) if mod.imports[n.id][1] else ("pymodule", "warnings")
            if mod is not None and n.id in mod.imports and mod.imports[n.id][0] == "string" and mod.imports[n.id][1]:
                import string as _string
                return getattr(_string, mod.imports[n.id][1])
            if mod is not None and n.id in mod.imports and mod.imports[n.id] == ("random", None):
                return self.overrides.get("random", ("pymodule", "random"))
            if mod is not None and n.id in mod.imports and mod.imports[n.id] == ("abc", "ABC"):
                return ClassTok("ABC")
            if mod is not None and n.id in mod.imports and mod.imports[n.id][0] == "operator" and mod.imports[n.id][1] in ("attrgetter", "itemgetter", "methodcaller"):
                return ("builtin", mod.imports[n.id][1])
            if mod is not None and n.id in mod.imports and mod.imports[n.id] in (("functools", "partial"), ("typing", "cast")):
                return ("builtin", mod.imports[n.id][1])
            if mod is not None and n.id in mod.imports and mod.imports[n.id] in (("copy", "deepcopy"), ("copy", "copy")):
                return ("builtin", mod.imports[n.id][1])
            if mod is not None and n.id in mod.imports and mod.imports[n.id] == ("types", "MappingProxyType"):
                return ("builtin", "dict")  # a read-only view: same lookups as the dict it wraps
            if mod is not None and n.id in mod.imports and mod.imports[n.id][0] in ("operator", "contextlib", "functools") and mod.imports[n.id][1] is None:
                return ("pymodule", mod.imports[n.id][0])
            if mod is not None and n.id in mod.imports and mod.imports[n.id] == ("logging", None):
                return ("pymodule", "logging")
            if mod is not None and n.id in mod.imports and mod.imports[n.id] == ("collections", "Counter"):
                import collections
                return ("native", collections.Counter)
            if mod is not None and n.id in mod.imports and mod.imports[n.id] == ("collections", "defaultdict"):
                return ("builtin", "defaultdict")
            if mod is not None and n.id in mod.imports and mod.imports[n.id][0] == "collections" and mod.imports[n.id][1] in ("ChainMap", "OrderedDict", "deque"):
                import collections
                return ("native", getattr(collections, mod.imports[n.id][1]))
            if mod is not None and n.id in mod.imports and mod.imports[n.id] == ("dataclasses", "replace"):
                return ("builtin", "dc_replace")
            if mod is not None and n.id in mod.imports and mod.imports[n.id] == ("dataclasses", "astuple"):
                return ("builtin", "astuple")
            if mod is not None and n.id in mod.imports and mod.imports[n.id][0] in ("itertools", "functools") \
                    and mod.imports[n.id][1] in ("islice", "chain", "reduce", "count", "zip_longest", "groupby", "repeat"):
                return ("builtin", mod.imports[n.id][1])
            if mod is not None and n.id in mod.imports and mod.imports[n.id][0] in ("bisect", "heapq", "textwrap", "math", "string") and mod.imports[n.id][1]:
                import importlib as _importlib
                _lib = _importlib.import_module(mod.imports[n.id][0])
                if hasattr(_lib, mod.imports[n.id][1]):
                    val_ = getattr(_lib, mod.imports[n.id][1])
                    return ("native", val_) if callable(val_) else val_
            if mod is not None and n.id in mod.imports and mod.imports[n.id][0] in ("bisect", "heapq", "textwrap") and mod.imports[n.id][1] is None:
                return ("pymodule", mod.imports[n.id][0])
            if mod is not None and n.id in mod.imports and mod.imports[n.id][0] in ("itertools", "operator") and mod.imports[n.id][1]:
                # any other itertools / operator function: the real one, applied to interpreter values (callable arguments are
                # wrapped by the native-call path)
                import itertools as _itertools
                import operator as _operator
                lib = _itertools if mod.imports[n.id][0] == "itertools" else _operator
                if hasattr(lib, mod.imports[n.id][1]):
                    return ("native", getattr(lib, mod.imports[n.id][1]))
            if mod is not None and n.id in mod.imports:
                res = self.resolve_import(mod, n.id, func, depth, 0)
                if res is not None:
                    return res
            if n.id in BUILTIN_EXC or n.id in ("len", "min", "max", "abs", "type", "isinstance", "str", "int", "sum",
                                               "any", "all", "sorted", "reversed", "list", "tuple", "zip", "range",
                                               "enumerate", "set", "bool", "iter", "next", "repr", "dict", "frozenset", "hash", "slice", "staticmethod", "classmethod",
                                               "getattr", "hasattr", "object", "print", "id", "map", "filter", "divmod", "round",
                                               "callable", "ord", "chr", "pow", "property"):
                return ("builtin", n.id)
            if func is not None and _assigned_locally(func, n.id):
                # a local name that some path assigns and this path reads unassigned: Python raises UnboundLocalError
                raise Raised("UnboundLocalError", n.id)
            raise Uninterpretable(f"name {n.id} in {func.qual if func else '?'}")
        if t is ast.Attribute:
            o = self.eval(n.value, env, func, depth)
            return self.getattr(o, n.attr, func, depth)
        if t is ast.Compare:
            left = self.eval(n.left, env, func, depth)
            for op, c in zip(n.ops, n.comparators):
                right = self.eval(c, env, func, depth)
                if not self.compare(op, left, right, func, depth):
                    return False
                left = right
            return True
        if t is ast.BoolOp:
            if isinstance(n.op, ast.And):
                v = True
                for x in n.values:
                    v = self.eval(x, env, func, depth)
                    if not self.truth(v):
                        return v
                return v
            v = False
            for x in n.values:
                v = self.eval(x, env, func, depth)
                if self.truth(v):
                    return v
            return v
        if t is ast.UnaryOp:
            v = self.eval(n.operand, env, func, depth)
            if isinstance(n.op, ast.Not):
                return not self.truth(v)
            if isinstance(n.op, ast.USub):
                if isinstance(v, EnumVal):
                    v = v.value
                return -v
            if isinstance(n.op, ast.UAdd):
                return v
            raise Uninterpretable("unary op")
        if t is ast.BinOp:
            return self.binop(n.op, self.eval(n.left, env, func, depth), self.eval(n.right, env, func, depth))
        if t is ast.IfExp:
            if self.truth(self.eval(n.test, env, func, depth)):
                return self.eval(n.body, env, func, depth)
            return self.eval(n.orelse, env, func, depth)
        if isinstance(n, (ast.Tuple, ast.List, ast.Set)):
            vals = []
            for x in n.elts:
                if isinstance(x, ast.Starred):
                    vals.extend(self.iterate(self.eval(x.value, env, func, depth)))
                else:
                    vals.append(self.eval(x, env, func, depth))
            if t is ast.Set:
                return self._dedupe(vals, depth)
            return tuple(vals) if t is ast.Tuple else vals
        if t is ast.Dict:
            d = {}
            for k, v in zip(n.keys, n.values):
                if k is None:  # {**other}
                    d.update(self.eval(v, env, func, depth))
                else:
                    d[self.eval(k, env, func, depth)] = self.eval(v, env, func, depth)
            return d
        if t is ast.JoinedStr:
            parts = []
            for piece in n.values:
                if isinstance(piece, ast.Constant):
                    parts.append(str(piece.value))
                    continue
                val = self.eval(piece.value, env, func, depth)
                txt = self.py_repr(val, depth) if piece.conversion == ord("r") else self.py_str(val, depth)
                if isinstance(txt, Opaque):
                    return Opaque("fstring")
                if piece.format_spec is not None:
                    spec = self.eval(piece.format_spec, env, func, depth)
                    if isinstance(spec, str) and isinstance(val, (int, float, str)):
                        txt = format(val, spec)
                parts.append(txt)
            return "".join(parts)
        if t is ast.Subscript:
            o = self.eval(n.value, env, func, depth)
            if isinstance(n.slice, ast.Slice):
                lo = self.eval(n.slice.lower, env, func, depth) if n.slice.lower else None
                hi = self.eval(n.slice.upper, env, func, depth) if n.slice.upper else None
                stp = self.eval(n.slice.step, env, func, depth) if n.slice.step else None
                if isinstance(o, Opaque):
                    return Opaque("slice")
                if isinstance(o, Obj):
                    m = self.method(o, "__getitem__")
                    if m is None:
                        raise Raised("TypeError", "not subscriptable")
                    return self.call_func(m, [slice(lo, hi, stp)], {}, o, depth + 1)
                if isinstance(o, _Gen):
                    raise Raised("TypeError", "generator is not subscriptable")
                try:
                    return o[lo:hi:stp]
                except TypeError as ex:
                    raise Raised("TypeError", str(ex))
                except ValueError as ex:  # slice step cannot be zero
                    raise Raised("ValueError", str(ex))
            k = self.eval(n.slice, env, func, depth)
            if isinstance(o, Obj):
                m = self.method(o, "__getitem__")
                if m is None:
                    if o.fields.get("__namedtuple__") and isinstance(k, int) and not isinstance(k, bool):
                        flds = o.fields["__dataclass_fields__"]
                        if -len(flds) <= k < len(flds):
                            return o.fields[flds[k]]
                        raise Raised("IndexError", "tuple index out of range")
                    raise Raised("TypeError", "not subscriptable")
                return self.call_func(m, [k], {}, o, depth + 1)
            if isinstance(o, ClassTok) and self.is_enum_class(o.name):
                mem = self.enum(o.name)
                if k in mem:
                    return mem[k]
                raise Raised("KeyError", str(k))
            if type(o).__name__ in ("Counter", "ChainMap", "OrderedDict", "deque"):
                try:
                    return o[k]
                except KeyError:
                    raise Raised("KeyError", repr(k))
                except IndexError:
                    raise Raised("IndexError")
            if isinstance(o, dict):
                for kk, vv in o.items():
                    if self.equals(kk, k, depth):
                        return vv
                if isinstance(o, DDict) and o.factory is not None:
                    o[k] = self.apply(o.factory, [], {}, func, depth)
                    return o[k]
                raise Raised("KeyError", repr(k))
            if isinstance(o, (list, tuple, str)):
                try:
                    return o[k]
                except IndexError:
                    raise Raised("IndexError")
                except TypeError as ex:
                    raise Raised("TypeError", str(ex))
            if isinstance(o, Opaque):
                return Opaque("item")
            if isinstance(o, Obj) and o.fields.get("__namedtuple__"):
                try:
                    return tuple(o.fields[k] for k in o.fields["__dataclass_fields__"])[self.eval(n.slice, env, func, depth)]
                except IndexError:
                    raise Raised("IndexError")
            raise Uninterpretable(f"subscript on {type(o).__name__}")
        if t is ast.GeneratorExp and len(n.generators) == 1:
            src0 = self.eval(n.generators[0].iter, env, func, depth)
            if isinstance(src0, (_Endless, _SteppedGen)):
                # a generator expression over an endless iterator stays lazy: elements are computed as they are drawn
                g0 = n.generators[0]

                def draw(i, src0=src0, g0=g0):
                    for _ in range(100000):
                        e2 = dict(env)
                        self.assign(g0.target, src0.next_item(), e2, func, depth)
                        if all(self.truth(self.eval(c, e2, func, depth)) for c in g0.ifs):
                            return self.eval(n.elt, e2, func, depth)
                    raise Uninterpretable("filtered endless generator expression")
                return _Endless(draw)
            out = []
            for v in self.iterate(src0):
                e2 = dict(env)
                self.assign(n.generators[0].target, v, e2, func, depth)
                if all(self.truth(self.eval(c, e2, func, depth)) for c in n.generators[0].ifs):
                    out.append(self.eval(n.elt, e2, func, depth))
            return _Gen(out)
        if isinstance(n, (ast.ListComp, ast.GeneratorExp, ast.SetComp)):
            out = []
            self._comp(n.generators, 0, env, func, depth, lambda e: out.append(self.eval(n.elt, e, func, depth)))
            if t is ast.SetComp:
                return self._dedupe(out, depth)
            return out if not t is ast.GeneratorExp else _Gen(out)
        if t is ast.DictComp:
            out = {}

            def put(e):
                out[self.eval(n.key, e, func, depth)] = self.eval(n.value, e, func, depth)

            self._comp(n.generators, 0, env, func, depth, put)
            return out
        if t is ast.Lambda:
            return ("lambda", n, dict(env), func)
        if t is ast.Call:
            return self.eval_call(n, env, func, depth)
        if t is ast.NamedExpr:
            v = self.eval(n.value, env, func, depth)
            env[n.target.id] = v
            return v
        if t is ast.Yield:
            env["__yields__"].append(self.eval(n.value, env, func, depth) if n.value is not None else None)
            return None
        if t is ast.YieldFrom:
            inner = self.eval(n.value, env, func, depth)
            if isinstance(inner, _Gen):
                for v_ in inner.lazy():
                    env["__yields__"].append(v_)
            else:
                env["__yields__"].extend(self.iterate(inner))
            return None
        if t is ast.Starred:
            raise Uninterpretable("starred")
        raise Uninterpretable(f"expression {type(n).__name__}")

    def resolve_import(self, mod, name, func, depth, hops):
        """value of a name imported into `mod` from another repository module (re-exports are followed)"""
        if hops > 6 or name not in mod.imports:
            return None
        imod, iname = mod.imports[name]
        if not imod.startswith("inscripta.biocantor"):
            return None
        short = imod[len("inscripta.biocantor."):] if len(imod) > len("inscripta.biocantor") else "__init__"
        if not iname:
            # `import inscripta.biocantor.x.y as z`: the module itself
            return ("repomodule", short) if short in self.repo.modules else None
        pkg = self.repo.modules.get(short) or self.repo.modules.get(short + ".__init__")
        sub = short + "." + iname if short != "__init__" else iname
        if sub in self.repo.modules and not (pkg is not None and (iname in pkg.funcs or iname in pkg.classes or iname in pkg.assigns or iname in pkg.imports)):
            # `from package import submodule`: the package does not define the name itself, so it is the submodule
            return ("repomodule", sub)
        for cand in (short, short + "." + iname):
            m2 = self.repo.modules.get(cand)
            if m2 is None:
                continue
            if iname in m2.funcs:
                return ("bound", m2.funcs[iname], None)
            if iname in m2.classes:
                return ClassTok(iname)
            if iname in m2.assigns:
                return self.eval(m2.assigns[iname], {}, Func("<mod>", ast.parse("def f(): pass").body[0], m2), depth)
            if iname in m2.imports:
                res = self.resolve_import(m2, iname, func, depth, hops + 1)
                if res is not None:
                    return res
        return None

    def _dedupe(self, items, depth):
        out = SetVal()
        for x in items:
            if not self.set_contains(out, x, depth):
                out.push(x)
        return out

    def set_contains(self, o, x, depth=0):
        if isinstance(o, SetVal) and _prim(x):
            return o.has_prim(x)
        return any(self.equals(x, y, depth) for y in o)

    def py_str(self, v, depth=0):
        if isinstance(v, str):
            return v
        if isinstance(v, (Obj, EnumVal)):
            m = self.method(v, "__str__")
            if m is not None:
                return self.call_func(m, [], {}, v, depth + 1)
            if isinstance(v, EnumVal):
                if self._is_intenum(v):
                    return str(v.value)  # Python >= 3.11 IntEnum.__str__ is int.__str__
                return f"{v.cls}.{v.name}"
        if type(v).__module__ in ("uuid",):
            return str(v)
        if isinstance(v, Raised):
            return Opaque("exception message")
        return self.py_repr(v, depth)

    def py_repr(self, v, depth=0):
        if v is None or isinstance(v, (bool, int, float, str)):
            return repr(v)
        if isinstance(v, EnumVal):
            m = self.method(v, "__repr__")
            if m is not None:
                return self.call_func(m, [], {}, v, depth + 1)
            return f"<{v.cls}.{v.name}: {v.value!r}>"
        if isinstance(v, Obj):
            m = self.method(v, "__repr__")
            if m is not None:
                return self.call_func(m, [], {}, v, depth + 1)
            return Opaque("default object repr (address dependent)")
        if isinstance(v, SetVal):
            if len(v) <= 1:
                return "{" + ", ".join(self._reprs(v, depth)) + "}" if v else "set()"
            return Opaque("str() of a set depends on hash order")
        if isinstance(v, HashOrdered) and not v.settled and len(v) > 1:
            return Opaque("str() of a list built from a set depends on hash order")
        if isinstance(v, list):
            return "[" + ", ".join(self._reprs(v, depth)) + "]"
        if isinstance(v, tuple):
            inner = ", ".join(self._reprs(v, depth))
            return "(" + inner + ("," if len(v) == 1 else "") + ")"
        if isinstance(v, dict):
            parts = []
            for k, x in v.items():
                a, b = self.py_repr(k, depth), self.py_repr(x, depth)
                if isinstance(a, Opaque) or isinstance(b, Opaque):
                    return Opaque("repr")
                parts.append(f"{a}: {b}")
            return "{" + ", ".join(parts) + "}"
        if type(v).__module__ in ("uuid",):
            return repr(v)
        return Opaque(f"repr of {type(v).__name__}")

    def _reprs(self, items, depth):
        out = []
        for x in items:
            r = self.py_repr(x, depth)
            if isinstance(r, Opaque):
                raise Uninterpretable(f"repr of {r}")
            out.append(r)
        return out

    def set_method(self, o, name, args, depth):
        if name == "add":
            if not self.set_contains(o, args[0], depth):
                o.push(args[0])
            return None
        if name == "update":
            for a in args:
                for x in self.iterate(a):
                    if not self.set_contains(o, x, depth):
                        o.push(x)
            return None
        if name in ("union", "__or__"):
            out = SetVal(o)
            self.set_method(out, "update", args, depth)
            return out
        if name in ("intersection", "__and__"):
            out = SetVal(o)
            for a in args:
                items = a if isinstance(a, SetVal) else self._dedupe(self.iterate(a), depth)
                out = SetVal(x for x in out if self.set_contains(items, x, depth))
            return out
        if name in ("difference", "__sub__"):
            out = SetVal(o)
            for a in args:
                items = a if isinstance(a, SetVal) else self._dedupe(self.iterate(a), depth)
                out = SetVal(x for x in out if not self.set_contains(items, x, depth))
            return out
        if name in ("discard", "remove"):
            hits = [i for i, y in enumerate(o) if self.equals(args[0], y, depth)]
            if hits:
                o.drop_at(hits[0])
            elif name == "remove":
                raise Raised("KeyError", "remove")
            return None
        if name == "pop":
            if not o:
                raise Raised("KeyError", "pop from an empty set")
            x = o[0]
            o.drop_at(0)
            return x
        if name == "copy":
            return SetVal(o)
        if name == "clear":
            del o[:]
            o.hs.clear()
            return None
        if name in ("issubset", "issuperset", "isdisjoint"):
            other = self.iterate(args[0])
            sub = all(any(self.equals(x, y, depth) for y in other) for x in o)
            sup = all(any(self.equals(x, y, depth) for y in o) for x in other)
            dis = not any(any(self.equals(x, y, depth) for y in other) for x in o)
            return {"issubset": sub, "issuperset": sup, "isdisjoint": dis}[name]
        raise Uninterpretable(f"set method {name}")

    def _comp(self, gens, i, env, func, depth, emit):
        if i == len(gens):
            emit(env)
            return
        g = gens[i]
        for v in self.iterate(self.eval(g.iter, env, func, depth)):
            e2 = dict(env)
            self.assign(g.target, v, e2, func, depth)
            if all(self.truth(self.eval(c, e2, func, depth)) for c in g.ifs):
                self._comp(gens, i + 1, e2, func, depth, emit)

    def eval_call(self, n: ast.Call, env, func, depth):
        # hook on syntactic callee name first (e.g. ObjectValidation.require_object_has_type)
        nm = dotted(n.func)
        if nm and nm in self.hooks:
            args = [self.eval(a, env, func, depth) for a in n.args]
            kwargs = {k.arg: self.eval(k.value, env, func, depth) for k in n.keywords if k.arg}
            return self.hooks[nm](self, None, args, kwargs)
        if isinstance(n.func, ast.Attribute) and isinstance(n.func.value, ast.Call) \
                and dotted(n.func.value.func) == "super" and not n.func.value.args and func is not None \
                and func.cls is not None:
            selfv = env.get(func.pos_params[0]) if func.pos_params else None
            start_cls = self.repo.cls(selfv.cls_name) if isinstance(selfv, Obj) and self.repo.has_cls(selfv.cls_name) else func.cls
            mro = self.repo.mro(start_cls)
            names = [k.qual for k in mro]
            idx = names.index(func.cls.qual) if func.cls.qual in names else -1
            target = None
            for k in mro[idx + 1:]:
                if n.func.attr in k.methods:
                    target = k.methods[n.func.attr]
                    break
            if target is None:
                if n.func.attr == "__new__":
                    # object.__new__(cls): a fresh, uninitialised instance of the class token passed in
                    a0 = self.eval(n.args[0], env, func, depth) if n.args else selfv
                    return Obj(a0.name if isinstance(a0, ClassTok) else func.cls.name)
                if n.func.attr in ("__init__",):
                    return None
                raise Uninterpretable(f"super().{n.func.attr} not found from {func.qual}")
            args = []
            for a in n.args:
                if isinstance(a, ast.Starred):
                    args.extend(self.iterate(self.eval(a.value, env, func, depth)))
                else:
                    args.append(self.eval(a, env, func, depth))
            kwargs = {}
            for k in n.keywords:
                if k.arg:
                    kwargs[k.arg] = self.eval(k.value, env, func, depth)
                else:
                    kwargs.update(self.eval(k.value, env, func, depth))
            return self.call_func(target, args, kwargs, selfv, depth + 1)
        if nm == "super":
            raise Uninterpretable("bare super()")
        f = self.eval(n.func, env, func, depth)
        args = []
        for a in n.args:
            if isinstance(a, ast.Starred):
                args.extend(self.iterate(self.eval(a.value, env, func, depth)))
            else:
                args.append(self.eval(a, env, func, depth))
        kwargs = {}
        for k in n.keywords:
            if k.arg:
                kwargs[k.arg] = self.eval(k.value, env, func, depth)
            else:
                kwargs.update(self.eval(k.value, env, func, depth))
        return self.apply(f, args, kwargs, func, depth, n)

    def apply(self, f, args, kwargs, func, depth, node=None):
        if isinstance(f, tuple) and f and f[0] == "bound":
            _, m, selfv = f
            if isinstance(selfv, ClassTok) and m.cls is not None and not m.is_static and not m.is_classmethod \
                    and m.name != "__new__" and args and isinstance(args[0], (Obj, EnumVal)):
                # Class.method(instance, ...): the function fetched from the class is unbound, its first argument is self
                return self.call_func(m, list(args[1:]), kwargs, args[0], depth + 1)
            return self.call_func(m, args, kwargs, selfv, depth + 1)
        if isinstance(f, tuple) and f and f[0] == "closure":
            _, m, cenv = f
            nonlocals = [nm_ for st_ in ast.walk(m.node) if isinstance(st_, ast.Nonlocal) for nm_ in st_.names]
            env2 = ChainEnv(cenv, nonlocals)
            params = list(m.pos_params)
            if len(args) > len(params) and not m.node.args.vararg:
                raise Uninterpretable(f"too many positional arguments for nested function {m.name}")
            for p, v in zip(params, args):
                dict.__setitem__(env2, p, v)
            if m.node.args.vararg:
                dict.__setitem__(env2, m.node.args.vararg.arg, tuple(args[len(params):]))
            known_ = set(params) | {x_.arg for x_ in m.node.args.kwonlyargs}
            extra_ = {}
            for k_, v in kwargs.items():
                if m.node.args.kwarg and k_ not in known_:
                    extra_[k_] = v
                else:
                    dict.__setitem__(env2, k_, v)
            if m.node.args.kwarg:
                dict.__setitem__(env2, m.node.args.kwarg.arg, extra_)
            dflt = m.node.args.defaults
            for p, d in zip(params[len(params) - len(dflt):], dflt):
                if not dict.__contains__(env2, p):
                    dict.__setitem__(env2, p, self.eval(d, cenv, func, depth))
            for a_, d in zip(m.node.args.kwonlyargs, m.node.args.kw_defaults):
                if not dict.__contains__(env2, a_.arg) and d is not None:
                    dict.__setitem__(env2, a_.arg, self.eval(d, cenv, func, depth))
            is_gen = any(isinstance(x, (ast.Yield, ast.YieldFrom)) for x in walk_shallow(m.node))
            if is_gen and _is_endless_generator(m):
                def body(sink, env2=env2):
                    dict.__setitem__(env2, "__yields__", sink)
                    try:
                        self.exec_block(m.body_without_docstring(), env2, m, depth + 1)
                    except _Return:
                        pass
                return _SteppedGen(body)
            if is_gen:
                dict.__setitem__(env2, "__yields__", [])
            try:
                self.exec_block(m.body_without_docstring(), env2, m, depth + 1)
            except _Return as r:
                return _Gen(dict.__getitem__(env2, "__yields__")) if is_gen else r.value
            return _Gen(dict.__getitem__(env2, "__yields__")) if is_gen else None
        if isinstance(f, tuple) and f and f[0] == "lambda":
            lam, cenv = f[1], f[2]
            home = f[3] if len(f) > 3 and f[3] is not None else func  # names are resolved where the lambda was written
            env2 = dict(cenv)
            la = lam.args
            params = [a.arg for a in la.posonlyargs + la.args]
            if len(args) > len(params) and not la.vararg:
                raise Raised("TypeError", "too many positional arguments for lambda")
            for p, v in zip(params, args):
                env2[p] = v
            if la.vararg:
                env2[la.vararg.arg] = tuple(args[len(params):])
            for k_, v in kwargs.items():
                env2[k_] = v
            for p, d in zip(params[len(params) - len(la.defaults):], la.defaults):
                if params.index(p) >= len(args) and p not in kwargs:
                    env2[p] = self.eval(d, cenv, home, depth)
            for a_, d in zip(la.kwonlyargs, la.kw_defaults):
                if a_.arg not in kwargs and d is not None:
                    env2[a_.arg] = self.eval(d, cenv, home, depth)
            return self.eval(lam.body, env2, home, depth + 1)
        if isinstance(f, tuple) and f and f[0] == "pymethod":
            _, o, name = f
            if isinstance(o, SetVal):
                return self.set_method(o, name, args, depth)
            if name == "format":
                conv = lambda a: a if isinstance(a, (str, int, float, bool, type(None))) else self.py_str(a, depth)  # noqa: E731
                cargs = [conv(a) for a in args]
                ckw = {k: conv(v) for k, v in kwargs.items()}
                if any(isinstance(a, Opaque) for a in cargs + list(ckw.values())):
                    return Opaque("str")
                return o.format(*cargs, **ckw)
            if name == "join":
                if isinstance(args[0], HashOrdered) and not args[0].settled and len(args[0]) > 1:
                    return Opaque("join of a list built from a set depends on hash order")
                items = self.iterate(args[0])
                if all(isinstance(a, type(o)) for a in items):
                    return o.join(items)
                return Opaque("str")
            if name in ("extend", "update") and args and isinstance(args[0], _Gen):
                args = [args[0].take()] + list(args[1:])
            if isinstance(o, list) and name in ("index", "count", "remove") and args and isinstance(args[0], (Obj, EnumVal)):
                hits = [i for i, x in enumerate(o) if self.equals(x, args[0], depth)]
                if name == "count":
                    return len(hits)
                if not hits:
                    raise Raised("ValueError", "not in list")
                if name == "index":
                    return hits[0]
                del o[hits[0]]
                return None
            if isinstance(o, dict) and name in ("get", "pop", "setdefault") and args and isinstance(args[0], (Obj, EnumVal)):
                for kk in list(o.keys()):
                    if self.equals(kk, args[0], depth):
                        args = [kk] + list(args[1:])
                        break
            if name == "sort" and isinstance(o, list):
                o[:] = self.builtin("sorted", [o], kwargs, func, depth)
                if isinstance(o, HashOrdered):
                    o.settled = True
                return None
            if type(o).__module__ in ("_hashlib", "hashlib", "_md5"):
                for a in args:
                    if isinstance(a, Opaque):
                        raise Uninterpretable(f"{type(o).__name__}.{name} on {a!r}")
            if isinstance(o, _re.Pattern):
                # interpreted functions handed to a compiled pattern (sub with a replacement function)
                cw = lambda a: ((lambda *xs: self.apply(a, list(xs), {}, func, depth))  # noqa: E731
                                if isinstance(a, tuple) and a and a[0] in ("lambda", "closure", "bound") else a)
                args = [cw(a) for a in args]
                kwargs = {k: cw(v) for k, v in kwargs.items()}
            try:
                return getattr(o, name)(*args, **kwargs)
            except TypeError as ex:
                raise Raised("TypeError", str(ex))
            except ValueError as ex:
                raise Raised("ValueError", str(ex))
            except KeyError:
                raise Raised("KeyError")
            except (IndexError,):
                raise Raised("IndexError")
        if isinstance(f, tuple) and f and f[0] == "rawfn":
            m = f[1]
            if m.cls is not None and not m.is_static:
                if not args:
                    raise Raised("TypeError", f"{m.name}() missing 1 required positional argument: 'self'")
                return self.call_func(m, list(args[1:]), kwargs, args[0], depth + 1, _raw=True)
            return self.call_func(m, list(args), kwargs, None, depth + 1, _raw=True)
        if isinstance(f, tuple) and f and f[0] == "recordfn":
            _, what, rec = f
            flds = rec.fields["__dataclass_fields__"]
            if what == "_asdict":
                return {k: rec.fields[k] for k in flds}
            bad = [k for k in kwargs if k not in flds]
            if bad:
                raise Raised("ValueError" if rec.fields.get("__namedtuple__") else "TypeError", f"unexpected field names: {bad}")
            new_ = Obj(rec.cls_name, **dict(rec.fields))
            new_.fields.update(kwargs)
            return new_
        if isinstance(f, tuple) and f and f[0] == "setfn":
            if not args:
                return SetVal()
            return self.set_method(self._dedupe(self.iterate(args[0]), depth), f[1], args[1:], depth)
        if isinstance(f, tuple) and f and f[0] == "native":
            def wrap(a):
                if isinstance(a, tuple) and a and a[0] in ("lambda", "closure", "bound", "builtin", "partial", "rawfn", "recordfn", "pymethod", "setfn"):
                    return lambda *xs, **kw: self.apply(a, list(xs), kw, func, depth)
                if isinstance(a, tuple) and len(a) == 2 and a[0] == "native" and callable(a[1]):
                    return a[1]
                if isinstance(a, ClassTok) and not self.is_enum_class(a.name):
                    return lambda *xs, **kw: self.apply(a, list(xs), kw, func, depth)
                if isinstance(a, ClassTok) and self.is_enum_class(a.name):
                    return self.iterate(a)
                if isinstance(a, (_Endless, _SteppedGen)):
                    return a.lazy()  # library code draws from it lazily, as it would from the real iterator
                if isinstance(a, _Gen):
                    return list(a.take())
                if isinstance(a, SetVal) and SetVal.reverse_iteration:
                    return list(reversed(a))
                return a
            if f[1] is _warn_noop:
                return None
            for a in list(args) + list(kwargs.values()):
                if isinstance(a, Opaque):
                    raise Uninterpretable(f"native call on {a!r}")
            try:
                res = f[1](*[wrap(a) for a in args], **{k: wrap(v) for k, v in kwargs.items()})
            except TypeError as ex:
                raise Raised("TypeError", str(ex))
            return res
        if isinstance(f, ClassTok):
            qual = f.name
            if qual in self.hooks:
                return self.hooks[qual](self, None, args, kwargs)
            if self.is_enum_class(f.name):
                names = kwargs.get("names", args[1] if len(args) > 1 else None)
                ename = kwargs.get("value", args[0] if args else None)
                if isinstance(names, dict):
                    names = list(names.items())
                elif isinstance(names, str):
                    names = [(nm_, i_ + 1) for i_, nm_ in enumerate(names.replace(",", " ").split())]
                elif isinstance(names, tuple):
                    names = list(names)
                if isinstance(names, list) and names and all(isinstance(x, str) for x in names):
                    names = [(nm_, i_ + 1) for i_, nm_ in enumerate(names)]
                if isinstance(names, list) and isinstance(ename, str):
                    # functional Enum API: EnumBase("Name", [[member, value], ...] | {member: value} | "A B C"); equal values are aliases
                    members, byval = {}, {}
                    for pair in names:
                        mn, mv = pair[0], pair[1]
                        if mv in byval:
                            members[mn] = byval[mv]
                        else:
                            members[mn] = byval[mv] = EnumVal(ename, mn, mv)
                    self.enum_cache[ename] = members
                    self.dynamic_enums[ename] = f.name
                    return ClassTok(ename)
                return self.enum_by_value(f.name, args[0] if args else None)
            c = self.repo.cls(f.name)
            if getattr(self, "class_caches", None) is not None and any("lru_cache" in d for d in c.decorators) and not getattr(self, "_in_cache_fill", False):
                # a class wrapped in functools.lru_cache (opt-in model): a constructor call whose arguments equal - by the
                # interpreted __eq__ of the argument classes, positional / keyword spelling kept apart as functools does - those
                # of an earlier call is served that call's object.  Eviction is not modelled (functools is trusted).
                key = (tuple(args), tuple(kwargs.items()))
                table = self.class_caches.setdefault(f.name, [])
                try:
                    for k_, o_ in table:
                        if k_ == key:
                            return o_
                    hashable = all(not isinstance(x, (list, dict, SetVal)) for x in list(args) + list(kwargs.values()))
                except Raised:
                    raise
                self._in_cache_fill = True
                try:
                    o_ = self.apply(f, args, kwargs, func, depth, node)
                finally:
                    self._in_cache_fill = False
                if hashable:
                    table.append((key, o_))
                    if len(table) > 4000:
                        del table[:1000]
                return o_
            init = self.repo.lookup_method(c, "__init__")
            new = self.repo.lookup_method(c, "__new__")
            if new is not None:
                # Python's construction protocol: cls.__new__(cls, *args) and, when it returns an instance of cls,
                # __init__ on whatever it returned (an interning __new__ hands back an existing object, which is then
                # re-initialised)
                if COV is not None and depth == 0:
                    DIRECT.add(new.qual)
                o = self.call_func(new, args, kwargs, ClassTok(f.name), depth + 1)
                if not (isinstance(o, Obj) and o.cls_name == f.name):
                    return o
            else:
                o = Obj(f.name)
            if init is not None:
                if COV is not None and depth == 0:
                    DIRECT.add(init.qual)
                self.call_func(init, args, kwargs, o, depth + 1)
            elif any("dataclass" in d for k in self.repo.mro(c) for d in k.decorators) or \
                    any(b.split(".")[-1] == "NamedTuple" for k in self.repo.mro(c) for b in k.bases):
                fields = []
                for k in reversed(self.repo.mro(c)):
                    for nm in k.order:
                        if nm in k.annots and nm not in fields and "ClassVar" not in ast.unparse(k.annots[nm]):
                            fields.append(nm)
                if len(args) > len(fields):
                    raise Raised("TypeError", "too many arguments")
                vals = dict(zip(fields, args))
                vals.update(kwargs)
                for nm in fields:
                    if nm not in vals:
                        d = self.repo.lookup_attr(c, nm)
                        if d is None:
                            raise Raised("TypeError", f"missing argument {nm}")
                        if isinstance(d, ast.Call) and dotted(d.func) == "field":
                            fac = [k.value for k in d.keywords if k.arg == "default_factory"]
                            dfl = [k.value for k in d.keywords if k.arg == "default"]
                            if fac:
                                vals[nm] = [] if ast.unparse(fac[0]) == "list" else {} if ast.unparse(fac[0]) == "dict" else None
                            elif dfl:
                                vals[nm] = self.eval(dfl[0], {}, func, depth)
                            else:
                                raise Raised("TypeError", f"missing argument {nm}")
                        else:
                            owner = [k for k in self.repo.mro(c) if nm in k.attrs][0]
                            vals[nm] = self.eval(d, {}, Func("<cls>", ast.parse("def f(): pass").body[0], owner.module), depth)
                    o.fields[nm] = vals[nm]
                o.fields["__dataclass_fields__"] = tuple(fields)
                if any(b.split(".")[-1] == "NamedTuple" for k in self.repo.mro(c) for b in k.bases):
                    o.fields["__namedtuple__"] = True  # a tuple: iterable, indexable, unpackable in field order
            elif args or kwargs:
                # a class of the repository without __init__ that is neither a dataclass nor a NamedTuple, called with
                # arguments: the evaluator does not know how it stores them - no verdict rather than a half-built object
                if not any(b.split(".")[-1] in BUILTIN_EXC or b.endswith(("Error", "Exception", "Warning")) for k in self.repo.mro(c) for b in k.bases):
                    raise Uninterpretable(f"construction of {f.name} with arguments but no modelled __init__")
            return o
        if isinstance(f, tuple) and f and f[0] == "builtin":
            return self.builtin(f[1], args, kwargs, func, depth)
        if isinstance(f, Opaque):
            return Opaque(f"{f.what}()")
        if isinstance(f, Obj):
            m_ = self.method(f, "__call__")
            if m_ is not None:
                return self.call_func(m_, args, kwargs, f, depth + 1)
            raise Raised("TypeError", f"'{f.cls_name}' object is not callable")
        raise Uninterpretable(f"call of {f!r}"[:300])

    def builtin(self, name, args, kwargs, func, depth):
        if name == "len":
            v = args[0]
            if isinstance(v, Obj):
                m = self.method(v, "__len__")
                if m is None:
                    raise Raised("TypeError", "no len")
                return self.call_func(m, [], {}, v, depth + 1)
            if isinstance(v, _Gen):
                raise Raised("TypeError", "len of generator")
            if isinstance(v, Opaque):
                raise Uninterpretable(f"len of {v}")
            return len(v)
        if name in ("min", "max"):
            vals = list(self.iterate(args[0])) if len(args) == 1 else list(args)
            if not vals:
                if "default" in kwargs:
                    return kwargs["default"]
                raise Raised("ValueError", "empty sequence")
            key = kwargs.get("key")
            if key is not None:
                keyed = [(self.apply(key, [x], {}, func, depth), x) for x in vals]
                best = keyed[0]
                for kx in keyed[1:]:
                    if (name == "min" and self.compare(ast.Lt(), kx[0], best[0], func, depth)) or \
                            (name == "max" and self.compare(ast.Gt(), kx[0], best[0], func, depth)):
                        best = kx
                return best[1]
            if any(isinstance(x, (Obj, EnumVal)) for x in vals):
                best = vals[0]
                for x in vals[1:]:
                    if self.compare(ast.Lt() if name == "min" else ast.Gt(), x, best, func, depth):
                        best = x
                return best
            return min(vals) if name == "min" else max(vals)
        if name == "abs":
            return abs(args[0])
        if name in ("divmod", "round", "ord", "chr", "pow"):
            return {"divmod": divmod, "round": round, "ord": ord, "chr": chr, "pow": pow}[name](*args)
        if name == "callable":
            return isinstance(args[0], tuple) and args[0] and args[0][0] in ("bound", "closure", "lambda", "native", "builtin", "pymethod")
        if name == "type":
            v = args[0]
            if isinstance(v, Obj):
                return ClassTok(v.cls_name)
            if isinstance(v, EnumVal):
                return ClassTok(v.cls)
            return ClassTok("set" if isinstance(v, SetVal) else type(v).__name__)
        if name == "isinstance":
            v, c = args
            cs = c if isinstance(c, tuple) and not (len(c) == 2 and c[0] in ("builtin", "native")) else (c,)
            for k in cs:
                if isinstance(k, ClassTok):
                    vn = v.cls_name if isinstance(v, Obj) else v.cls if isinstance(v, EnumVal) else type(v).__name__
                    if vn == k.name:
                        return True
                    if self.repo.has_cls(vn) and any(x.name == k.name for x in self.repo.mro(self.repo.cls(vn))):
                        return True
                elif isinstance(k, tuple) and k[0] == "native" and isinstance(k[1], type):
                    if isinstance(v, k[1]):
                        return True
                elif isinstance(k, tuple) and k[0] == "builtin":
                    tn = type(v).__name__
                    if isinstance(v, SetVal):
                        tn = "set"
                    if tn == k[1] or (k[1] == "object"):
                        return True
            return False
        if name == "str" or name == "repr":
            if not args:
                return ""
            return self.py_str(args[0], depth) if name == "str" else self.py_repr(args[0], depth)
        if name == "print":
            fh = kwargs.get("file")
            if isinstance(fh, list):
                fh.extend(" ".join(self.py_str(a, depth) for a in args).split("\n"))
            return None
        if name == "hash":
            # a real hash within this run (records hash per equality family, see Obj.__hash__); unhashable values refuse as in Python
            def hashable(v):
                if isinstance(v, Opaque):
                    raise Uninterpretable("hash of an opaque value")
                if isinstance(v, SetVal):
                    if not v.frozen:
                        raise Raised("TypeError", "unhashable type: 'set'")
                    return frozenset(hashable(x) for x in v)
                if isinstance(v, (list, dict)):
                    raise Raised("TypeError", f"unhashable type: '{type(v).__name__}'")
                if isinstance(v, tuple):
                    return tuple(hashable(x) for x in v)
                if isinstance(v, Obj):
                    m = self.method(v, "__hash__")
                    if m is not None:
                        return ("Obj", v.cls_name, self.call_func(m, [], {}, v, depth + 1))
                    return v
                if isinstance(v, EnumVal) and (self._is_intenum(v) or self._is_strenum(v)):
                    return v.value
                return v
            try:
                return hash(hashable(args[0]))
            except TypeError as ex:
                raise Raised("TypeError", str(ex))
        if name == "slice":
            return slice(*args)
        if name == "getattr":
            try:
                return self.getattr(args[0], args[1], func, depth)
            except Raised:
                if len(args) > 2:
                    return args[2]
                raise
        if name == "hasattr":
            try:
                self.getattr(args[0], args[1], func, depth)
                return True
            except Raised:
                return False
        if name == "int":
            if args and isinstance(args[0], Opaque):
                raise Uninterpretable(f"int of {args[0]!r}")
            if args and isinstance(args[0], EnumVal):
                if self._is_intenum(args[0]):
                    return int(args[0].value)
            try:
                return int(*args, **kwargs)
            except ValueError as ex:
                raise Raised("ValueError", str(ex))
            except TypeError as ex:
                raise Raised("TypeError", str(ex))
        if name in ("staticmethod", "classmethod") and len(args) == 1:
            # used as a function on a class-level value (e.g. `_key = staticmethod(attrgetter("start"))`): the wrapped callable
            return args[0]
        if name == "bool":
            return self.truth(args[0])
        if name == "sum":
            return sum(self.iterate(args[0]), *args[1:])
        if name == "any":
            return any(self.truth(x) for x in self.iterate(args[0]))
        if name == "all":
            return all(self.truth(x) for x in self.iterate(args[0]))
        if name in ("list", "tuple", "set", "frozenset"):
            items = self.iterate(args[0]) if args else []
            if name in ("set", "frozenset"):
                return self._dedupe(items, depth)
            if name == "list":
                if args and isinstance(args[0], SetVal) and len(items) > 1 and not all(isinstance(x, (int, float, type(None))) for x in items):
                    return HashOrdered(items)
                return list(items)
            return tuple(items) if name == "tuple" else list(items)
        if name == "sorted":
            import functools
            items = self.iterate(args[0])
            key = kwargs.get("key")
            rev = bool(kwargs.get("reverse", False))
            if key is not None:
                items = [(self.apply(key, [x], {}, func, depth), x) for x in items]
            else:
                items = [(x, x) for x in items]

            def cmp(p, q):
                if self.compare(ast.Lt(), p[0], q[0], func, depth):
                    return -1
                if self.compare(ast.Lt(), q[0], p[0], func, depth):
                    return 1
                return 0

            return [x for _, x in sorted(items, key=functools.cmp_to_key(cmp), reverse=rev)]
        if name == "defaultdict":
            d = DDict()
            d.factory = args[0] if args else None
            return d
        if name == "attrgetter":
            names = list(args)
            def getter(x, names=names):
                vals = []
                for nm_ in names:
                    cur = x
                    for part in nm_.split("."):
                        cur = self.getattr(cur, part, func, depth)
                    vals.append(cur)
                return vals[0] if len(vals) == 1 else tuple(vals)
            return ("native", getter)
        if name == "itemgetter":
            keys = list(args)
            return ("native", (lambda x, keys=keys: x[keys[0]] if len(keys) == 1 else tuple(x[k] for k in keys)))
        if name == "methodcaller":
            mname, margs = args[0], list(args[1:])
            return ("native", lambda x: self.apply(self.getattr(x, mname, func, depth), margs, dict(kwargs), func, depth))
        if name == "property":
            return ("property", args[0] if args else kwargs.get("fget"))
        if name == "dc_replace":
            rec = args[0]
            if not (isinstance(rec, Obj) and rec.fields.get("__dataclass_fields__") is not None):
                raise Raised("TypeError", "replace() should be called on dataclass instances")
            return self.apply(("recordfn", "_replace", rec), [], kwargs, func, depth)
        if name == "partial":
            f0, a0, k0 = args[0], list(args[1:]), dict(kwargs)
            return ("native", lambda *a, **k: self.apply(f0, a0 + list(a), {**k0, **k}, func, depth))
        if name == "cast":
            return args[1]
        if name == "map":
            rows = self.builtin("zip", list(args[1:]), {}, func, depth) if len(args) > 2 else [(x,) for x in self.iterate(args[1])]
            return _Gen([self.apply(args[0], list(xs), {}, func, depth) for xs in rows])
        if name in ("deepcopy", "copy"):
            def dc(o, memo, deep):
                if id(o) in memo:
                    return memo[id(o)]
                if isinstance(o, Obj):
                    m_ = self.method(o, "__deepcopy__" if deep else "__copy__") if self.repo.has_cls(o.cls_name) else None
                    if m_ is not None:
                        raise Uninterpretable(f"custom {'deep' if deep else ''}copy of {o.cls_name}")
                    n_ = Obj(o.cls_name)
                    memo[id(o)] = n_
                    for k_, v_ in o.fields.items():
                        n_.fields[k_] = dc(v_, memo, deep) if deep else v_
                    return n_
                if not deep:
                    return SetVal(o) if isinstance(o, SetVal) else list(o) if isinstance(o, list) else dict(o) if isinstance(o, dict) else o
                if isinstance(o, SetVal):
                    return SetVal([dc(x, memo, deep) for x in o])
                if isinstance(o, list):
                    r_ = type(o)() if type(o) is not list else []
                    memo[id(o)] = r_
                    r_.extend(dc(x, memo, deep) for x in o)
                    return r_
                if isinstance(o, tuple):
                    return tuple(dc(x, memo, deep) for x in o)
                if isinstance(o, dict):
                    r_ = {}
                    memo[id(o)] = r_
                    for k_, v_ in o.items():
                        r_[k_] = dc(v_, memo, deep)
                    return r_
                return o
            return dc(args[0], {}, name == "deepcopy")
        if name == "groupby":
            # eager model of itertools.groupby: consecutive runs of equal keys; each group is its own single-use iterator
            items = self.iterate(args[0])
            keyf = kwargs.get("key", args[1] if len(args) > 1 else None)
            runs = []
            for x in items:
                kx = x if keyf is None else self.apply(keyf, [x], {}, func, depth)
                if runs and self.equals(runs[-1][0], kx, depth):
                    runs[-1][1].append(x)
                else:
                    runs.append((kx, [x]))
            return _Gen([(kx, _Gen(xs)) for kx, xs in runs])
        if name == "chain_from_iterable":
            out = []
            for a in self.iterate(args[0]):
                out.extend(self.iterate(a))
            return _Gen(out)
        if name == "astuple":
            return tuple(args[0].fields[k] for k in args[0].fields["__dataclass_fields__"])
        if name == "islice":
            if isinstance(args[0], (_SteppedGen, _Endless)):
                sl = slice(*args[1:])
                if sl.stop is None:
                    raise Uninterpretable("islice without a stop on an endless generator")
                seq = []
                for _ in range(sl.stop):
                    try:
                        seq.append(args[0].next_item())
                    except _Exhausted:
                        break
                return _Gen(seq[sl])
            seq = self.iterate(args[0])
            return _Gen(seq[slice(*args[1:])])
        if name == "chain":
            if any(isinstance(a, (_Endless, _SteppedGen)) for a in args):
                # a chain that runs into an endless operand is endless itself: drawn lazily
                def walk(args=list(args)):
                    for a in args:
                        if isinstance(a, (_Endless, _SteppedGen)):
                            yield from a.lazy()
                        else:
                            yield from self.iterate(a)
                g_ = walk()
                return _Endless(lambda i, g_=g_: next(g_))
            out = []
            for a in args:
                out.extend(self.iterate(a))
            return _Gen(out)
        if name == "reduce":
            seq = self.iterate(args[1])
            if len(args) > 2:
                acc = args[2]
            elif seq:
                acc, seq = seq[0], seq[1:]
            else:
                raise Raised("TypeError", "reduce of empty sequence")
            for x in seq:
                acc = self.apply(args[0], [acc, x], {}, func, depth)
            return acc
        if name == "repeat":
            if len(args) > 1 or "times" in kwargs:
                return _Gen([args[0]] * (args[1] if len(args) > 1 else kwargs["times"]))
            return _Endless(lambda i, v=args[0]: v)
        if name == "count":
            a0 = args[0] if args else kwargs.get("start", 0)
            st_ = args[1] if len(args) > 1 else kwargs.get("step", 1)
            return _Endless(lambda i, a0=a0, st_=st_: a0 + i * st_)
        if name == "zip_longest":
            import itertools as _it
            return list(_it.zip_longest(*[self.iterate(a) for a in args]))
        if name == "reversed":
            return _Gen(list(reversed(self.iterate(args[0]))))
        if name == "zip":
            if any(isinstance(a, _Gen) or (hasattr(a, "__next__") and not isinstance(a, (Obj, _Gen))) for a in args) \
                    and not any(isinstance(a, _SteppedGen) for a in args):
                # one-shot iterators (generator objects, itertools objects) are drawn from lazily, operand by operand, and zip
                # stops at the first exhausted operand - what is left in the other iterators stays there for the next consumer
                pulls = []
                for a in args:
                    if isinstance(a, _Gen):
                        pulls.append(a.next_item)
                    elif hasattr(a, "__next__") and not isinstance(a, Obj):
                        def pull(a=a):
                            try:
                                return next(a)
                            except StopIteration:
                                raise _Exhausted()
                        pulls.append(pull)
                    else:
                        items_ = list(self.iterate(a))
                        def pull(items_=items_):
                            if not items_:
                                raise _Exhausted()
                            return items_.pop(0)
                        pulls.append(pull)
                out = []
                for _ in range(100001):
                    row = []
                    try:
                        for pl in pulls:
                            row.append(pl())
                    except _Exhausted:
                        return out
                    out.append(tuple(row))
                raise Uninterpretable("zip of endless iterators")
            if any(isinstance(a, _SteppedGen) for a in args):
                # an endless generator zipped with finite operands: stepped as far as the shortest finite operand, in
                # argument order (zip asks its operands left to right and stops at the first exhausted one)
                cols = [a if isinstance(a, _SteppedGen) else list(self.iterate(a)) for a in args]
                out = []
                while True:
                    row = []
                    for c in cols:
                        try:
                            row.append(c.next_item() if isinstance(c, _SteppedGen) else c.pop(0))
                        except (_Exhausted, IndexError):
                            return out
                    out.append(tuple(row))
            return list(zip(*[self.iterate(a) for a in args]))
        if name == "filter":
            return _Gen([x for x in self.iterate(args[1]) if self.truth(x if args[0] is None else self.apply(args[0], [x], {}, func, depth))])
        if name == "range":
            return list(range(*args))
        if name == "enumerate":
            return list(enumerate(self.iterate(args[0]), *(args[1:]), **kwargs))
        if name == "dict":
            return dict(*args, **kwargs)
        if name == "object" and not args:
            return Obj("object")  # a fresh sentinel: equal to itself only
        if name == "iter":
            if len(args) == 2:
                # iter(callable, sentinel): call until the sentinel comes back (bounded)
                out_ = []
                for _ in range(10001):
                    v_ = self.apply(args[0], [], {}, func, depth)
                    if self.equals(v_, args[1], depth):
                        return _Gen(out_)
                    out_.append(v_)
                raise Uninterpretable("iter(callable, sentinel) bound")
            if isinstance(args[0], Obj) and self.method(args[0], "__iter__") is None and self.method(args[0], "__next__") is not None:
                return args[0]
            if isinstance(args[0], Obj) and self.method(args[0], "__iter__") is not None and not args[0].fields.get("__namedtuple__"):
                r_ = self.call_func(self.method(args[0], "__iter__"), [], {}, args[0], depth + 1)
                return r_ if isinstance(r_, (_Gen, Obj)) else _Gen(self.iterate(r_))
            return _Gen(self.iterate(args[0]))
        if name == "next":
            g = args[0]
            if isinstance(g, Obj) and self.method(g, "__next__") is not None:
                try:
                    return self.call_func(self.method(g, "__next__"), [], {}, g, depth + 1)
                except Raised as ex:
                    if ex.exc_name == "StopIteration" and len(args) > 1:
                        return args[1]
                    raise
            if isinstance(g, _Gen):
                try:
                    return g.next_item()
                except _Exhausted:
                    pass
                if len(args) > 1:
                    return args[1]
                raise Raised("StopIteration")
            if hasattr(g, "__next__"):
                try:
                    return next(g)
                except StopIteration:
                    if len(args) > 1:
                        return args[1]
                    raise Raised("StopIteration")
            raise Uninterpretable("next on non-iterator")
        if name in BUILTIN_EXC:
            return Opaque(name)
        raise Uninterpretable(f"builtin {name}")


class _Gen:
    """a generator / iterator object: evaluated eagerly, consumed once (a second pass over the same object - e.g. a memoised
    generator - sees nothing, as in Python)"""

    def __init__(self, items):
        self.items = list(items)

    def next_item(self):
        if self.items:
            return self.items.pop(0)
        raise _Exhausted()

    def take(self):
        out, self.items = self.items, []
        return out

    def lazy(self):
        while self.items:
            yield self.items.pop(0)

    def __iter__(self):
        return iter(self.take())


class _Exhausted(Exception):
    pass


class _Endless(_Gen):
    """itertools.repeat(x) / count(): an endless one-shot iterator; the next element is a function of how many were drawn.
    Consumers that stop on another operand (zip, map with several iterables, islice, next) draw what they need; draining it
    is refused."""

    LIMIT = 200000

    def __init__(self, item_at):
        self.items = []
        self._item_at = item_at
        self._i = 0

    def next_item(self):
        if self.items:
            return self.items.pop(0)
        if self._i > self.LIMIT:
            raise Uninterpretable("endless iterator drawn beyond the bound")
        v = self._item_at(self._i)
        self._i += 1
        return v

    def take(self):
        raise Uninterpretable("an endless iterator (repeat / count) is drained")

    def lazy(self):
        while True:
            yield self.next_item()


class _GenClosed(BaseException):
    pass


def _is_endless_generator(func):
    """a generator function whose body has a `while <true constant>:` loop that yields: it never finishes on its own and is
    meant to be stepped with next() (or cut off by the consumer)"""
    v = getattr(func, "_endless", None)
    if v is None:
        v = False
        for st in walk_shallow(func.node):
            if isinstance(st, ast.While) and isinstance(st.test, ast.Constant) and st.test.value:
                if any(isinstance(x, (ast.Yield, ast.YieldFrom)) for b in st.body for x in walk_shallow(b)):
                    v = True
        func._endless = v
    return v


class _GenState:
    """body side of a stepped generator (referenced by the body's thread and environment; never references the handle, so
    dropping the handle is observable)"""

    def __init__(self, body):
        import threading
        self.body = body
        self.resume = threading.Semaphore(0)
        self.produced = threading.Semaphore(0)
        self.thread = None
        self.done = False
        self.closing = False
        self.msg = None

    # sink protocol used by Yield / YieldFrom (called in the body's thread)
    def append(self, v):
        self.msg = ("yield", v)
        self.produced.release()
        self.resume.acquire()
        if self.closing:
            raise _GenClosed()

    def extend(self, vs):
        for v in vs:
            self.append(v)

    def run(self):
        self.resume.acquire()
        try:
            if not self.closing:
                self.body(self)
            self.msg = ("done", None)
        except _GenClosed:
            self.msg = ("done", None)
        except BaseException as ex:  # handed to the consumer
            self.msg = ("exc", ex)
        self.done = True
        self.body = None
        self.produced.release()

    def close(self):
        if self.thread is not None and not self.done:
            self.closing = True
            self.resume.release()
            self.thread.join(timeout=5)
        self.done = True


class _SteppedGen(_Gen):
    """an endless generator: the body runs in its own thread and is advanced one `yield` at a time; exactly one of the two
    threads runs at any moment, so the interpreter state is never shared concurrently.  Dropping the object (or exhausting the
    step budget) unwinds the body."""

    MAX_STEPS = 100000

    def __init__(self, body):
        self.items = []
        self._st = _GenState(body)
        self._n = 0

    def next_item(self):
        import threading
        st = self._st
        if self.items:
            return self.items.pop(0)
        if st.done:
            raise _Exhausted()
        self._n += 1
        if self._n > self.MAX_STEPS:
            raise Uninterpretable("endless generator stepped beyond the bound")
        if st.thread is None:
            prev = threading.stack_size(256 * 1024 * 1024)
            try:
                st.thread = threading.Thread(target=st.run, daemon=True)
                st.thread.start()
            finally:
                threading.stack_size(prev)
        st.resume.release()
        st.produced.acquire()
        kind, v = st.msg
        st.msg = None
        if kind == "yield":
            return v
        if kind == "exc":
            raise v
        raise _Exhausted()

    def take(self):
        return list(self.lazy())

    def lazy(self):
        while True:
            try:
                yield self.next_item()
            except _Exhausted:
                return

    def close(self):
        self._st.close()

    def __del__(self):
        try:
            self._st.close()
        except Exception:
            pass


# ------------------------------------------------------------------------------------------
# order types
# ------------------------------------------------------------------------------------------

class other_hash_seed:
    """context manager: inside it every modelled set is iterated in the opposite order (a different, equally valid order)"""

    def __enter__(self):
        self.prev = SetVal.reverse_iteration
        SetVal.reverse_iteration = True
        return self

    def __exit__(self, *a):
        SetVal.reverse_iteration = self.prev
        return False


def weak_orderings(symbols: List[str]):
    """every weak ordering (ordered set partition) of the symbols, as a dict symbol -> rank (0..k-1)"""
    n = len(symbols)

    def rec(remaining):
        if not remaining:
            yield []
            return
        # choose the non-empty lowest block
        rem = list(remaining)
        for r in range(1, len(rem) + 1):
            for block in itertools.combinations(rem, r):
                rest = [x for x in rem if x not in block]
                for tail in rec(rest):
                    yield [list(block)] + tail

    for blocks in rec(symbols):
        yield {s: i for i, b in enumerate(blocks) for s in b}


def comparison_only(node, symbols_pred, allow_len_zero=True) -> Optional[str]:
    """Syntactic side condition for order-type invariance: integer symbols (identified by symbols_pred on
    a dotted name / `len(x)` source) may occur only as operands of comparisons, as arguments of min/max, as
    plain copies (assignment right-hand sides, call arguments, return values).  Returns None if satisfied,
    else a description of the offending arithmetic."""
    for n in ast.walk(node):
        if isinstance(n, (ast.BinOp, ast.AugAssign)):
            operands = [n.left, n.right] if isinstance(n, ast.BinOp) else [n.target, n.value]
            for o in operands:
                for sub in ast.walk(o):
                    d = dotted(sub) if not isinstance(sub, ast.Call) else src(sub)
                    if d and symbols_pred(d):
                        return f"arithmetic on integer symbol {d}: {src(n)}"
        if isinstance(n, ast.UnaryOp) and isinstance(n.op, ast.USub):
            for sub in ast.walk(n.operand):
                d = dotted(sub)
                if d and symbols_pred(d):
                    return f"negation of integer symbol {d}"
    return None


# ------------------------------------------------------------------------------------------
# standard hooks
# ------------------------------------------------------------------------------------------

def _noop(interp, selfv, args, kwargs):
    return None


def _codon_ctor(interp, selfv, args, kwargs):
    v = args[0] if args else kwargs.get("codon")
    if isinstance(v, Obj) and v.cls_name == "Codon":
        v = v.fields["_val"]
    key = str(v).upper()
    pool = interp.__dict__.setdefault("_codon_pool", {})
    if key not in pool:
        pool[key] = Obj("Codon", _val=key)  # the library interns codons (Codon.__new__/_singletons_)
    return pool[key]


def std_interp(repo, extra_hooks=None, **kw) -> Interp:
    hooks = {
        "ObjectValidation.require_object_has_type": _noop,
    }
    if extra_hooks:
        hooks.update(extra_hooks)
    return Interp(repo, hooks, **kw)


def module_const(interp: Interp, mod_name: str, name: str):
    """E2: fold a module-level constant from its AST"""
    m = interp.repo.module(mod_name)
    if name not in m.assigns:
        from .model import AnchorMissing
        raise AnchorMissing(f"{mod_name}:{name}")
    dummy = Func("<module>", ast.parse("def f(): pass").body[0], m)
    return interp.eval(m.assigns[name], {}, dummy, 0)
