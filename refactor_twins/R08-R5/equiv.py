"""
Equivalence harness for the serialisation / identifier code of BioCantor (property C08).

Usage (from the worktree root):

    PYTHONHASHSEED=0 /venv/bin/python _refactor/R1/equiv.py dump /tmp/pristine.json     # on pristine code
    git apply _refactor/R1/patch.diff
    PYTHONHASHSEED=0 /venv/bin/python _refactor/R1/equiv.py dump /tmp/patched.json      # on patched code
    /venv/bin/python _refactor/R1/equiv.py compare /tmp/pristine.json /tmp/patched.json

Every observation is recorded as a string (repr of the value, or the exception type + message), keyed by a label.
"""
import os
import sys

sys.path.insert(0, os.getcwd())  # run from the worktree root

import inscripta.biocantor.location  # noqa: F401,E402  (must come first: circular import otherwise)

import json
import pickle
import random
import types
from uuid import UUID

from inscripta.biocantor import AbstractParent
from inscripta.biocantor.gene.biotype import Biotype
from inscripta.biocantor.gene.cds import CDSInterval
from inscripta.biocantor.gene.cds_frame import CDSFrame, CDSPhase
from inscripta.biocantor.gene.collections import AnnotationCollection
from inscripta.biocantor.gene.feature import FeatureInterval, FeatureIntervalCollection
from inscripta.biocantor.gene.gene import GeneInterval
from inscripta.biocantor.gene.transcript import TranscriptInterval
from inscripta.biocantor.gene.variants import VariantInterval, VariantIntervalCollection
from inscripta.biocantor.location.location_impl import SingleInterval, CompoundInterval
from inscripta.biocantor.location.strand import Strand
from inscripta.biocantor.parent.parent import Parent, SequenceType
from inscripta.biocantor.sequence.alphabet import Alphabet
from inscripta.biocantor.sequence.sequence import Sequence
from inscripta.biocantor.util import hashing
from inscripta.biocantor.util.hashing import digest_object, _encode_object_for_digest


# ---------------------------------------------------------------------------------------------------------------
# inscripta.biocantor.io.parser cannot be imported in this environment (io/models.py fails on the installed
# marshmallow). The library imports two tiny functions from it lazily; provide verbatim copies through a shim module.
# ---------------------------------------------------------------------------------------------------------------
def seq_to_parent(seq, alphabet=Alphabet.NT_EXTENDED_GAPPED, seq_id=None, seq_type=SequenceType.CHROMOSOME):
    return Parent(
        sequence=Sequence(seq, alphabet, type=seq_type, id=seq_id), location=SingleInterval(0, len(seq), Strand.PLUS)
    )


def seq_chunk_to_parent(seq, sequence_name, start, end, strand=Strand.PLUS, alphabet=Alphabet.NT_EXTENDED_GAPPED):
    chunk_id = f"{sequence_name}:{start}-{end}"
    return Parent(
        id=chunk_id,
        sequence=Sequence(
            seq,
            alphabet,
            id=chunk_id,
            type=SequenceType.SEQUENCE_CHUNK,
            parent=Parent(
                location=SingleInterval(
                    start, end, strand, parent=Parent(id=sequence_name, sequence_type=SequenceType.CHROMOSOME)
                )
            ),
        ),
    )


_shim = types.ModuleType("inscripta.biocantor.io.parser")
_shim.seq_to_parent = seq_to_parent
_shim.seq_chunk_to_parent = seq_chunk_to_parent
sys.modules["inscripta.biocantor.io.parser"] = _shim

RESULTS = {}


def show(val):
    """Stable, type-preserving rendering of a value."""
    if isinstance(val, dict):
        return "{" + ", ".join(f"{show(k)}: {show(v)}" for k, v in val.items()) + "}"
    if isinstance(val, list):
        return "[" + ", ".join(show(v) for v in val) + "]"
    if isinstance(val, tuple):
        return "(" + ", ".join(show(v) for v in val) + ",)"
    if isinstance(val, (set, frozenset)):
        # iteration order is observable, keep it
        return type(val).__name__ + "<" + ", ".join(show(v) for v in val) + ">"
    if isinstance(val, AbstractParent):  # Parent itself is an lru_cache wrapper, not a class
        return f"Parent(id={val.id!r}, type={val.sequence_type!r}, loc={val.location!r}, seq={val.sequence!r})"
    return f"{type(val).__name__}:{val!r}"


def record(label, fn):
    assert label not in RESULTS, label
    try:
        RESULTS[label] = show(fn())
    except Exception as e:  # noqa
        RESULTS[label] = f"EXC {type(e).__name__}: {e}"


# ---------------------------------------------------------------------------------------------------------------
# parents
# ---------------------------------------------------------------------------------------------------------------
rng = random.Random(20241003)
GENOME = "".join(rng.choice("ACGT") for _ in range(120))


def parents():
    return {
        "none": None,
        "chrom_seq": seq_to_parent(GENOME, seq_id="chr1"),
        "chrom_seq_strict": Parent(
            id="chr1", sequence=Sequence(GENOME, Alphabet.NT_STRICT), sequence_type=SequenceType.CHROMOSOME
        ),
        "chrom_noseq": Parent(id="chr1", sequence_type=SequenceType.CHROMOSOME),
        "plain": Parent(id="whatever"),
        "other_type": Parent(id="chr1", sequence_type="SomeOtherType"),
        "other_type_seq": Parent(
            id="chr1", sequence=Sequence(GENOME, Alphabet.NT_STRICT), sequence_type="SomeOtherType"
        ),
        "chunk_0_120": seq_chunk_to_parent(GENOME, "chr1", 0, 120),
        "chunk_10_90": seq_chunk_to_parent(GENOME[10:90], "chr1", 10, 90),
        "chunk_30_70": seq_chunk_to_parent(GENOME[30:70], "chr1", 30, 70, alphabet=Alphabet.NT_STRICT),
        "chunk_100_120": seq_chunk_to_parent(GENOME[100:120], "chr1", 100, 120),
    }


QUALIFIER_SETS = [
    None,
    {},
    {"note": ["b", "a", "c"], "gene": ["x"]},
    {"gene": ["x"], "note": ["c", "a", "b"]},
    {"k": [1, 2, 10], "flag": [True], "f": [1.5, "1.5"], "mixed": ["B", "a", "A", "b"]},
    {"z": [], "y": ["only"]},
    {1: ["int key"], 2: ["another"]},
]

GUID = UUID("12345678-1234-5678-1234-567812345678")
GUID2 = UUID("87654321-4321-8765-4321-876543218765")


def observe_interval(label, obj, parent_items):
    """Observations common to all interval classes."""
    record(f"{label}/str", lambda: str(obj))
    record(f"{label}/repr", lambda: repr(obj))
    record(f"{label}/guid", lambda: obj.guid)
    record(f"{label}/hash", lambda: hash(obj) == hash((obj.guid, obj.chunk_relative_location)))
    record(f"{label}/to_dict", lambda: obj.to_dict())
    record(f"{label}/to_dict_pos", lambda: obj.to_dict(True))
    record(f"{label}/to_dict_rel", lambda: obj.to_dict(chromosome_relative_coordinates=False))
    record(f"{label}/qualifiers", lambda: obj.qualifiers)
    record(f"{label}/export_list", lambda: obj._export_qualifiers_to_list())
    record(f"{label}/parent_to_dict", lambda: obj._parent_to_dict())
    record(f"{label}/parent_to_dict_rel", lambda: obj._parent_to_dict(False))
    record(f"{label}/identifiers", lambda: (obj.identifiers, obj.identifiers_dict))
    record(f"{label}/id_name", lambda: (obj.id, obj.name))
    record(f"{label}/export_qualifiers", lambda: obj.export_qualifiers())
    record(f"{label}/len", lambda: len(obj))

    def rt():
        o2 = type(obj).from_dict(obj.to_dict(), obj._parent_or_seq_chunk_parent)
        return (o2 == obj, o2.guid, str(o2), o2.to_dict(), o2.chunk_relative_location)

    record(f"{label}/roundtrip", rt)

    def rt_noparent():
        o2 = type(obj).from_dict(obj.to_dict())
        return (o2 == obj, o2.guid, str(o2), o2.to_dict(), o2.chunk_relative_location)

    record(f"{label}/roundtrip_noparent", rt_noparent)

    def rt_rel():
        o2 = type(obj).from_dict(obj.to_dict(chromosome_relative_coordinates=False))
        return (o2.guid, str(o2), o2.to_dict())

    record(f"{label}/roundtrip_rel", rt_rel)
    for pname, par in parent_items:
        if par is None:
            continue

        def lift(par=par):
            o2 = obj.liftover_to_parent_or_seq_chunk_parent(par)
            return (o2.guid, str(o2), o2.to_dict(), o2.to_dict(False) if not o2.chunk_relative_location.is_empty else 0)

        record(f"{label}/liftover[{pname}]", lift)


# ---------------------------------------------------------------------------------------------------------------
# builders
# ---------------------------------------------------------------------------------------------------------------
TX_SPECS = [
    # exon_starts, exon_ends, strand, cds_starts, cds_ends, cds_frames
    ([12], [28], Strand.PLUS, None, None, None),
    ([12], [28], Strand.MINUS, [14], [26], [CDSFrame.ZERO]),
    ([12, 40, 60], [28, 50, 75], Strand.PLUS, [15, 40, 60], [28, 50, 70], [CDSFrame.ZERO, CDSFrame.ONE, CDSFrame.TWO]),
    ([12, 40, 60], [28, 50, 75], Strand.MINUS, [15, 40, 60], [28, 50, 70], [CDSFrame.TWO, CDSFrame.ZERO, CDSFrame.ONE]),
    ([12, 40, 60], [28, 50, 75], Strand.MINUS, None, None, None),
    ([35, 52], [48, 66], Strand.PLUS, [41], [47], [CDSFrame.ONE]),
    ([2, 20, 95], [8, 33, 118], Strand.PLUS, [20, 95], [33, 110], [CDSFrame.ZERO, CDSFrame.ONE]),
    ([2, 20, 95], [8, 33, 118], Strand.MINUS, [4, 20], [8, 30], [CDSFrame.ONE, CDSFrame.ZERO]),
    ([31, 45], [45, 69], Strand.PLUS, [31, 45], [45, 69], [CDSFrame.ZERO, CDSFrame.TWO]),  # adjacent blocks
    ([101], [119], Strand.MINUS, [101], [119], [CDSFrame.ZERO]),
]


def build_transcripts(pname, par):
    out = []
    for i, (es, ee, strand, cs, ce, cf) in enumerate(TX_SPECS):
        quals = QUALIFIER_SETS[i % len(QUALIFIER_SETS)]
        kwargs = dict(
            exon_starts=list(es),
            exon_ends=list(ee),
            strand=strand,
            cds_starts=list(cs) if cs else None,
            cds_ends=list(ce) if ce else None,
            cds_frames=list(cf) if cf else None,
            qualifiers=quals,
            is_primary_tx=[None, True, False][i % 3],
            transcript_id=f"tx{i}" if i % 2 else None,
            transcript_symbol=f"sym{i}" if i % 3 else None,
            transcript_type=[None, Biotype.protein_coding, Biotype.ncRNA][i % 3],
            sequence_guid=GUID if i % 4 == 0 else None,
            sequence_name="chr1" if i % 2 == 0 else None,
            protein_id=f"prot{i}" if cs and i % 2 == 0 else None,
            product=f"product {i}" if cs else None,
            guid=GUID2 if i == 5 else None,
            transcript_guid=GUID if i == 6 else None,
            parent_or_seq_chunk_parent=par,
        )
        try:
            out.append((f"tx[{pname}][{i}]", TranscriptInterval(**kwargs)))
        except Exception as e:  # noqa
            RESULTS[f"tx[{pname}][{i}]/CONSTRUCT"] = f"EXC {type(e).__name__}: {e}"
    return out


FEAT_SPECS = [
    ([5], [9], Strand.PLUS),
    ([14, 33], [20, 47], Strand.MINUS),
    ([14, 33, 80], [20, 47, 99], Strand.PLUS),
    ([36], [64], Strand.UNSTRANDED),
    ([50, 60, 70], [55, 65, 75], Strand.MINUS),
    ([105], [112], Strand.PLUS),
]


def build_features(pname, par):
    out = []
    for i, (s, e, strand) in enumerate(FEAT_SPECS):
        kwargs = dict(
            interval_starts=list(s),
            interval_ends=list(e),
            strand=strand,
            qualifiers=QUALIFIER_SETS[(i + 2) % len(QUALIFIER_SETS)],
            sequence_guid=GUID if i % 3 == 0 else None,
            sequence_name="chr1" if i % 2 else None,
            feature_types=[None, ["promoter"], ["b_type", "a_type", "C_type"], []][i % 4],
            feature_name=f"feat{i}" if i % 2 == 0 else None,
            feature_id=f"fid{i}" if i % 3 else None,
            guid=GUID2 if i == 4 else None,
            feature_guid=GUID if i == 1 else None,
            is_primary_feature=[None, True, False][i % 3],
            parent_or_seq_chunk_parent=par,
        )
        try:
            out.append((f"feat[{pname}][{i}]", FeatureInterval(**kwargs)))
        except Exception as e:  # noqa
            RESULTS[f"feat[{pname}][{i}]/CONSTRUCT"] = f"EXC {type(e).__name__}: {e}"
    return out


VAR_SPECS = [
    (16, 17, "G", "SNV"),
    (41, 42, "GGC", "insertion"),
    (62, 66, "T", "deletion"),
    (103, 105, "", "deletion"),
]


def build_variants(pname, par):
    out = []
    for i, (s, e, seq, vt) in enumerate(VAR_SPECS):
        try:
            v = VariantInterval(
                s,
                e,
                seq,
                vt,
                phase_block=i if i % 2 else None,
                guid=GUID2 if i == 3 else None,
                variant_guid=GUID if i == 1 else None,
                variant_name=f"var{i}" if i % 2 == 0 else None,
                variant_id=f"vid{i}" if i else None,
                qualifiers=QUALIFIER_SETS[(i + 3) % len(QUALIFIER_SETS)],
                parent_or_seq_chunk_parent=par,
            )
            out.append((f"var[{pname}][{i}]", v))
        except Exception as e:  # noqa
            RESULTS[f"var[{pname}][{i}]/CONSTRUCT"] = f"EXC {type(e).__name__}: {e}"
    return out


def observe_collection_extras(label, coll):
    record(f"{label}/children_guids", lambda: sorted(str(x) for x in coll.children_guids))
    record(f"{label}/children_guids_raw", lambda: coll.children_guids)
    record(f"{label}/iter", lambda: [str(x) for x in coll])
    for meth in (
        "get_merged_feature",
        "get_merged_transcript",
        "get_merged_cds",
        "get_primary_feature",
        "get_primary_transcript",
        "get_primary_cds",
    ):
        if hasattr(coll, meth):

            def call(meth=meth):
                r = getattr(coll, meth)()
                if r is None:
                    return None
                return (str(r), r.guid, r.to_dict(), r.chunk_relative_location, r.qualifiers)

            record(f"{label}/{meth}", call)
    if hasattr(coll, "guid_map"):
        guids = list(coll.guid_map)

        def q(ids):
            r = coll.query_by_guids(ids)
            return None if r is None else (repr(r), r.guid, r.to_dict(), r.chunk_relative_location)

        record(f"{label}/query_first", lambda: q(guids[0]))
        record(f"{label}/query_first_list", lambda: q(guids[:1]))
        record(f"{label}/query_rev", lambda: q(list(reversed(guids))))
        record(f"{label}/query_none", lambda: q([GUID]))
        record(f"{label}/query_empty", lambda: q([]))


def main_objects():
    pars = parents()
    pitems = list(pars.items())
    lift_targets = [(k, v) for k, v in pitems if k in ("chrom_seq", "chrom_noseq", "chunk_10_90", "chunk_30_70")]
    for pname, par in pitems:
        txs = build_transcripts(pname, par)
        feats = build_features(pname, par)
        vars_ = build_variants(pname, par)
        for label, obj in txs + feats + vars_:
            observe_interval(label, obj, lift_targets)
        # CDS intervals alone
        for label, tx in txs:
            if tx.cds is not None:
                clabel = label.replace("tx[", "cds[")
                observe_interval(clabel, tx.cds, lift_targets)
                record(f"{clabel}/frames", lambda tx=tx: (tx.cds.frames, tx.cds.chunk_relative_frames))
        # extra CDS construction paths (phases, qualifiers, guid)
        for j, (s, e, strand, fr) in enumerate(
            [
                ([15, 40], [28, 50], Strand.PLUS, [CDSPhase.ZERO, CDSPhase.TWO]),
                ([15, 40], [28, 50], Strand.MINUS, [CDSFrame.ONE, CDSFrame.ZERO]),
                ([33], [66], Strand.PLUS, [CDSPhase.ONE]),
            ]
        ):

            def mk(s=s, e=e, strand=strand, fr=fr, j=j):
                return CDSInterval(
                    list(s),
                    list(e),
                    strand,
                    list(fr),
                    sequence_guid=GUID if j else None,
                    sequence_name="chr1",
                    protein_id=f"p{j}" if j != 1 else None,
                    product="prod" if j else None,
                    qualifiers=QUALIFIER_SETS[(j + 2) % len(QUALIFIER_SETS)],
                    guid=GUID2 if j == 2 else None,
                    parent_or_seq_chunk_parent=par,
                )

            try:
                observe_interval(f"cds_alone[{pname}][{j}]", mk(), lift_targets)
            except Exception as ex:  # noqa
                RESULTS[f"cds_alone[{pname}][{j}]/CONSTRUCT"] = f"EXC {type(ex).__name__}: {ex}"

        # genes: groups of transcripts
        tx_objs = [t for _, t in txs]
        gene_groups = [
            tx_objs[0:1],
            tx_objs[2:5],
            tx_objs[5:8],
            [tx_objs[0], tx_objs[4]],
            tx_objs[8:10],
            [tx_objs[2], tx_objs[5], tx_objs[6]],  # all plus strand, all coding
            [tx_objs[3], tx_objs[7], tx_objs[9]],  # all minus strand, all coding
        ]
        genes = []
        for gi, group in enumerate(gene_groups):
            # exactly one primary at most
            if sum(1 for t in group if t.is_primary_tx) > 1:
                group = group[:1]
            try:
                g = GeneInterval(
                    transcripts=group,
                    guid=GUID if gi == 3 else None,
                    gene_id=f"gene{gi}" if gi % 2 == 0 else None,
                    gene_symbol=f"gsym{gi}" if gi % 3 else None,
                    gene_type=[Biotype.protein_coding, None, Biotype.lncRNA][gi % 3],
                    locus_tag=f"lt{gi}" if gi else None,
                    qualifiers=QUALIFIER_SETS[(gi + 1) % len(QUALIFIER_SETS)],
                    sequence_name="chr1" if gi % 2 == 0 else None,
                    sequence_guid=GUID2 if gi == 1 else None,
                    parent_or_seq_chunk_parent=par,
                )
            except Exception as ex:  # noqa
                RESULTS[f"gene[{pname}][{gi}]/CONSTRUCT"] = f"EXC {type(ex).__name__}: {ex}"
                continue
            genes.append(g)
            observe_interval(f"gene[{pname}][{gi}]", g, lift_targets)
            observe_collection_extras(f"gene[{pname}][{gi}]", g)

        feat_objs = [f for _, f in feats]
        fcs = []
        for fi, group in enumerate([feat_objs[0:2], feat_objs[2:5], feat_objs[5:6], [feat_objs[3]]]):
            if sum(1 for t in group if t.is_primary_feature) > 1:
                group = group[:1]
            try:
                fc = FeatureIntervalCollection(
                    feature_intervals=group,
                    feature_collection_name=f"fc{fi}" if fi % 2 == 0 else None,
                    feature_collection_id=f"fcid{fi}" if fi else None,
                    feature_collection_type="grp" if fi == 1 else None,
                    locus_tag=f"flt{fi}" if fi % 2 else None,
                    sequence_name="chr1" if fi != 2 else None,
                    sequence_guid=GUID if fi == 2 else None,
                    guid=GUID2 if fi == 3 else None,
                    qualifiers=QUALIFIER_SETS[(fi + 4) % len(QUALIFIER_SETS)],
                    parent_or_seq_chunk_parent=par,
                )
            except Exception as ex:  # noqa
                RESULTS[f"fc[{pname}][{fi}]/CONSTRUCT"] = f"EXC {type(ex).__name__}: {ex}"
                continue
            fcs.append(fc)
            observe_interval(f"fc[{pname}][{fi}]", fc, lift_targets)
            observe_collection_extras(f"fc[{pname}][{fi}]", fc)

        var_objs = [v for _, v in vars_]
        vcs = []
        for vi, group in enumerate([var_objs[0:2], var_objs[2:4], [var_objs[1]] if len(var_objs) > 1 else []]):
            try:
                vc = VariantIntervalCollection(
                    variant_intervals=list(reversed(group)),
                    variant_collection_name=f"vc{vi}" if vi != 1 else None,
                    variant_collection_id=f"vcid{vi}" if vi else None,
                    sequence_name="chr1",
                    sequence_guid=GUID if vi == 1 else None,
                    guid=GUID2 if vi == 2 else None,
                    qualifiers=QUALIFIER_SETS[(vi + 2) % len(QUALIFIER_SETS)],
                    parent_or_seq_chunk_parent=par,
                )
            except Exception as ex:  # noqa
                RESULTS[f"vc[{pname}][{vi}]/CONSTRUCT"] = f"EXC {type(ex).__name__}: {ex}"
                continue
            vcs.append(vc)
            observe_interval(f"vc[{pname}][{vi}]", vc, lift_targets)
            observe_collection_extras(f"vc[{pname}][{vi}]", vc)

        # annotation collections
        ac_specs = [
            dict(genes=genes, feature_collections=fcs),
            dict(genes=genes[:2], feature_collections=None, name="ac1", id="acid", sequence_name="chr1"),
            dict(genes=None, feature_collections=fcs[:2], qualifiers=QUALIFIER_SETS[3], start=0, end=120),
            dict(genes=genes[:3], feature_collections=fcs[:1], start=5, end=100, completely_within=True),
            dict(genes=genes[:3], feature_collections=fcs[:1], completely_within=False, sequence_guid=GUID),
            dict(),  # empty
            dict(start=3, end=77, name="empty_with_bounds", sequence_path="/some/path.fa"),
            dict(genes=genes[:1], variant_collections=vcs[:1], name="with_variants"),
            dict(genes=genes[:2], feature_collections=fcs[:2], variant_collections=vcs[:2], name="with_variants2"),
        ]
        for ai, spec in enumerate(ac_specs):
            label = f"ac[{pname}][{ai}]"
            try:
                ac = AnnotationCollection(parent_or_seq_chunk_parent=par, **spec)
            except Exception as ex:  # noqa
                RESULTS[f"{label}/CONSTRUCT"] = f"EXC {type(ex).__name__}: {ex}"
                continue
            record(f"{label}/repr", lambda: repr(ac))
            record(f"{label}/guid", lambda: ac.guid)
            record(f"{label}/to_dict", lambda: ac.to_dict())
            record(f"{label}/to_dict_parent", lambda: ac.to_dict(export_parent=True))
            record(f"{label}/to_dict_rel", lambda: ac.to_dict(chromosome_relative_coordinates=False))
            record(f"{label}/to_dict_rel_parent", lambda: ac.to_dict(False, True))
            record(f"{label}/parent_to_dict", lambda: ac._parent_to_dict())
            record(f"{label}/getstate", lambda: ac.__getstate__())
            record(f"{label}/export_list", lambda: ac._export_qualifiers_to_list())
            record(f"{label}/identifiers", lambda: (ac.identifiers, ac.identifiers_dict, ac.id, ac.name))
            record(f"{label}/children_guids", lambda: ac.children_guids)
            record(f"{label}/hier_guids", lambda: ac.hierarchical_children_guids)
            record(
                f"{label}/alt_hap",
                lambda: None
                if ac.alternative_haplotype_mapping is None
                else {k: [(str(x), x.guid, x.to_dict()) for x in v] for k, v in ac.alternative_haplotype_mapping.items()},
            )

            def describe(o):
                return (
                    repr(o),
                    o.guid,
                    o.to_dict(export_parent=True),
                    o.chunk_relative_location,
                    o._parent_or_seq_chunk_parent,
                    o.sequence,
                    getattr(o, "start", "nostart"),
                    getattr(o, "end", "noend"),
                    getattr(o, "bin", "nobin"),
                    o.completely_within,
                    o.qualifiers,
                    [str(c) for c in o.iter_children()],
                )

            record(f"{label}/pickle", lambda: describe(pickle.loads(pickle.dumps(ac))))
            record(f"{label}/pickle_eq", lambda: pickle.loads(pickle.dumps(ac)) == ac)
            record(f"{label}/from_dict", lambda: describe(AnnotationCollection.from_dict(ac.to_dict())))
            record(
                f"{label}/from_dict_parent_in_dict",
                lambda: describe(AnnotationCollection.from_dict(ac.to_dict(export_parent=True))),
            )
            record(
                f"{label}/from_dict_explicit_parent",
                lambda: describe(AnnotationCollection.from_dict(ac.to_dict(export_parent=True), par)),
            )
            record(
                f"{label}/from_dict_override_parent",
                lambda: describe(AnnotationCollection.from_dict(ac.to_dict(export_parent=True), pars["chrom_noseq"])),
            )

            def setstate_direct():
                blank = AnnotationCollection.__new__(AnnotationCollection)
                blank.__setstate__(ac.__getstate__())
                return describe(blank)

            record(f"{label}/setstate_direct", setstate_direct)
            for qs, qe, cw in [(0, 120, True), (10, 70, False), (35, 66, True), (110, 120, False)]:

                def query(qs=qs, qe=qe, cw=cw):
                    r = ac.query_by_position(qs, qe, completely_within=cw)
                    return describe(r)

                record(f"{label}/query[{qs},{qe},{cw}]", query)
            record(
                f"{label}/query_ids",
                lambda: describe(ac.query_by_feature_identifiers(["gene0", "fc0", "tx1"])),
            )


# ---------------------------------------------------------------------------------------------------------------
# hand-written parent dictionaries for AnnotationCollection.from_dict
# ---------------------------------------------------------------------------------------------------------------
def parent_dict_cases():
    base = dict(
        genes=[],
        feature_collections=[],
        variant_collections=[],
        name=None,
        id=None,
        qualifiers=None,
        sequence_name=None,
        sequence_guid=None,
        sequence_path=None,
        start=2,
        end=20,
        completely_within=None,
    )
    tx = TranscriptInterval([3, 10], [7, 18], Strand.MINUS, [4, 10], [7, 15], [CDSFrame.ZERO, CDSFrame.ZERO])
    gene = GeneInterval([tx], gene_id="g").to_dict()
    pdicts = [
        None,
        {},
        {"seq": None, "sequence_name": "chr1", "type": "CHROMOSOME"},
        {"seq": None, "sequence_name": "chr1", "type": None},
        {"seq": None, "sequence_name": None, "type": "weird"},
        {"seq": GENOME, "sequence_name": "chr1", "type": "CHROMOSOME", "alphabet": "NT_STRICT"},
        {"seq": GENOME, "sequence_name": "chr1", "type": "chromosome", "alphabet": "NT_STRICT", "start": 0, "end": 120},
        {"seq": GENOME, "sequence_name": "chr1", "alphabet": "NT_EXTENDED_GAPPED", "strand": "PLUS"},
        {"seq": GENOME, "sequence_name": "chr1", "type": "SomethingElse", "alphabet": "NT_STRICT"},
        {"seq": GENOME, "sequence_name": None, "type": None, "alphabet": None, "start": None},
        {
            "seq": GENOME[0:40],
            "sequence_name": "chr1",
            "type": "SEQUENCE_CHUNK",
            "alphabet": "NT_STRICT",
            "start": 0,
            "end": 40,
            "strand": "PLUS",
        },
        {"seq": GENOME[0:40], "sequence_name": "chr1", "type": "sequence_chunk", "start": 0, "end": 40},
        {"seq": GENOME[0:40], "type": "SEQUENCE_CHUNK", "start": 0, "end": 40},
        {"seq": "", "sequence_name": "chr1", "type": "SEQUENCE_CHUNK"},
        {"alphabet": "NOT_AN_ALPHABET", "seq": "ACGT"},
        {"strand": "SIDEWAYS"},
        {"unexpected": 1, "seq": "ACGT"},
    ]
    for i, pd in enumerate(pdicts):
        for with_gene in (False, True):
            vals = dict(base)
            if with_gene:
                vals["genes"] = [gene]
            vals["parent_or_seq_chunk_parent"] = pd
            snapshot = repr(vals)

            def go(vals=vals, snapshot=snapshot):
                ac = AnnotationCollection.from_dict(vals)
                return (
                    repr(ac),
                    ac.guid,
                    ac._parent_or_seq_chunk_parent,
                    ac.chunk_relative_location,
                    ac.to_dict(export_parent=True),
                    repr(vals) == snapshot,  # input must not be mutated
                )

            record(f"parent_dict[{i}][gene={with_gene}]", go)
    vals = dict(base)
    record("parent_dict[missing key]", lambda: repr(AnnotationCollection.from_dict(vals)))
    for missing in list(base):
        v2 = {k: v for k, v in base.items() if k != missing}
        record(f"ac_from_dict_missing[{missing}]", lambda v2=v2: repr(AnnotationCollection.from_dict(v2)))
    record("ac_from_dict_empty", lambda: repr(AnnotationCollection.from_dict({})))


def missing_key_cases():
    tx = TranscriptInterval(
        [3, 10], [7, 18], Strand.MINUS, [4, 10], [7, 15], [CDSFrame.ZERO, CDSFrame.ZERO], transcript_type=Biotype.mRNA
    )
    feat = FeatureInterval([3, 10], [7, 18], Strand.PLUS, feature_types=["a"])
    var = VariantInterval(3, 5, "A", "SNV")
    gene = GeneInterval([tx], gene_type=Biotype.protein_coding)
    fc = FeatureIntervalCollection([feat])
    vc = VariantIntervalCollection([var])
    for name, obj in [("tx", tx), ("cds", tx.cds), ("feat", feat), ("var", var), ("gene", gene), ("fc", fc), ("vc", vc)]:
        d = obj.to_dict()
        for missing in list(d):
            d2 = {k: v for k, v in d.items() if k != missing}
            record(f"missing[{name}][{missing}]", lambda d2=d2, obj=obj: str(type(obj).from_dict(d2)))
        record(f"missing[{name}][ALL]", lambda obj=obj: str(type(obj).from_dict({})))
        # falsey alternatives
        for key in d:
            for alt in ([], "", 0, None):
                d3 = dict(d)
                d3[key] = alt

                def go(d3=d3, obj=obj):
                    o = type(obj).from_dict(d3)
                    return (str(o), o.guid, o.to_dict())

                record(f"falsey[{name}][{key}={alt!r}]", go)


def qualifier_cases():
    bad = [
        ["not", "a", "dict"],
        "string",
        {"a": "notalist"},
        {"a": ["ok"], "b": ("tuple",)},
        {"a": ["ok"], "b": {"set"}},
        {"a": [None, 1, 1.0, True, "x", "x"]},
        {"a": [[1, 2]], ("t", 1): ["v"]},
        {"b": ["2", "1"], "a": ["1", "2"]},
        {"a": ["1", "2"], "b": ["1", "2"]},
        0,
        (),
    ]
    for i, q in enumerate(bad):

        def mk_feat(q=q):
            f = FeatureInterval([1], [5], Strand.PLUS, qualifiers=q)
            return (f.qualifiers, f._export_qualifiers_to_list(), f.guid, f.to_dict())

        def mk_tx(q=q):
            f = TranscriptInterval([1], [5], Strand.PLUS, qualifiers=q)
            return (f.qualifiers, f._export_qualifiers_to_list(), f.guid, f.to_dict())

        def mk_ac(q=q):
            f = AnnotationCollection(qualifiers=q, start=0, end=5)
            return (f.qualifiers, f._export_qualifiers_to_list(), f.guid, f.to_dict())

        def mk_var(q=q):
            f = VariantInterval(1, 5, "A", "x", qualifiers=q)
            return (f.qualifiers, f._export_qualifiers_to_list(), f.guid, f.to_dict())

        record(f"quals[{i}]/feat", mk_feat)
        record(f"quals[{i}]/tx", mk_tx)
        record(f"quals[{i}]/ac", mk_ac)
        record(f"quals[{i}]/var", mk_var)

    # _merge_qualifiers / export_qualifiers
    f = FeatureInterval(
        [1], [5], Strand.PLUS, qualifiers={"a": ["1"], "b": ["2"]}, feature_name="n", feature_id="i", feature_types=["t"]
    )
    for j, other in enumerate([None, {}, {"a": {"9"}}, {"c": {"x", "y"}, "a": {"1"}}, {"feature_id": {"zz"}}]):
        record(f"merge[{j}]", lambda other=other: (f._merge_qualifiers(other), f.export_qualifiers(other), f.qualifiers))


def hashing_cases():
    class Weird:
        def __str__(self):
            return "weird!"

        def __repr__(self):
            return "<Weird>"

    cases = [
        ((), {}),
        ((1,), {}),
        (("a", 1, 1.5, None, True), {}),
        (([1, 2, 3], [3, 2, 1]), {}),
        (({3, 1, 2},), {}),
        (({"b", "a", "c"}, {10, 9, 100}), {}),
        ((set(),), {}),
        ((frozenset({1, 2}),), {}),
        (({"b": 1, "a": 2},), {}),
        (({"b": {"z", "y"}, "a": {"k": {"q", "p"}, "j": [1, 2]}},), {}),
        (({},), {}),
        (({"a": {}},), {}),
        (({1: "x", 2: {"s"}},), {}),
        ((Strand.PLUS, CDSFrame.ONE, Biotype.protein_coding, GUID), {}),
        ((SingleInterval(1, 5, Strand.PLUS), CompoundInterval([1, 7], [3, 9], Strand.MINUS)), {}),
        ((Weird(), [Weird()]), {}),
        ((), {"b": 1, "a": 2}),
        ((), {"b": {"y", "x"}, "a": {"n": {"m": {3, 2, 1}}}}),
        ((1, {"x": {2, 1}}, {5, 4}), {"kw": {"q": {"b", "a"}}, "aa": None}),
        (("é", "日本語", "\U0001F600"), {"ü": {"ß", "a"}}),
        (({"a": 1, 2: 3},), {}),  # unsortable keys
        (({("a", 1): 1, ("a", 0): {"v"}},), {}),
        (("ab", "c"), {}),
        (("a", "bc"), {}),
        ((["1", "2"],), {}),
        (([1, 2],), {}),
        (({1, "1"},), {}),
        ((("x", {1}),), {}),
        (({"k": ({1, 2}, [3])},), {}),
        (("\ud83d",), {}),  # lone surrogate: cannot be utf-8 encoded
        (("a", "\ud83d", "\ude00"), {"k": "\udfff"}),
    ]
    for i, (args, kwargs) in enumerate(cases):
        record(f"hash[{i}]/encode", lambda args=args, kwargs=kwargs: list(_encode_object_for_digest(*args, **kwargs)))
        record(f"hash[{i}]/digest", lambda args=args, kwargs=kwargs: digest_object(*args, **kwargs))
    record("hash/order_set", lambda: hashing._order_set({10, 9, "a", None, 1.5}))
    record(
        "hash/order_dict",
        lambda: list(hashing._order_dict_of_possible_sets({"b": {2, 1}, "a": {"c": {"y", "x"}}, "c": [1]})),
    )
    # permutations of qualifier insertion order give the same identifiers
    import itertools

    keys = ["k1", "k2", "k3"]
    vals = {"k1": ["c", "a", "b"], "k2": ["x"], "k3": ["2", "10", "1"]}
    seen = []
    for perm in itertools.permutations(keys):
        q = {k: list(reversed(vals[k])) if perm[0] == "k2" else list(vals[k]) for k in perm}
        f = FeatureInterval([1, 9], [5, 14], Strand.MINUS, qualifiers=q)
        t = TranscriptInterval([1, 9], [5, 14], Strand.MINUS, [2], [5], [CDSFrame.ZERO], qualifiers=q)
        seen.append((f.guid, t.guid, t.cds.guid, f.to_dict()["qualifiers"], t.to_dict()["qualifiers"]))
    record("hash/perm_guids", lambda: seen)


def main():
    main_objects()
    parent_dict_cases()
    missing_key_cases()
    qualifier_cases()
    hashing_cases()


if __name__ == "__main__":
    if sys.argv[1] == "dump":
        main()
        with open(sys.argv[2], "w") as fh:
            json.dump(RESULTS, fh, indent=0, sort_keys=True)
        n_exc = sum(1 for v in RESULTS.values() if v.startswith("EXC "))
        print(f"{len(RESULTS)} observations ({n_exc} of them exceptions) written to {sys.argv[2]}")
    elif sys.argv[1] == "compare":
        a = json.load(open(sys.argv[2]))
        b = json.load(open(sys.argv[3]))
        bad = [k for k in sorted(set(a) | set(b)) if a.get(k) != b.get(k)]
        for k in bad[:40]:
            print("DIFF", k)
            print("   A:", str(a.get(k))[:600])
            print("   B:", str(b.get(k))[:600])
        print(f"{len(a)} vs {len(b)} observations, {len(bad)} differences")
        sys.exit(1 if bad else 0)
