#!/venv/bin/python
"""
Equivalence harness for the variant / haplotype code (property C13).

Usage (from the worktree root):

    /venv/bin/python _refactor/R1/equiv.py dump /tmp/pristine.json     # on the pristine checkout
    git apply _refactor/R1/patch.diff
    /venv/bin/python _refactor/R1/equiv.py dump /tmp/patched.json      # on the refactored checkout
    /venv/bin/python _refactor/R1/equiv.py compare /tmp/pristine.json /tmp/patched.json

Every observation is stored as a string (repr / str / json of to_dict, or "EXC <type>: <message>"), so the two dumps
can be compared key by key.

Environment shims (test environment only, nothing in the package is touched):
 * marshmallow 4 dropped the ``pass_many`` keyword of ``post_dump``; it is accepted and ignored here so that
   ``inscripta.biocantor.io.models`` / ``io.parser`` import.
 * PyVCF is not installed: tiny stand-in ``vcf`` / ``vcf.model`` modules are registered so that
   ``inscripta.biocantor.io.vcf.parser`` imports; records are duck-typed fakes.
"""
import hashlib
import json
import os
import random
import sys
import types
import warnings

if os.environ.get("PYTHONHASHSEED") != "0":
    # reprs of sets (e.g. ``identifiers`` in VariantIntervalCollection.__repr__) depend on the hash seed: pin it
    os.environ["PYTHONHASHSEED"] = "0"
    os.execv(sys.executable, [sys.executable] + sys.argv)

sys.path.insert(0, os.getcwd())  # run from the worktree root

# ---------------------------------------------------------------------------------------------------------------------
# environment shims
# ---------------------------------------------------------------------------------------------------------------------
import marshmallow
import marshmallow.decorators as _mm_dec

_orig_post_dump = _mm_dec.post_dump


def _post_dump(fn=None, pass_many=False, pass_original=False, **kw):
    return _orig_post_dump(fn, pass_original=pass_original, **kw)


_mm_dec.post_dump = _post_dump
marshmallow.post_dump = _post_dump

_vcf = types.ModuleType("vcf")
_vcf_model = types.ModuleType("vcf.model")


class _Record:  # stand-in for vcf.model._Record
    pass


_vcf_model._Record = _Record
_vcf.model = _vcf_model
_vcf.Reader = None
sys.modules.setdefault("vcf", _vcf)
sys.modules.setdefault("vcf.model", _vcf_model)

import inscripta.biocantor.location  # noqa: E402,F401  (must come first: circular import otherwise)
from inscripta.biocantor.gene import (  # noqa: E402
    AnnotationCollection,
    CDSFrame,
    CDSInterval,
    FeatureInterval,
    FeatureIntervalCollection,
    GeneInterval,
    TranscriptInterval,
)
from inscripta.biocantor.gene.variants import VariantInterval, VariantIntervalCollection  # noqa: E402
from inscripta.biocantor.io.parser import seq_chunk_to_parent, seq_to_parent  # noqa: E402
from inscripta.biocantor.io.vcf.parser import convert_vcf_records_to_model  # noqa: E402
from inscripta.biocantor.location import CompoundInterval, EmptyLocation, SingleInterval, Strand  # noqa: E402

RESULTS = {}


def obs(fn):
    """Run fn, return a string describing the outcome (value or exception)."""
    try:
        with warnings.catch_warnings(record=True) as w:
            warnings.simplefilter("always")
            val = fn()
        s = val if isinstance(val, str) else json.dumps(val, default=repr, sort_keys=True)
        if w:
            s += " WARN[" + "|".join(f"{x.category.__name__}:{x.message}" for x in w) + "]"
        return s
    except Exception as e:  # noqa
        return f"EXC {type(e).__name__}: {e}"


def record(key, fn):
    assert key not in RESULTS, key
    RESULTS[key] = obs(fn)


def loc_desc(loc):
    """A thorough description of a Location: repr, blocks, strand, parent chain."""
    if loc is EmptyLocation():
        return "EmptyLocation"
    parent = loc.parent
    chain = []
    while parent is not None:
        chain.append(
            (
                parent.id,
                str(parent.sequence_type),
                repr(parent.location),
                str(parent.sequence) if parent.sequence is not None else None,
            )
        )
        parent = parent.parent
    return {
        "repr": repr(loc),
        "type": type(loc).__name__,
        "blocks": [(b.start, b.end, b.strand.name) for b in loc.blocks],
        "parents": chain,
    }


def parent_desc(parent):
    chain = []
    while parent is not None:
        chain.append(
            (
                parent.id,
                str(parent.sequence_type),
                repr(parent.location),
                (str(parent.sequence), str(parent.sequence.alphabet), str(parent.sequence.sequence_type), parent.sequence.id)
                if parent.sequence is not None
                else None,
            )
        )
        parent = parent.parent
    return chain


def interval_desc(iv):
    """Description of a Feature/Transcript/CDS interval."""
    d = {
        "cls": type(iv).__name__,
        "dict": iv.to_dict(),
        "loc": loc_desc(iv.chunk_relative_location),
        "chrom_loc": repr(iv.chromosome_location),
        "guid": str(iv.guid),
        "has_seq": iv.has_sequence,
    }
    if iv.has_sequence:
        d["spliced"] = obs(lambda: str(iv.get_spliced_sequence()))
        if isinstance(iv, CDSInterval):
            d["extract"] = obs(lambda: str(iv.extract_sequence()))
            d["frames"] = obs(lambda: [f.name for f in iv.frames])
        if isinstance(iv, TranscriptInterval) and iv.is_coding:
            d["cds"] = obs(lambda: str(iv.cds.extract_sequence()))
            d["protein"] = obs(lambda: str(iv.get_protein_sequence()))
    return d


def collection_desc(c):
    d = {
        "cls": type(c).__name__,
        "dict": c.to_dict(),
        "loc": loc_desc(c.chunk_relative_location),
        "guid": str(c.guid),
        "children": [],
    }
    if isinstance(c, AnnotationCollection):
        for child in c.iter_children():
            d["children"].append(collection_desc(child))
        mapping = c.alternative_haplotype_mapping
        d["haplotype_mapping_type"] = type(mapping).__name__
        if mapping is not None:
            d["haplotypes"] = [[str(k), [collection_desc(x) for x in v]] for k, v in mapping.items()]
    elif isinstance(c, VariantIntervalCollection):
        d["children"] = [str(v) for v in c.variant_intervals]
    else:
        for child in c.iter_children():
            d["children"].append(interval_desc(child))
    return d


# ---------------------------------------------------------------------------------------------------------------------
# inputs
# ---------------------------------------------------------------------------------------------------------------------
rng = random.Random(1313)
REF = "".join(rng.choice("ACGT") for _ in range(40))
OFFSET = 100  # chunk tests: chromosome coordinates OFFSET .. OFFSET+40 are held by the chunk


def parents():
    """name -> (parent or None, coordinate offset)"""
    return {
        "noseq": (None, 0),
        "chrom": (seq_to_parent(REF, seq_id="chr1"), 0),
        "chunk": (seq_chunk_to_parent(REF, "chr1", OFFSET, OFFSET + len(REF)), OFFSET),
    }


def mk_variant(start, end, alt, off=0, parent=None, **kw):
    ref_len = end - start
    if len(alt) == ref_len:
        vtype = "SNV" if ref_len == 1 else "MNV"
    elif len(alt) > ref_len:
        vtype = "insertion"
    else:
        vtype = "deletion"
    return VariantInterval(start + off, end + off, alt, vtype, parent_or_seq_chunk_parent=parent, **kw)


# (start, end, alt): SNV, MNV, padded / unpadded insertions, padded / unpadded deletions, delins
VARIANT_SPECS = [
    (1, 2, "G"),
    (8, 10, "TT"),
    (5, 6, "GGC"),
    (5, 6, "AAAAAAA"),
    (0, 1, "TTT"),
    (10, 13, "T"),
    (12, 13, ""),
    (13, 15, ""),
    (13, 19, "AC"),
    (20, 24, "ACGTAC"),
    (0, 3, ""),
    (37, 40, "A"),
    (39, 40, "ACGT"),
    (18, 22, "ACGT"),
]

# non-overlapping combinations for collections (indices into VARIANT_SPECS)
COLLECTION_SPECS = [
    [0],
    [2],
    [5],
    [0, 2, 5],
    [0, 2, 5, 7],
    [0, 2, 6, 7],
    [4, 1, 8, 9],
    [10, 3, 11],
    [7, 0],
    [3, 8, 12],
    [2, 1, 13],
    [10, 2, 6, 7, 9, 11],
]

# locations: (starts, ends)
LOCATION_SPECS = [
    ([0], [15]),
    ([0], [40]),
    ([3], [9]),
    ([5], [6]),
    ([12], [13]),
    ([13], [15]),
    ([11], [14]),
    ([14], [18]),
    ([20], [30]),
    ([38], [40]),
    ([0, 5, 12], [3, 10, 18]),
    ([0, 13], [2, 15]),
    ([2, 12, 30], [8, 13, 36]),
    ([1, 6, 11, 16, 21], [4, 9, 14, 19, 26]),
    ([4, 14, 24], [12, 20, 40]),
    ([13, 17], [15, 25]),
    ([0, 10], [10, 21]),
    ([12, 13], [13, 15]),
]


def mk_location(starts, ends, strand, off=0, parent=None):
    starts = [s + off for s in starts]
    ends = [e + off for e in ends]
    if len(starts) == 1:
        loc = SingleInterval(starts[0], ends[0], strand)
    else:
        loc = CompoundInterval(starts, ends, strand)
    return loc


# ---------------------------------------------------------------------------------------------------------------------
# A. exhaustive small-integer check of the single-interval coordinate arithmetic
# ---------------------------------------------------------------------------------------------------------------------
def section_a():
    for vstart in range(0, 7):
        for ref_len in range(1, 5):
            for alt_len in range(0, 7):
                v = VariantInterval(vstart, vstart + ref_len, "A" * alt_len, "x")
                h = hashlib.sha1()
                samples = []
                for s in range(0, 15):
                    for e in range(s, 16):
                        for strand in (Strand.PLUS, Strand.MINUS):
                            try:
                                loc = SingleInterval(s, e, strand)
                            except Exception:  # noqa
                                continue
                            r = obs(lambda: loc_desc(v._lift_over_chromosome_location_single_interval(loc)))
                            h.update(f"{s},{e},{strand.name}->{r};".encode())
                            if (s * 7 + e) % 23 == 0 and strand is Strand.PLUS:
                                samples.append(f"{s}-{e}:{r}")
                record(f"A/single/{vstart}/{ref_len}/{alt_len}", lambda: {"sha1": h.hexdigest(), "samples": samples})


# ---------------------------------------------------------------------------------------------------------------------
# B/C. VariantInterval: alternative sequence, alternative parent, lift-over of many locations
# ---------------------------------------------------------------------------------------------------------------------
def section_bc():
    for pname, (parent, off) in parents().items():
        for i, (s, e, alt) in enumerate(VARIANT_SPECS):
            key = f"B/{pname}/v{i}"
            v = mk_variant(s, e, alt, off, parent, variant_name=f"v{i}", variant_id=f"id{i}", qualifiers={"q": ["1"]})
            record(f"{key}/str", lambda: [str(v), repr(v), v.length_difference, v.id, v.name])
            record(f"{key}/to_dict", lambda: v.to_dict())
            record(f"{key}/to_dict_rel", lambda: v.to_dict(chromosome_relative_coordinates=False))
            record(
                f"{key}/from_dict",
                lambda: VariantInterval.from_dict(v.to_dict(), parent).to_dict(),
            )
            record(f"{key}/export_qualifiers", lambda: {k: sorted(x) for k, x in v.export_qualifiers({"p": {"z"}}).items()})
            record(
                f"{key}/alt",
                lambda: [
                    str(v.alternative_genomic_sequence),
                    str(v.alternative_genomic_sequence.alphabet),
                    str(v.alternative_genomic_sequence.sequence_type),
                    v.alternative_genomic_sequence.id,
                    v.alternative_genomic_sequence is v.alternative_genomic_sequence,
                ],
            )
            record(
                f"{key}/alt_parent",
                lambda: [
                    parent_desc(v.parent_with_alternative_sequence),
                    v.parent_with_alternative_sequence is v.parent_with_alternative_sequence,
                ],
            )
            record(f"{key}/lift_empty", lambda: loc_desc(v.lift_over_location(EmptyLocation())))
            for j, (ls, le) in enumerate(LOCATION_SPECS):
                for strand in (Strand.PLUS, Strand.MINUS):
                    # location in chromosome coordinates, without parent
                    loc = mk_location(ls, le, strand, off)
                    record(f"{key}/lift/l{j}{strand.name}", lambda: loc_desc(v.lift_over_location(loc)))
                    if len(ls) > 1:
                        record(
                            f"{key}/lift_compound_raw/l{j}{strand.name}",
                            lambda: loc_desc(v._lift_over_chromosome_location_compound_interval(loc)),
                        )
                    if parent is not None:
                        # location living on the parent (chunk-relative for the chunk parent)
                        ploc = FeatureInterval.initialize_location(
                            [x + off for x in ls], [x + off for x in le], strand, parent
                        )
                        record(f"{key}/lift_on_parent/l{j}{strand.name}", lambda: loc_desc(v.lift_over_location(ploc)))
    # a chunk that covers only part of the features
    sub_parent = seq_chunk_to_parent(REF[4:30], "chr1", OFFSET + 4, OFFSET + 30)
    for i, (s, e, alt) in enumerate(VARIANT_SPECS):
        if s < 4 or e > 30:
            continue
        v = mk_variant(s, e, alt, OFFSET, sub_parent)
        key = f"C/subchunk/v{i}"
        record(f"{key}/alt", lambda: str(v.alternative_genomic_sequence))
        record(f"{key}/alt_parent", lambda: parent_desc(v.parent_with_alternative_sequence))
        for j, (ls, le) in enumerate(LOCATION_SPECS):
            for strand in (Strand.PLUS, Strand.MINUS):
                loc = mk_location(ls, le, strand, OFFSET)
                record(f"{key}/lift/l{j}{strand.name}", lambda: loc_desc(v.lift_over_location(loc)))
                record(
                    f"{key}/feature/l{j}{strand.name}",
                    lambda: interval_desc(
                        FeatureInterval(
                            [x + OFFSET for x in ls],
                            [x + OFFSET for x in le],
                            strand,
                            parent_or_seq_chunk_parent=sub_parent,
                        ).incorporate_variants(v)
                    ),
                )

    # unsupported location type
    class Odd:
        end = 1000

        def has_ancestor_of_type(self, t):
            return False

    v = mk_variant(5, 6, "GGC")
    record("B/odd_location", lambda: repr(v.lift_over_location(Odd())))
    Odd.end = 0
    record("B/odd_location_before", lambda: repr(v.lift_over_location(Odd())))
    record("B/empty_variant", lambda: repr(VariantInterval(3, 3, "A", "x")))
    record("B/not_implemented", lambda: [obs(v.to_vcf), obs(v.to_bed12), obs(lambda: list(v.to_gff()))])


# ---------------------------------------------------------------------------------------------------------------------
# D. VariantIntervalCollection
# ---------------------------------------------------------------------------------------------------------------------
def mk_collection(idx, off, parent, **kw):
    variants = [
        mk_variant(*VARIANT_SPECS[i], off=off, parent=parent, variant_name=f"v{i}", phase_block=7) for i in idx
    ]
    return VariantIntervalCollection(
        variants,
        variant_collection_name="coll",
        variant_collection_id="-".join(map(str, idx)),
        sequence_name="chr1",
        qualifiers={"k": ["v"]},
        parent_or_seq_chunk_parent=parent,
        **kw,
    )


def section_d():
    for pname, (parent, off) in parents().items():
        for c, idx in enumerate(COLLECTION_SPECS):
            key = f"D/{pname}/c{c}"
            coll = mk_collection(idx, off, parent)
            record(f"{key}/desc", lambda: collection_desc(coll))
            record(f"{key}/repr", lambda: [repr(coll), coll.id, coll.name, coll.is_coding, sorted(coll.variant_types)])
            record(f"{key}/to_dict_rel", lambda: coll.to_dict(chromosome_relative_coordinates=False))
            record(
                f"{key}/from_dict", lambda: collection_desc(VariantIntervalCollection.from_dict(coll.to_dict(), parent))
            )
            record(
                f"{key}/alt",
                lambda: [
                    str(coll.alternative_genomic_sequence),
                    str(coll.alternative_genomic_sequence.alphabet),
                    str(coll.alternative_genomic_sequence.sequence_type),
                    coll.alternative_genomic_sequence is coll.alternative_genomic_sequence,
                ],
            )
            record(
                f"{key}/alt_parent",
                lambda: [
                    parent_desc(coll.parent_with_alternative_sequence),
                    coll.parent_with_alternative_sequence is coll.parent_with_alternative_sequence,
                ],
            )
            guids = [v.guid for v in coll.variant_intervals]
            record(f"{key}/query_one", lambda: collection_desc(coll.query_by_guids(guids[0])))
            record(f"{key}/query_rev", lambda: collection_desc(coll.query_by_guids(list(reversed(guids)))))
            record(f"{key}/query_none", lambda: repr(coll.query_by_guids([coll.guid])))
            record(f"{key}/lift_empty", lambda: loc_desc(coll.lift_over_location(EmptyLocation())))
            for j, (ls, le) in enumerate(LOCATION_SPECS):
                for strand in (Strand.PLUS, Strand.MINUS):
                    loc = mk_location(ls, le, strand, off)
                    record(f"{key}/lift/l{j}{strand.name}", lambda: loc_desc(coll.lift_over_location(loc)))
                    if parent is not None:
                        ploc = FeatureInterval.initialize_location(
                            [x + off for x in ls], [x + off for x in le], strand, parent
                        )
                        record(
                            f"{key}/lift_on_parent/l{j}{strand.name}", lambda: loc_desc(coll.lift_over_location(ploc))
                        )
    # constructor failures
    record("D/empty", lambda: repr(VariantIntervalCollection([])))
    record("D/overlap", lambda: repr(VariantIntervalCollection([mk_variant(1, 5, "A"), mk_variant(4, 6, "AAA")])))
    record("D/abutting", lambda: repr(VariantIntervalCollection([mk_variant(1, 5, "A"), mk_variant(5, 6, "AAA")])))
    record("D/duplicate", lambda: repr(VariantIntervalCollection([mk_variant(1, 2, "A"), mk_variant(1, 2, "A")])))
    record(
        "D/duplicate_guid",
        lambda: repr(
            VariantIntervalCollection(
                [mk_variant(1, 2, "A", guid="same"), mk_variant(4, 5, "A", guid="same")]  # type: ignore
            )
        ),
    )

    class Odd:
        def has_ancestor_of_type(self, t):
            return False

    record("D/odd_location", lambda: repr(mk_collection([0, 2], 0, None).lift_over_location(Odd())))
    record("D/to_gff", lambda: repr(list(mk_collection([0, 2], 0, None).to_gff())))

    # random layouts
    r = random.Random(99)
    for n in range(60):
        k = r.randint(1, 4)
        cuts = sorted(r.sample(range(0, 40), 2 * k))
        specs = []
        for a, b in zip(cuts[::2], cuts[1::2]):
            if a == b:
                b += 1
            alt = "".join(r.choice("ACGT") for _ in range(r.choice([0, 1, 1, 2, b - a, b - a + 2, 5])))
            specs.append((a, b, alt))
        pname = r.choice(["noseq", "chrom", "chunk"])
        parent, off = parents()[pname]
        nb = r.randint(1, 4)
        lcuts = sorted(r.sample(range(0, 41), 2 * nb))
        ls, le = lcuts[::2], lcuts[1::2]
        strand = r.choice([Strand.PLUS, Strand.MINUS])

        def run():
            coll = VariantIntervalCollection(
                [mk_variant(a, b, alt, off, parent) for a, b, alt in specs], parent_or_seq_chunk_parent=parent
            )
            loc = mk_location(ls, le, strand, off)
            out = {"lift": obs(lambda: loc_desc(coll.lift_over_location(loc)))}
            if parent is not None:
                out["alt"] = obs(lambda: str(coll.alternative_genomic_sequence))
                feat = FeatureInterval(
                    [x + off for x in ls], [x + off for x in le], strand, parent_or_seq_chunk_parent=parent
                )
                out["feat"] = obs(lambda: interval_desc(feat.incorporate_variants(coll)))
                out["each"] = [
                    obs(lambda: interval_desc(feat.incorporate_variants(v))) for v in coll.variant_intervals
                ]
            return out

        record(f"D/random/{n}/{pname}/{specs}/{ls}{le}{strand.name}", run)


# ---------------------------------------------------------------------------------------------------------------------
# E/F. incorporate_variants on intervals and collections; alternative_haplotype_mapping
# ---------------------------------------------------------------------------------------------------------------------
def build_annotation(parent, off, variant_collections=None, start=None, end=None):
    def sh(x):
        return [v + off for v in x]

    kw = dict(parent_or_seq_chunk_parent=parent, sequence_name="chr1")
    feats1 = FeatureIntervalCollection(
        [
            FeatureInterval(
                sh([0]), sh([15]), Strand.PLUS, feature_types=["b", "a"], feature_name="f1", feature_id="fid1",
                qualifiers={"note": ["x", "y"]}, is_primary_feature=True, **kw
            ),
            FeatureInterval(sh([2, 12]), sh([8, 20]), Strand.MINUS, feature_types=["a"], feature_name="f2", **kw),
        ],
        feature_collection_name="fc1",
        feature_collection_id="fcid1",
        feature_collection_type="site",
        locus_tag="lt1",
        qualifiers={"fcq": ["1"]},
        **kw,
    )
    feats2 = FeatureIntervalCollection(
        [FeatureInterval(sh([25]), sh([36]), Strand.PLUS, feature_name="f3", **kw)],
        feature_collection_name="fc2",
        **kw,
    )
    gene1 = GeneInterval(
        [
            TranscriptInterval(sh([0]), sh([15]), Strand.PLUS, transcript_id="t1", is_primary_tx=True, **kw),
            TranscriptInterval(sh([0]), sh([15]), Strand.MINUS, transcript_id="t2", **kw),
            TranscriptInterval(
                sh([0, 5, 12]),
                sh([3, 10, 18]),
                Strand.PLUS,
                cds_starts=sh([1, 5, 12]),
                cds_ends=sh([3, 10, 16]),
                cds_frames=[CDSFrame.ZERO, CDSFrame.TWO, CDSFrame.ONE],
                transcript_id="t3",
                transcript_symbol="sym3",
                protein_id="p3",
                product="prod3",
                qualifiers={"tq": ["a"]},
                **kw,
            ),
        ],
        gene_id="g1",
        gene_symbol="G1",
        locus_tag="glt1",
        qualifiers={"gq": ["z"]},
        **kw,
    )
    gene2 = GeneInterval(
        [
            TranscriptInterval(
                sh([20, 30]),
                sh([27, 39]),
                Strand.MINUS,
                cds_starts=sh([22, 30]),
                cds_ends=sh([27, 37]),
                cds_frames=[CDSFrame.ZERO, CDSFrame.ZERO],
                transcript_id="t4",
                **kw,
            ),
        ],
        gene_id="g2",
        **kw,
    )
    return AnnotationCollection(
        [feats1, feats2],
        [gene1, gene2],
        variant_collections=variant_collections,
        name="ac",
        id="acid",
        sequence_name="chr1",
        qualifiers={"acq": ["q"]},
        start=start,
        end=end,
        parent_or_seq_chunk_parent=parent,
    )


def section_ef():
    cds_specs = [
        ([0], [15], [CDSFrame.ZERO]),
        ([1, 5, 12], [3, 10, 16], [CDSFrame.ZERO, CDSFrame.TWO, CDSFrame.ONE]),
        ([2, 20], [14, 38], [CDSFrame.ONE, CDSFrame.ONE]),
        ([12], [24], [CDSFrame.TWO]),
    ]
    for pname, (parent, off) in parents().items():
        variant_sets = []
        for i, spec in enumerate(VARIANT_SPECS):
            variant_sets.append((f"v{i}", mk_variant(*spec, off=off, parent=parent)))
        for c, idx in enumerate(COLLECTION_SPECS):
            variant_sets.append((f"c{c}", mk_collection(idx, off, parent)))

        ac = build_annotation(parent, off)
        for vname, variants in variant_sets:
            key = f"E/{pname}/{vname}"
            # whole annotation collection, each gene, each feature collection, each child
            record(f"{key}/ac", lambda: collection_desc(ac.incorporate_variants(variants)))
            for g, gene in enumerate(ac.genes):
                record(f"{key}/gene{g}", lambda: collection_desc(gene.incorporate_variants(variants)))
                for t, tx in enumerate(gene.transcripts):
                    record(f"{key}/gene{g}/tx{t}", lambda: interval_desc(tx.incorporate_variants(variants)))
            for f, fc in enumerate(ac.feature_collections):
                record(f"{key}/fc{f}", lambda: collection_desc(fc.incorporate_variants(variants)))
                for t, feat in enumerate(fc.feature_intervals):
                    record(f"{key}/fc{f}/feat{t}", lambda: interval_desc(feat.incorporate_variants(variants)))
            for n, (cs, ce, frames) in enumerate(cds_specs):
                for strand in (Strand.PLUS, Strand.MINUS):
                    cds = CDSInterval(
                        [x + off for x in cs],
                        [x + off for x in ce],
                        strand,
                        frames,
                        protein_id="pid",
                        product="prod",
                        qualifiers={"cq": ["1"]},
                        sequence_name="chr1",
                        parent_or_seq_chunk_parent=parent,
                    )
                    record(f"{key}/cds{n}{strand.name}", lambda: interval_desc(cds.incorporate_variants(variants)))

        # F: variant collections inside the annotation collection
        for c, combo in enumerate([[0], [3], [3, 7], [0, 1, 2, 3, 8], [11], [9, 10, 11]]):
            colls = [mk_collection(COLLECTION_SPECS[i], off, parent) for i in combo]
            record(f"F/{pname}/combo{c}", lambda: collection_desc(build_annotation(parent, off, colls)))
        record(f"F/{pname}/none", lambda: collection_desc(build_annotation(parent, off, None)))
        record(f"F/{pname}/emptylist", lambda: collection_desc(build_annotation(parent, off, [])))
        record(
            f"F/{pname}/far_variant",
            lambda: collection_desc(
                AnnotationCollection(
                    genes=[
                        GeneInterval(
                            [TranscriptInterval([off + 20], [off + 30], Strand.PLUS, parent_or_seq_chunk_parent=parent)],
                            parent_or_seq_chunk_parent=parent,
                        )
                    ],
                    variant_collections=[mk_collection([0, 2], off, parent)],
                    parent_or_seq_chunk_parent=parent,
                )
            ),
        )


# ---------------------------------------------------------------------------------------------------------------------
# H. alternative_haplotype_mapping through the interval-tree code path (cgranges is not installed: a stand-in with the
#    same add / index / overlap interface is plugged in to gene.collections)
# ---------------------------------------------------------------------------------------------------------------------
class FakeCGRanges:
    def __init__(self):
        self.rows = []
        self.indexed = False

    def add(self, ctg, st, en, label):
        assert not self.indexed
        self.rows.append((ctg, st, en, label))

    def index(self):
        self.rows.sort(key=lambda r: (r[0], r[1], r[2]))
        self.indexed = True

    def overlap(self, ctg, st, en):
        assert self.indexed
        for c, s, e, label in self.rows:
            if c == ctg and s < en and st < e:
                yield s, e, label


def section_h():
    import inscripta.biocantor.gene.collections as collections_module

    fake = types.ModuleType("cgranges")
    fake.cgranges = FakeCGRanges
    had = collections_module.HAS_CGRANGES
    assert had is False
    collections_module.HAS_CGRANGES = True
    collections_module.cgranges = fake
    try:
        for pname, (parent, off) in parents().items():
            for c, combo in enumerate([[0], [3], [3, 7], [8, 3, 2, 1, 0], [11], [11, 10, 9]]):
                colls = [mk_collection(COLLECTION_SPECS[i], off, parent) for i in combo]
                record(f"H/{pname}/combo{c}", lambda: collection_desc(build_annotation(parent, off, colls)))
            record(f"H/{pname}/none", lambda: collection_desc(build_annotation(parent, off, None)))
    finally:
        collections_module.HAS_CGRANGES = had
        del collections_module.cgranges


# ---------------------------------------------------------------------------------------------------------------------
# G. VCF records -> models
# ---------------------------------------------------------------------------------------------------------------------
class Alt:
    def __init__(self, sequence, type):
        self.sequence = sequence
        self.type = type


class Data:
    def __init__(self, **kw):
        for k, v in kw.items():
            setattr(self, k, v)


class Call:
    def __init__(self, **kw):
        self.data = Data(**kw)


class Rec(_Record):
    def __init__(self, chrom, pos, ref, alts, samples):
        self.CHROM = chrom
        self.POS = pos
        self.REF = ref
        self.ALT = [Alt(a, "SNV" if len(a) == len(ref) else "indel") for a in alts]
        self.samples = samples
        # PyVCF semantics (approx.): 0-based affected window
        if len(ref) == 1 and all(len(a) == 1 for a in alts):
            self.affected_start, self.affected_end = pos - 1, pos
        elif all(len(a) > len(ref) for a in alts):
            self.affected_start = self.affected_end = pos  # pure insertion: empty window
        else:
            self.affected_start, self.affected_end = pos, pos - 1 + len(ref)


def model_desc(models):
    return {
        k: [
            {
                "id": m.variant_collection_id,
                "name": m.variant_collection_name,
                "seq": m.sequence_name,
                "n": len(m.variant_intervals),
                "variants": [
                    (v.start, v.end, v.sequence, v.variant_type, v.phase_block) for v in m.variant_intervals
                ],
                "cls": type(m).__name__,
            }
            for m in v
        ]
        for k, v in models.items()
    }


def section_g():
    def ph(ps):
        return [Call(GT="0|1", PS=ps)]

    unph = [Call(GT="0/1")]
    cases = {
        "empty": [],
        "unphased": [Rec("chr1", 2, "C", ["G"], unph), Rec("chr1", 6, "C", ["CGG"], unph)],
        "phased_one_block": [
            Rec("chr1", 2, "C", ["G"], ph(1)),
            Rec("chr1", 6, "C", ["CGG"], ph(1)),
            Rec("chr1", 10, "ATC", ["A"], ph(1)),
        ],
        "mixed": [
            Rec("chr1", 2, "C", ["G"], ph(2)),
            Rec("chr1", 6, "C", ["CGG"], unph),
            Rec("chr1", 10, "ATC", ["A"], ph(1)),
            Rec("chr1", 20, "A", ["T"], ph(2)),
            Rec("chr1", 25, "A", ["T"], unph),
            Rec("chr1", 30, "A", ["T"], ph(1)),
        ],
        "multi_alt": [Rec("chr1", 2, "C", ["G", "T"], unph), Rec("chr1", 8, "C", ["G", "CAA"], unph)],
        "multi_alt_phased": [Rec("chr1", 2, "C", ["G"], ph(5)), Rec("chr1", 8, "C", ["A", "T"], ph(6))],
        "multi_chrom_unsorted": [
            Rec("chr2", 2, "C", ["G"], ph(1)),
            Rec("chr1", 6, "C", ["CGG"], ph(1)),
            Rec("chr2", 10, "ATC", ["A"], unph),
            Rec("chr1", 12, "A", ["T"], ph(1)),
            Rec("chr10", 1, "A", ["T"], unph),
        ],
        "multi_sample": [Rec("chr1", 2, "C", ["G"], [Call(GT="0|1", PS=3), Call(GT="0|1", PS=4)])],
        "no_sample": [Rec("chr1", 2, "C", ["G"], [])],
        "overlap_in_block": [Rec("chr1", 2, "CCC", ["G"], ph(1)), Rec("chr1", 3, "C", ["T"], ph(1))],
        "ps_none": [Rec("chr1", 2, "C", ["G"], [Call(GT="0/1", PS=None)]), Rec("chr1", 9, "C", ["G"], ph(3))],
    }
    for name, recs in cases.items():
        record(f"G/{name}", lambda: model_desc(convert_vcf_records_to_model(recs)))


def main():
    section_a()
    section_bc()
    section_d()
    section_ef()
    section_g()
    section_h()


if __name__ == "__main__":
    if sys.argv[1] == "dump":
        main()
        with open(sys.argv[2], "w") as fh:
            json.dump(RESULTS, fh, indent=0, sort_keys=True)
        n_exc = sum(1 for v in RESULTS.values() if v.startswith("EXC"))
        print(f"{len(RESULTS)} observations written to {sys.argv[2]} ({n_exc} are exceptions)")
    elif sys.argv[1] == "compare":
        a = json.load(open(sys.argv[2]))
        b = json.load(open(sys.argv[3]))
        bad = [k for k in sorted(set(a) | set(b)) if a.get(k) != b.get(k)]
        for k in bad[:20]:
            print("DIFF", k, "\n   ", str(a.get(k))[:400], "\n   ", str(b.get(k))[:400])
        print(f"{len(a)} vs {len(b)} observations, {len(bad)} differ")
        sys.exit(1 if bad else 0)
