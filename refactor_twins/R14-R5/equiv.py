"""
Equivalence harness for the BED12 export refactorings (property C14).

Usage (from the worktree root):

    /venv/bin/python _refactor/R1/equiv.py dump /tmp/pristine.json      # on the pristine checkout
    git apply _refactor/R1/patch.diff
    /venv/bin/python _refactor/R1/equiv.py dump /tmp/patched.json       # on the patched checkout
    /venv/bin/python _refactor/R1/equiv.py compare /tmp/pristine.json /tmp/patched.json

Every observation is the repr / str / dict of a result, or the exception class + message if the call raised.
"""
import inspect
import itertools
import json
import os
import sys
from uuid import UUID

sys.path.insert(0, os.getcwd())  # run from the worktree root so that the checkout under test is imported

import inscripta.biocantor.location  # noqa: F401  (must be first: circular import otherwise)
from inscripta.biocantor.gene.cds_frame import CDSFrame
from inscripta.biocantor.gene.biotype import Biotype
from inscripta.biocantor.gene.feature import FeatureInterval, FeatureIntervalCollection
from inscripta.biocantor.gene.transcript import TranscriptInterval
from inscripta.biocantor.io.bed import BED3, BED6, BED12, RGB
from inscripta.biocantor.location.location_impl import SingleInterval
from inscripta.biocantor.location.strand import Strand
from inscripta.biocantor.parent import Parent, SequenceType
from inscripta.biocantor.sequence.alphabet import Alphabet
from inscripta.biocantor.sequence.sequence import Sequence

GENOME = ("ACGTTGCAAGGCTTAACCGGATATCGCGTTAAGGCCTTAGCTAGCTAACGT" * 3)[:120]


# copies of inscripta.biocantor.io.parser.seq_to_parent / seq_chunk_to_parent (that module cannot be imported here)
def seq_to_parent(seq, seq_id=None):
    return Parent(
        sequence=Sequence(seq, Alphabet.NT_EXTENDED_GAPPED, type=SequenceType.CHROMOSOME, id=seq_id),
        location=SingleInterval(0, len(seq), Strand.PLUS),
    )


def seq_chunk_to_parent(seq, sequence_name, start, end, strand=Strand.PLUS):
    chunk_id = f"{sequence_name}:{start}-{end}"
    return Parent(
        id=chunk_id,
        sequence=Sequence(
            seq,
            Alphabet.NT_EXTENDED_GAPPED,
            id=chunk_id,
            type=SequenceType.SEQUENCE_CHUNK,
            parent=Parent(
                location=SingleInterval(
                    start, end, strand, parent=Parent(id=sequence_name, sequence_type=SequenceType.CHROMOSOME)
                )
            ),
        ),
    )


def observe(fn):
    try:
        val = fn()
        if inspect.isgenerator(val):
            val = list(val)
        return val
    except Exception as e:  # noqa
        return f"EXC {type(e).__name__}: {e}"


def norm(val):
    """JSON friendly, loss-free enough for comparison."""
    if isinstance(val, (BED3, RGB)):
        return {
            "repr": repr(val),
            "str": str(val),
            "types": {k: type(v).__name__ for k, v in vars(val).items()},
            "elem_types": {
                k: [type(x).__name__ for x in v] for k, v in vars(val).items() if isinstance(v, (list, tuple))
            },
        }
    if isinstance(val, dict):
        return {str(k): norm(v) for k, v in val.items()}
    if isinstance(val, (list, tuple)):
        return {"__seq__": type(val).__name__, "items": [norm(v) for v in val]}
    if isinstance(val, (set, frozenset)):
        return {"__set__": sorted(str(v) for v in val)}
    if isinstance(val, (int, float, bool, type(None), str)):
        return val
    if isinstance(val, UUID):
        return "UUID:" + str(val)
    return f"{type(val).__name__}:{val!s}"


# ---------------------------------------------------------------------------------------------------------------------
# input space
# ---------------------------------------------------------------------------------------------------------------------

# (exon_starts, exon_ends, cds_starts, cds_ends, cds_frames)
TX_SHAPES = {
    "single_noncoding": ([10], [40], None, None, None),
    "single_coding": ([10], [40], [13], [31], [CDSFrame.ZERO]),
    "single_full_cds": ([10], [40], [10], [40], [CDSFrame.ZERO]),
    "two_noncoding": ([5, 30], [20, 55], None, None, None),
    "two_coding": ([5, 30], [20, 55], [8, 30], [20, 50], [CDSFrame.ZERO, CDSFrame.ZERO]),
    "three_coding": ([12, 30, 60], [24, 45, 90], [15, 30, 60], [24, 45, 72], [CDSFrame.ZERO, CDSFrame.ZERO, CDSFrame.ZERO]),
    "three_cds_middle": ([12, 30, 60], [24, 45, 90], [33], [42], [CDSFrame.ZERO]),
    "four_noncoding": ([0, 20, 50, 100], [10, 35, 70, 120], None, None, None),
    "five_coding": (
        [2, 11, 31, 52, 80],
        [8, 20, 43, 70, 100],
        [14, 31, 52],
        [20, 43, 61],
        [CDSFrame.ZERO, CDSFrame.ZERO, CDSFrame.ZERO],
    ),
    "adjacent_blocks": ([10, 20], [20, 30], None, None, None),
}

# chunk windows (start, end); some contain the interval, some slice it, some miss it completely
WINDOWS = [(0, 120), (1, 119), (5, 100), (10, 40), (12, 90), (2, 100), (25, 65), (0, 9), (100, 120), (41, 59), (33, 42)]

PARENTS = ["none", "chrom", "chrom_noseq"] + [f"chunk:{s}-{e}" for s, e in WINDOWS]

BED_ARG_SETS = [
    dict(),
    dict(score=500),
    dict(score=None, rgb=None, name=None),
    dict(rgb=RGB(128, 12, 255)),
    dict(name="guid"),
    dict(name="transcript_id"),
    dict(name="feature_id"),
    dict(name="a literal name"),
    dict(name="start"),
    dict(name="cds_start"),
    dict(name="sequence_name"),
    dict(name="strand"),
    dict(name=5),
]


def make_parent(spec):
    if spec == "none":
        return None
    if spec == "chrom":
        return seq_to_parent(GENOME, seq_id="chr1")
    if spec == "chrom_noseq":
        return Parent(id="chr1", sequence_type=SequenceType.CHROMOSOME)
    s, e = (int(x) for x in spec.split(":")[1].split("-"))
    return seq_chunk_to_parent(GENOME[s:e], "chr1", s, e)


def make_tx(shape, strand, parent, with_ids):
    es, ee, cs, ce, cf = TX_SHAPES[shape]
    kw = {}
    if with_ids:
        kw = dict(
            transcript_id="tx-id",
            transcript_symbol="tx symbol",
            transcript_type=Biotype.protein_coding,
            sequence_name="chr1",
            protein_id="prot",
            product="a product",
            is_primary_tx=True,
            qualifiers={"key": ["v2", "v1"], "other": ["x"]},
        )
    return TranscriptInterval(
        list(es), list(ee), strand, cs and list(cs), ce and list(ce), cf and list(cf), parent_or_seq_chunk_parent=parent, **kw
    )


def make_feat(shape, strand, parent, with_ids):
    es, ee, _, _, _ = TX_SHAPES[shape]
    kw = {}
    if with_ids:
        kw = dict(
            feature_id="feat-id",
            feature_name="feat name",
            feature_types=["promoter", "enhancer"],
            sequence_name="chr1",
            is_primary_feature=False,
            qualifiers={"key": ["v2", "v1"]},
        )
    return FeatureInterval(list(es), list(ee), strand, parent_or_seq_chunk_parent=parent, **kw)


def gff_rows(obj, **kw):
    return [str(r) for r in obj.to_gff(**kw)]


def observations_for(obj):
    out = {}
    for i, args in enumerate(BED_ARG_SETS):
        for mode in (True, False):
            key = f"bed12[{i}:{sorted(args)}|chrom={mode}]"
            out[key] = norm(observe(lambda: obj.to_bed12(chromosome_relative_coordinates=mode, **args)))
    # positional call forms
    out["bed12_positional"] = norm(observe(lambda: obj.to_bed12(7, RGB(1, 2, 3), "guid", False)))
    out["bed12_positional3"] = norm(observe(lambda: obj.to_bed12(7, RGB(1, 2, 3), "nm")))
    out["bed12_str_default"] = norm(observe(lambda: str(obj.to_bed12())))
    out["bed12_str_rel"] = norm(observe(lambda: str(obj.to_bed12(chromosome_relative_coordinates=False))))
    for mode in (True, False):
        out[f"to_dict[{mode}]"] = norm(observe(lambda: obj.to_dict(chromosome_relative_coordinates=mode)))
        out[f"to_gff[{mode}]"] = norm(observe(lambda: gff_rows(obj, chromosome_relative_coordinates=mode)))
    out["to_dict_default"] = norm(observe(lambda: obj.to_dict()))
    out["to_gff_parent"] = norm(
        observe(lambda: gff_rows(obj, parent="the-parent", parent_qualifiers={"pq": {"a", "b"}, "key": {"v9"}}))
    )
    out["to_gff_reserved"] = norm(
        observe(lambda: gff_rows(obj, parent_qualifiers={"ID": {"a"}}, raise_on_reserved_attributes=False))
    )
    out["export_qualifiers"] = norm(observe(lambda: obj.export_qualifiers()))
    out["export_qualifiers_parent"] = norm(observe(lambda: obj.export_qualifiers({"pq": {"a"}, "key": {"zz"}})))
    out["str"] = norm(observe(lambda: str(obj)))
    out["repr"] = norm(observe(lambda: repr(obj)))
    out["len"] = norm(observe(lambda: len(obj)))
    out["guid"] = norm(observe(lambda: obj.guid))
    for attr in (
        "start",
        "end",
        "chunk_relative_start",
        "chunk_relative_end",
        "num_blocks",
        "num_chunk_relative_blocks",
        "strand",
        "chunk_relative_strand",
        "is_chunk_relative",
        "id",
        "name",
        "identifiers_dict",
        "cds_start",
        "cds_end",
        "chunk_relative_cds_start",
        "chunk_relative_cds_end",
        "cds_size",
        "chunk_relative_cds_size",
        "is_coding",
        "is_primary_feature",
    ):
        out[f"attr:{attr}"] = norm(observe(lambda: getattr(obj, attr)))
    out["blocks"] = norm(observe(lambda: [str(b) for b in obj.blocks]))
    out["relative_blocks"] = norm(observe(lambda: [str(b) for b in obj.relative_blocks]))
    if isinstance(obj, TranscriptInterval):
        out["cds_blocks"] = norm(observe(lambda: [str(b) for b in obj.cds_blocks]))
        out["chunk_relative_cds_blocks"] = norm(observe(lambda: [str(b) for b in obj.chunk_relative_cds_blocks]))
    # round trip through the dictionary
    out["from_dict_bed"] = norm(observe(lambda: str(type(obj).from_dict(obj.to_dict()).to_bed12())))
    return out


def direct_bed_observations():
    out = {}
    rgbs = [RGB(), RGB(1), RGB(1, 2), RGB(255, 128, 0), RGB(r=3, b=9), RGB("a", None, 2.5)]
    for i, rgb in enumerate(rgbs):
        out[f"rgb{i}"] = norm(rgb)
        out[f"rgb{i}:eq"] = [rgb == other for other in rgbs]
        out[f"rgb{i}:hash_eq"] = [hash(rgb) == hash(other) for other in rgbs]
    out["rgb_frozen"] = norm(observe(lambda: setattr(RGB(), "r", 5)))
    out["rgb_fields"] = norm(observe(lambda: [f for f in RGB.__dataclass_fields__]))
    for cls in (BED3, BED6, BED12):
        out[f"{cls.__name__}_fields"] = norm(observe(lambda: [f for f in cls.__dataclass_fields__]))
        out[f"{cls.__name__}_sig"] = str(inspect.signature(cls))
    out["bed3"] = norm(BED3("chr1", 0, 10))
    out["bed3b"] = norm(BED3(None, 5, None))
    for strand in Strand:
        out[f"bed6:{strand.name}"] = norm(observe(lambda: BED6("chr2", 4, 9, "nm", 100, strand)))
        out[f"bed6:{strand.name}:str"] = norm(observe(lambda: str(BED6("chr2", 4, 9, None, None, strand))))
        out[f"bed12:{strand.name}"] = norm(
            observe(lambda: BED12("chr2", 4, 30, "nm", 100, strand, 6, 20, RGB(1, 2, 3), 2, [5, 6], [0, 20]))
        )
        out[f"bed12:{strand.name}:empty"] = norm(
            observe(lambda: str(BED12(None, 4, 30, None, None, strand, 0, 0, None, 0, [], [])))
        )
        out[f"bed12:{strand.name}:tuple"] = norm(
            observe(lambda: str(BED12("c", 4, 30, UUID(int=5), 1.5, strand, 0, 0, "1,1,1", 3, (1, 2, 3), (0, 4, 9))))
        )
    out["bed6_bad_strand"] = norm(observe(lambda: str(BED6("chr2", 4, 9, "nm", 100, "+"))))
    out["bed12_bad_strand"] = norm(observe(lambda: str(BED12("c", 4, 30, "n", 1, None, 0, 0, RGB(), 1, [1], [0]))))
    out["bed12_bad_sizes"] = norm(observe(lambda: str(BED12("c", 4, 30, "n", 1, Strand.PLUS, 0, 0, RGB(), 1, 5, [0]))))
    out["bed12_eq"] = (
        BED12("c", 4, 30, "n", 1, Strand.PLUS, 0, 0, RGB(), 1, [1], [0])
        == BED12("c", 4, 30, "n", 1, Strand.PLUS, 0, 0, RGB(0, 0, 0), 1, [1], [0])
    )
    out["to_bed12_sigs"] = {
        cls.__name__: str(inspect.signature(cls.to_bed12)) for cls in (TranscriptInterval, FeatureInterval)
    }
    return out


def collect():
    results = {"direct": direct_bed_observations()}
    n = 0
    for shape, strand, pspec, with_ids in itertools.product(
        TX_SHAPES, (Strand.PLUS, Strand.MINUS, Strand.UNSTRANDED), PARENTS, (True, False)
    ):
        if strand == Strand.UNSTRANDED and (TX_SHAPES[shape][2] is not None or not with_ids):
            # keep unstranded to the non-coding shapes, one metadata flavour
            continue
        for kind, maker in (("tx", make_tx), ("feat", make_feat)):
            if kind == "feat" and TX_SHAPES[shape][2] is not None and shape not in ("three_coding", "single_coding"):
                continue  # features ignore the CDS part; avoid duplicating identical exon structures
            key = f"{kind}|{shape}|{strand.name}|{pspec}|ids={with_ids}"
            obj = observe(lambda: maker(shape, strand, make_parent(pspec), with_ids))
            if isinstance(obj, str):
                results[key] = {"construct": obj}
            else:
                results[key] = observations_for(obj)
                n += 1
    # feature collections route through FeatureInterval.to_gff / to_dict
    for pspec in ("none", "chrom", "chunk:5-100", "chunk:25-65"):
        def build():
            parent = make_parent(pspec)
            feats = [
                make_feat("three_coding", Strand.PLUS, parent, True),
                make_feat("two_noncoding", Strand.MINUS, parent, False),
            ]
            return FeatureIntervalCollection(
                feats, feature_collection_name="fc", sequence_name="chr1", parent_or_seq_chunk_parent=parent
            )

        coll = observe(build)
        key = f"coll|{pspec}"
        if isinstance(coll, str):
            results[key] = {"construct": coll}
            continue
        res = {}
        for mode in (True, False):
            res[f"to_dict[{mode}]"] = norm(observe(lambda: coll.to_dict(chromosome_relative_coordinates=mode)))
            res[f"to_gff[{mode}]"] = norm(observe(lambda: gff_rows(coll, chromosome_relative_coordinates=mode)))
            res[f"child_bed[{mode}]"] = norm(
                observe(lambda: [str(f.to_bed12(chromosome_relative_coordinates=mode)) for f in coll.iter_children()])
            )
        res["merged_bed"] = norm(observe(lambda: str(coll.get_merged_feature().to_bed12())))
        results[key] = res
    # odd metadata: a biotype given as a plain string (as incorporate_variants() does), falsy identifiers
    for label, kw in {
        "str_biotype": dict(transcript_type="protein_coding", sequence_name="chr1"),
        "falsy_ids": dict(transcript_id="", transcript_symbol="", protein_id="", sequence_name="chr1"),
        "qualifier_clash": dict(
            transcript_id="t1", sequence_name="chr1", qualifiers={"transcript_id": ["other"], "protein_id": ["p"]}
        ),
    }.items():
        for pspec in ("none", "chunk:5-100"):
            tx = TranscriptInterval(
                [12, 30, 60], [24, 45, 90], Strand.MINUS, [15, 30], [24, 42], [CDSFrame.ZERO, CDSFrame.ZERO],
                parent_or_seq_chunk_parent=make_parent(pspec), **kw
            )
            results[f"odd_tx|{label}|{pspec}"] = observations_for(tx)
    for label, kw in {
        "falsy_ids": dict(feature_id="", feature_name="", sequence_name="chr1", feature_types=[]),
        "qualifier_clash": dict(
            feature_id="f1", feature_name="fn", sequence_name="chr1", qualifiers={"feature_id": ["other"], "feature_name": [1]}
        ),
    }.items():
        for pspec in ("none", "chunk:5-100"):
            feat = FeatureInterval(
                [12, 30, 60], [24, 45, 90], Strand.MINUS, parent_or_seq_chunk_parent=make_parent(pspec), **kw
            )
            results[f"odd_feat|{label}|{pspec}"] = observations_for(feat)
    results["__count__"] = n
    return results


def main():
    if sys.argv[1] == "dump":
        res = collect()
        with open(sys.argv[2], "w") as fh:
            json.dump(res, fh, indent=1, sort_keys=True)
        nobs = sum(len(v) for v in res.values() if isinstance(v, dict))
        print(f"dumped {res['__count__']} objects / {nobs} observations to {sys.argv[2]}")
    elif sys.argv[1] == "compare":
        a = json.load(open(sys.argv[2]))
        b = json.load(open(sys.argv[3]))
        bad = 0
        for key in sorted(set(a) | set(b)):
            if a.get(key) != b.get(key):
                bad += 1
                if isinstance(a.get(key), dict) and isinstance(b.get(key), dict):
                    for k2 in sorted(set(a[key]) | set(b[key])):
                        if a[key].get(k2) != b[key].get(k2):
                            print(f"DIFF {key} :: {k2}\n   A={a[key].get(k2)}\n   B={b[key].get(k2)}")
                else:
                    print(f"DIFF {key}\n   A={a.get(key)}\n   B={b.get(key)}")
        nobs = sum(len(v) for v in a.values() if isinstance(v, dict))
        print(f"{'EQUIVALENT' if not bad else 'NOT EQUIVALENT'}: {len(a)} groups, {nobs} observations, {bad} differing")
        sys.exit(1 if bad else 0)
    else:
        raise SystemExit(__doc__)


if __name__ == "__main__":
    main()
